"""C13 — loops visit exactly the documented items.

Anchors: liquid/builtin/expressions/loop.py (LoopExpression._to_iter/_to_int/_slice/evaluate),
liquid/builtin/tags/for_tag.py (ForNode, ForLoop, break/continue), liquid/builtin/tags/tablerow_tag.py
(TableRow.step, TablerowNode), liquid/context.py (RenderContext.stopindex).

A case of the template-level streams is a small JSON template tree (`nodes`) plus the collections it
iterates (`data`); `build_source` turns it into real Liquid source + globals, `model_nodes` into the
line for the Lean driver, `ref_render` is the property stated directly (closed forms, no automata).
"""
from __future__ import annotations

import itertools

from ..core import Stream

ID = "C13"
LEAN_MODULE = "LiquidVerif.Props.C13"
TRANSLATE = False
HUGE = 10**20
RULE = (
    "streams: slice (LoopExpression._slice called directly: every length 0..L, limit in None/-3..len+3/+-1e20, offset "
    "in None/continue(with every earlier stop index)/-3..len+3/+-1e20, reversed on/off; exhaustive), drop (ForLoop and "
    "TableRow drops driven directly, every length 0..8, every cols -2..len+2 and huge; exhaustive), iter (_to_iter on "
    "every kind of object), for1 (one rendered {% for %} per collection kind x length x limit x offset x reversed, "
    "values written as literals / variables / numeric strings / string variables in rotation, printing the item and "
    "all seven helpers, with an else block; exhaustive), tablerow (rendered {% tablerow %} for every length x cols x a "
    "limit/offset grid x break/continue position; exhaustive), chain (sequences of 2..4 for/tablerow loops sharing or "
    "not sharing offset:continue keys: all pairs exhaustively + random longer chains), nest (random nesting up to depth "
    "3 with parentloop chains, conditional break/continue, else blocks, inner offset:continue), malformed (non-numeric "
    "strings, nil, undefined as limit/offset/cols). Every template is rendered synchronously and asynchronously. "
    "Non-trivial: some loop of the case has a window that is neither empty nor the whole collection, or a limit/offset "
    "that is zero, negative or huge, or offset:continue after an earlier loop over the same key, or a break/continue "
    "that fires, or (tablerow) at least two rows. Deepening round: iter also covers generators, sets, dict views, deque, custom Sequence/Mapping subclasses, str subclasses and Markup (which _to_iter branch each class takes); stack (model stream, Model/LoopStack.lean): templates whose loop bodies raise, hit context_depth_limit 4..7/30, break or continue, in strict/lax/warn, followed by loops reading their parentloop chain; observation = output buffer, error class, len(context.loops); non-trivial when a loop is nested or a body fails; tolerant (oracle only) kept."
)
TRUSTED_BASE = [
    "Lean 4.33 kernel; axioms subset of {propext, Classical.choice, Quot.sound}",
    "hand-written models LiquidVerif/Model/LoopStack.lean (context.loops as threaded state: RenderContext.loop/extend, per-node error suppression of render_with_context), LiquidVerif/Model/Loop.lean (_to_iter, _to_int, _slice, stopindex, ForLoop and TableRow automata) and Model/LoopRender.lean (ForNode/TablerowNode/BlockNode/break/continue interpreter) of the anchored files",
    "correspondence harness harness/props/c13.py + Driver/C13.lean: every case runs on the real code (sync and async) and on the model; the translation of a JSON case to Liquid source and to the model line (build_source / model_nodes) is trusted",
    "CPython itertools.islice, reversed(list(...)), int(), range, dict ordering — modelled as definitions, sampled by the slice/iter streams",
    "variable lookup, literal parsing and output of ints/strings/booleans by the real engine (the model receives the evaluated argument class: int / numeric str / non-numeric str / nil / undefined)",
]
ASSUMPTIONS = [
    "Reference semantics used (Shopify Liquid for.rb / tablerow.rb with offsets clamped): item i of the collection is visited iff max(offset,0) <= i < offset+limit (i < length); limit 0 or negative visits nothing; offset:continue resumes at clamp(offset,0,length) + number visited by the previous loop with the same `identifier-iterable` key; cols <= 0 never wraps (row 1)",
    "str(iterable expression) for the generated iterables (names, dotted paths, integer range literals) is the source text the generator wrote (checked by comparing the stopindex keys)",
    "loop_iteration_limit is unset (default); iterables are dicts, lists, tuples, ranges, strings or non-iterables (custom drops / lazy sequences are outside the model)",
]
MANIFEST = {
    "technique": "Lean 4 proof (list induction + linear integer arithmetic over the _slice window, ForLoop/TableRow automata and a for/tablerow/break/continue interpreter) + differential correspondence on rendered templates, exhaustive for small collections",
    "text": "Theorems slice_visits_spec, slice_visits_indices, length_is_visited, slice_never_raises, reversed_spec, else_iff_empty, forloop_helpers, parentloop_is_enclosing, continue_offset, continue_visits_the_rest, continue_chain, stopindex_frame, tablerow_grid, tablerow_nowrap, tablerow_structure, break_honoured, continue_honoured, for_renders_spec, loop_stack_restored, template_loop_stack_restored, new_loop_parent, undefined_limit_visits_nothing hold for every collection, every integer limit/offset, every cols and every loop body, with no bound; the models are tied to loop.py/for_tag.py/tablerow_tag.py/context.py by direct calls of _slice and the drops and by rendering real templates (sync and async), exhaustively for small collections.",
    "note": "Trusted: Lean kernel (axioms propext/Classical.choice/Quot.sound only), the hand models, the harness translation of cases to Liquid source, CPython islice/int/range semantics (sampled). Five defects of the original tree were repaired (fix-C13: limit:0, negative limit, tablerow cols:0 row number, break before row separator; fix2-C13: ForLoop left on the loop stack when extend raises); the models mirror the repaired code.",
}

FIELDS = ["index", "index0", "rindex", "rindex0", "first", "last", "length"]
TFIELDS = FIELDS + ["col", "col0", "col_first", "col_last", "row"]


# ----------------------------------------------------------------------------------------------
# case helpers
# ----------------------------------------------------------------------------------------------
def py_value(obj):
    """data JSON -> the Python object handed to the template"""
    k = obj[0]
    if k == "seq":
        return [py_item(x) for x in obj[1]]
    if k == "tuple":
        return tuple(py_item(x) for x in obj[1])
    if k == "mapping":
        return {kk: vv for kk, vv in obj[1]}
    if k == "range":
        return range(obj[1], obj[2])
    if k == "str":
        return obj[1]
    if k == "other":
        return {"int": 5, "none": None, "float": 1.5, "bool": True}[obj[1]]
    if k == "ns":  # a namespace holding collections: {"a": obj}
        return {kk: py_value(vv) for kk, vv in obj[1].items()}
    raise ValueError(obj)


def py_item(x):
    return x[1] if x[0] in ("i", "s") else (x[1], x[2])


def model_obj(obj):
    k = obj[0]
    if k in ("seq", "tuple"):
        return ["seq", [model_item(x) for x in obj[1]]]
    if k == "mapping":
        return ["mapping", [[kk, str(vv)] for kk, vv in obj[1]]]
    if k == "range":
        return ["range", str(obj[1]), str(obj[2])]
    if k == "str":
        return ["str", obj[1]]
    return ["other"]


def model_item(x):
    if x[0] == "i":
        return ["i", str(x[1])]
    if x[0] == "s":
        return ["s", x[1]]
    return ["p", x[1], str(x[2])]


def resolve(data, it):
    """iterable reference of a loop spec -> data JSON object (or other)"""
    if isinstance(it, list):  # ["rangelit", lo, hi] : (lo..hi)
        return ["range", it[1], it[2] + 1]
    if "." in it:
        a, b = it.split(".", 1)
        ns = data.get(a)
        if ns and ns[0] == "ns" and b in ns[1]:
            return ns[1][b]
        return ["other", "none"]
    return data.get(it, ["other", "none"])


def iter_text(it):
    return f"({it[1]}..{it[2]})" if isinstance(it, list) else it


def obj_items(obj, ss):
    """the reference's view of what a collection contains (display strings)"""
    k = obj[0]
    if k in ("seq", "tuple"):
        return [show_item(x) for x in obj[1]]
    if k == "mapping":
        return [f"{kk}={vv}" for kk, vv in obj[1]]
    if k == "range":
        return [str(i) for i in range(obj[1], obj[2])]
    if k == "str":
        if ss:
            return list(obj[1])
        return [obj[1]] if obj[1] else []
    return []


def show_item(x):
    return str(x[1]) if x[0] in ("i", "s") else f"{x[1]}={x[2]}"


def arg_value(a):
    """the integer the reference gives an argument, or 'bad'"""
    if a is None:
        return None
    f = a["f"]
    if f in ("lit", "var", "str", "strvar"):
        return a["v"]
    if f == "undef":
        return 0
    return "bad"


def model_arg(a):
    if a is None:
        return None
    f = a["f"]
    if f in ("lit", "var"):
        return ["int", str(a["v"])]
    if f in ("str", "strvar"):
        return ["numstr", str(a["v"])]
    if f in ("bad", "badvar"):
        return ["badstr"]
    if f == "nil":
        return ["nil"]
    if f == "undef":
        return ["undef"]
    raise ValueError(a)


class _Src:
    """source builder: allocates a fresh variable for every argument given 'as a variable'"""

    def __init__(self, data):
        self.globals = {k: py_value(v) for k, v in data.items()}
        self.n = 0

    def arg(self, a):
        f = a["f"]
        if f == "lit":
            return str(a["v"])
        if f == "str":
            return f'"{a["v"]}"'
        if f == "bad":
            return '"abc"'
        if f == "undef":
            return "nosuchthing"
        name = f"v{self.n}"
        self.n += 1
        self.globals[name] = {"var": a.get("v"), "strvar": str(a.get("v")), "badvar": "x1y", "nil": None}[f]
        return name

    def loop_expr(self, spec, data, cols=None, has_cols=False):
        parts = []
        if spec.get("limit") is not None:
            parts.append("limit:" + self.arg(spec["limit"]))
        off = spec.get("offset")
        if off == "continue":
            parts.append("offset:continue")
        elif off == "strcontinue":
            parts.append('offset:"continue"')
        elif off is not None:
            parts.append("offset:" + self.arg(off))
        if has_cols and cols is not None:
            parts.append("cols:" + self.arg(cols))
        if spec.get("reversed"):
            parts.append("reversed")
        o = spec.get("ord", 0)
        if parts and o:
            k = o % len(parts)
            parts = parts[k:] + parts[:k]
        sep = ", " if spec.get("ord", 0) >= 3 else " "
        if sep == ", " and "reversed" in parts:
            # `x, reversed, y` is rejected by LoopExpression.parse in strict mode (it peeks past the single
            # `reversed` token and sees the second comma) — a parser quirk outside this property
            parts = [p for p in parts if p != "reversed"] + ["reversed"]
        return f"{spec['ident']} in {iter_text(spec['it'])}" + (" " + sep.join(parts) if parts else "")

    def nodes(self, nodes, data, kinds):
        return "".join(self.node(n, data, kinds) for n in nodes)

    def node(self, n, data, kinds):
        t = n[0]
        if t == "text":
            return n[1]
        if t == "var":
            if kinds.get(n[1]) == "pair":
                return "{{ %s[0] }}={{ %s[1] }}" % (n[1], n[1])
            return "{{ %s }}" % n[1]
        if t == "forloop":
            return "{{ forloop." + "parentloop." * n[1] + n[2] + " }}"
        if t == "trl":
            return "{{ tablerowloop." + n[1] + " }}"
        if t == "if":
            c = n[1]
            cond = {"always": "true", "fi0": f"forloop.index0 == {c[1] if len(c) > 1 else 0}", "ri0": f"tablerowloop.index0 == {c[1] if len(c) > 1 else 0}"}[c[0]]
            return "{% if " + cond + " %}" + self.nodes(n[2], data, kinds) + "{% endif %}"
        if t == "break":
            return "{% break %}"
        if t == "continue":
            return "{% continue %}"
        if t == "for":
            spec = n[1]
            k2 = dict(kinds)
            k2[spec["ident"]] = "pair" if resolve(data, spec["it"])[0] == "mapping" else "plain"
            s = "{% for " + self.loop_expr(spec, data) + " %}" + self.nodes(n[2], data, k2)
            if n[3] is not None:
                s += "{% else %}" + self.nodes(n[3], data, kinds)
            return s + "{% endfor %}"
        if t == "tablerow":
            spec = n[1]
            k2 = dict(kinds)
            k2[spec["ident"]] = "pair" if resolve(data, spec["it"])[0] == "mapping" else "plain"
            return "{% tablerow " + self.loop_expr(spec, data, n[2], True) + " %}" + self.nodes(n[3], data, k2) + "{% endtablerow %}"
        raise ValueError(n)


def build_source(case):
    b = _Src(case["data"])
    src = b.nodes(case["nodes"], case["data"], {})
    return src, b.globals


def model_nodes(nodes, data):
    out = []
    for n in nodes:
        t = n[0]
        if t in ("text", "var", "break", "continue"):
            out.append(list(n))
        elif t == "forloop":
            out.append(["forloop", n[1], n[2]])
        elif t == "trl":
            out.append(["trl", n[1]])
        elif t == "if":
            c = n[1]
            out.append(["if", [c[0]] + [str(x) for x in c[1:]] if c[0] != "always" else ["always"], model_nodes(n[2], data)])
        elif t == "for":
            out.append(["for", model_spec(n[1], data), model_nodes(n[2], data), None if n[3] is None else model_nodes(n[3], data)])
        elif t == "tablerow":
            out.append(["tablerow", model_spec(n[1], data), model_arg(n[2]), model_nodes(n[3], data)])
        else:
            raise ValueError(n)
    return out


def model_spec(spec, data):
    off = spec.get("offset")
    return {
        "ident": spec["ident"],
        "iter": iter_text(spec["it"]),
        "obj": model_obj(resolve(data, spec["it"])),
        "limit": model_arg(spec.get("limit")),
        "offset": None if off is None else ("continue" if off in ("continue", "strcontinue") else model_arg(off)),
        "reversed": bool(spec.get("reversed")),
    }


_ENVS: dict = {}


def get_env(ss: bool):
    if ss not in _ENVS:
        from liquid import Environment

        class Env(Environment):
            string_sequences = ss

        _ENVS[ss] = Env()
    return _ENVS[ss]


def run_template(case):
    """render the case on the real engine, synchronously and asynchronously"""
    import asyncio
    from io import StringIO

    from liquid.exceptions import LiquidError

    src, glob = build_source(case)
    env = get_env(bool(case.get("ss")))

    def one(is_async):
        try:
            t = env.from_string(src)
            ctx = t.context_class(t, globals=t.make_globals(dict(glob)))
            buf = StringIO()
            if is_async:
                asyncio.run(t.render_with_context_async(ctx, buf))
            else:
                t.render_with_context(ctx, buf)
            stop = sorted([k, str(v)] for k, v in ctx.tag_namespace["stopindex"].items())
            return {"out": buf.getvalue(), "stop": stop}
        except LiquidError as e:
            return {"err": type(e).__name__, "liquid": True}
        except Exception as e:  # noqa: BLE001
            return {"err": type(e).__name__, "liquid": False}

    a = one(False)
    b = one(True)
    a["async_same"] = a == b
    if not a["async_same"]:
        a["async"] = b
    a["src"] = src
    return a


# ----------------------------------------------------------------------------------------------
# the property, stated directly (reference renderer in closed form)
# ----------------------------------------------------------------------------------------------
class _Bad(Exception):
    pass


class _Ref:
    def __init__(self, data, ss):
        self.data = data
        self.ss = ss
        self.pos: dict = {}  # continue positions, per `identifier-iterable`
        self.features: list = []

    def window(self, spec):
        xs = obj_items(resolve(self.data, spec["it"]), self.ss)
        n = len(xs)
        key = spec["ident"] + "-" + iter_text(spec["it"])
        lim = arg_value(spec.get("limit"))
        off = spec.get("offset")
        if off in ("continue", "strcontinue"):
            o = self.pos.get(key, 0)
        else:
            o = arg_value(off)
            o = 0 if o is None else o
        if lim == "bad" or o == "bad":
            raise _Bad()
        for a in (spec.get("limit"), off):
            if isinstance(a, dict) and a["f"] == "undef":
                raise _Bad()  # an undefined limit/offset: the property prescribes nothing (the engine reads it as 0)
        idx = [i for i in range(n) if max(o, 0) <= i and (lim is None or i < o + lim)]
        self.pos[key] = min(max(o, 0), n) + len(idx)
        vis = [xs[i] for i in idx]
        if spec.get("reversed"):
            vis.reverse()
        return vis

    def block(self, nodes, vars_, loops, rows):
        out = []
        for nd in nodes:
            o, sig = self.node(nd, vars_, loops, rows)
            out.append(o)
            if sig:
                return "".join(out), sig
        return "".join(out), None

    def node(self, n, vars_, loops, rows):
        t = n[0]
        if t == "text":
            return n[1], None
        if t == "var":
            return vars_.get(n[1], ""), None
        if t == "forloop":
            if n[1] >= len(loops):
                return "", None
            k, ln = loops[len(loops) - 1 - n[1]]
            return fmt(helper(k, ln, n[2])), None
        if t == "trl":
            if not rows:
                return "", None
            k, ln, c = rows[-1]
            return fmt(thelper(k, ln, c, n[1])), None
        if t == "if":
            c = n[1]
            if c[0] == "always":
                ok = True
            elif c[0] == "fi0":
                ok = bool(loops) and loops[-1][0] == c[1]
            else:
                ok = bool(rows) and rows[-1][0] == c[1]
            return self.block(n[2], vars_, loops, rows) if ok else ("", None)
        if t == "break":
            return "", "break"
        if t == "continue":
            return "", "continue"
        if t == "for":
            spec = n[1]
            vis = self.window(spec)
            if not vis:
                return self.block(n[3], vars_, loops, rows) if n[3] is not None else ("", None)
            out = []
            for k, x in enumerate(vis):
                v2 = dict(vars_)
                v2[spec["ident"]] = x
                o, sig = self.block(n[2], v2, loops + [(k, len(vis))], rows)
                out.append(o)
                if sig == "break":
                    break
            return "".join(out), None
        if t == "tablerow":
            spec = n[1]
            vis = self.window(spec)
            c = arg_value(n[2])
            if c == "bad":
                c = 0
            if n[2] is not None and n[2]["f"] == "nil":
                raise _Bad()
            if c is None:
                c = len(vis)
            out = ['<tr class="row1">\n']
            for k, x in enumerate(vis):
                v2 = dict(vars_)
                v2[spec["ident"]] = x
                col = thelper(k, len(vis), c, "col")
                out.append(f'<td class="col{col}">')
                o, sig = self.block(n[3], v2, loops, rows + [(k, len(vis), c)])
                out.append(o + "</td>")
                if sig == "break":
                    break
                if col == c and k != len(vis) - 1:
                    out.append(f'</tr>\n<tr class="row{thelper(k, len(vis), c, "row") + 1}">')
            out.append("</tr>\n")
            return "".join(out), None
        raise ValueError(n)


def helper(k, n, f):
    return {"index": k + 1, "index0": k, "rindex": n - k, "rindex0": n - k - 1, "first": k == 0, "last": k == n - 1, "length": n}[f]


def thelper(k, n, c, f):
    if f in FIELDS:
        return helper(k, n, f)
    col = k % c + 1 if c >= 1 else k + 1
    row = k // c + 1 if c >= 1 else 1
    return {"col": col, "col0": col - 1, "col_first": col == 1, "col_last": col == c, "row": row}[f]


def fmt(v):
    return ("true" if v else "false") if isinstance(v, bool) else str(v)


def ref_render(case):
    r = _Ref(case["data"], bool(case.get("ss")))
    try:
        out, sig = r.block(case["nodes"], {}, [], [])
    except _Bad:
        return None
    return {"out": out, "stop": sorted([k, str(v)] for k, v in r.pos.items())}


def loop_specs(nodes):
    for n in nodes:
        if n[0] == "for":
            yield "for", n[1], None
            yield from loop_specs(n[2])
            if n[3] is not None:
                yield from loop_specs(n[3])
        elif n[0] == "tablerow":
            yield "tablerow", n[1], n[2]
            yield from loop_specs(n[3])
        elif n[0] == "if":
            yield from loop_specs(n[2])


def has_interrupt(nodes):
    for n in nodes:
        if n[0] in ("break", "continue"):
            return n[0]
        if n[0] == "if":
            r = has_interrupt(n[2])
            if r:
                return r
        if n[0] == "for":
            r = has_interrupt(n[2]) or (has_interrupt(n[3]) if n[3] is not None else None)
            if r:
                return r
        if n[0] == "tablerow":
            r = has_interrupt(n[3])
            if r:
                return r
    return None


def feature(case):
    """the most specific feature of the case's loops, for violation signatures"""
    feats = []
    for tag, spec, cols in loop_specs(case["nodes"]):
        lim = arg_value(spec.get("limit"))
        off = spec.get("offset")
        o = 0 if off in (None, "continue", "strcontinue") else arg_value(off)
        n = len(obj_items(resolve(case["data"], spec["it"]), bool(case.get("ss"))))
        if isinstance(lim, int) and isinstance(o, int) and lim + o == 0 and lim <= 0:
            feats.append((0, f"{tag}|limit=0" if lim == 0 else f"{tag}|limit<0"))
        elif isinstance(lim, int) and lim < 0:
            feats.append((1, f"{tag}|limit<0"))
        elif isinstance(lim, int) and lim == 0:
            feats.append((0, f"{tag}|limit=0"))
        if tag == "tablerow" and cols is not None and arg_value(cols) in (0, "bad"):
            feats.append((2, "tablerow|cols=0"))
        if tag == "tablerow" and cols is not None and isinstance(arg_value(cols), int) and arg_value(cols) < 0:
            feats.append((3, "tablerow|cols<0"))
        if off in ("continue", "strcontinue"):
            feats.append((5, f"{tag}|offset=continue"))
        if isinstance(o, int) and o < 0:
            feats.append((6, f"{tag}|offset<0"))
        if isinstance(o, int) and o > n:
            feats.append((7, f"{tag}|offset>len"))
        if spec.get("reversed"):
            feats.append((8, f"{tag}|reversed"))
        feats.append((9, tag + "|plain"))
    it = has_interrupt(case["nodes"])
    if it:
        kinds = {t for t, _, _ in loop_specs(case["nodes"])}
        feats.append((4, ("tablerow" if "tablerow" in kinds else "for") + "|" + it))
    return min(feats)[1] if feats else "none|plain"


def template_oracle(case, obs, prefix=""):
    if not obs.get("async_same", True):
        return (prefix + "async|differs-from-sync", f"sync {str(obs)[:150]} vs async {str(obs.get('async'))[:150]}")
    exp = ref_render(case)
    if "err" in obs:
        if not obs.get("liquid"):
            return (prefix + feature(case) + "|raises-" + obs["err"], f"{obs['src']!r} raised {obs['err']} (not a Liquid error)")
        if exp is None:
            return None  # a malformed argument, reported as a Liquid error
        return (prefix + feature(case) + "|raises-" + obs["err"], f"{obs['src']!r} raised {obs['err']}; expected {exp['out']!r}")
    if exp is None:
        return None  # malformed arguments: the property prescribes nothing beyond "no foreign exception"
    if obs["out"] != exp["out"]:
        return (prefix + feature(case) + "|output", f"{obs['src']!r}: rendered {obs['out']!r}, reference {exp['out']!r}")
    if obs["stop"] != exp["stop"]:
        return (prefix + feature(case) + "|continue-position", f"{obs['src']!r}: stop indexes {obs['stop']}, reference {exp['stop']}")
    return None


def case_nontrivial(case, obs):
    if "err" in obs:
        return True
    r = _Ref(case["data"], bool(case.get("ss")))
    seen_keys = set()
    for tag, spec, cols in loop_specs(case["nodes"]):
        n = len(obj_items(resolve(case["data"], spec["it"]), bool(case.get("ss"))))
        lim = arg_value(spec.get("limit"))
        off = spec.get("offset")
        key = spec["ident"] + "-" + iter_text(spec["it"])
        if off in ("continue", "strcontinue") and key in seen_keys:
            return True
        seen_keys.add(key)
        o = 0 if off in (None, "continue", "strcontinue") else arg_value(off)
        for v in (lim, o if off is not None else None):
            if isinstance(v, int) and (v <= 0 or v > n):
                return True
        if isinstance(lim, int) and isinstance(o, int):
            w = len([i for i in range(n) if max(o, 0) <= i < o + lim])
            if 0 < w < n:
                return True
        elif lim is None and isinstance(o, int) and 0 < o < n:
            return True
        if tag == "tablerow" and cols is not None and isinstance(arg_value(cols), int) and 1 <= arg_value(cols) < n:
            return True
    return bool(has_interrupt(case["nodes"]))


def case_tags(case, obs):
    t = []
    depth = 0

    def d(nodes, k):
        nonlocal depth
        for n in nodes:
            if n[0] in ("for", "tablerow"):
                depth = max(depth, k + 1)
                d(n[2] if n[0] == "for" else n[3], k + 1)
                if n[0] == "for" and n[3] is not None:
                    d(n[3], k)
            elif n[0] == "if":
                d(n[2], k)

    d(case["nodes"], 0)
    t.append(f"depth{depth}")
    t.append(feature(case))
    for tag, spec, cols in loop_specs(case["nodes"]):
        t.append("kind:" + resolve(case["data"], spec["it"])[0])
        for nm in ("limit", "offset"):
            a = spec.get(nm)
            if isinstance(a, dict):
                t.append(f"{nm}:{a['f']}")
            elif a is not None:
                t.append(f"{nm}:{a}")
    if "err" in obs:
        t.append("err:" + obs["err"])
    elif ref_render(case) is not None and "E" in obs["out"] and any(n[0] == "for" and n[3] is not None for n in case["nodes"]):
        t.append("else-rendered")
    return sorted(set(t))


class TemplateStream(Stream):
    """shared behaviour of the template-level streams"""

    parallel = False
    prefix = ""

    def impl(self, case):
        return run_template(case)

    def line(self, case):
        return ["c13render", bool(case.get("ss")), model_nodes(case["nodes"], case["data"])]

    def compare_view(self, case, obs):
        if "err" in obs:
            return {"err": obs["err"]}
        return {"out": obs["out"], "stop": obs["stop"]}

    def canon_model(self, case, mobs):
        if isinstance(mobs, dict) and "out" in mobs:
            return {"out": mobs["out"], "stop": sorted(mobs["stop"])}
        return mobs

    def oracle(self, case, obs):
        if "src" not in obs:  # a model observation handed back by the verdict logic
            obs = dict(obs, src="<model>", liquid=obs.get("err") == "LiquidTypeError")
        return template_oracle(case, obs, self.prefix)

    def nontrivial(self, case, obs):
        return case_nontrivial(case, obs)

    def tags(self, case, obs):
        return case_tags(case, obs)

    def shrink_candidates(self, case):
        yield from shrink_case(case)


def shrink_case(case):
    """structure-preserving shrinks: drop nodes, unwrap loops, drop arguments, shorten collections"""

    def variants(nodes):
        for i, n in enumerate(nodes):
            yield nodes[:i] + nodes[i + 1 :]
            if n[0] == "for":
                spec = n[1]
                for k in ("limit", "offset", "reversed", "ord"):
                    if spec.get(k):
                        s2 = dict(spec)
                        s2[k] = None if k != "reversed" else False
                        yield nodes[:i] + [["for", s2, n[2], n[3]]] + nodes[i + 1 :]
                if n[3] is not None:
                    yield nodes[:i] + [["for", spec, n[2], None]] + nodes[i + 1 :]
                for b in variants(n[2]):
                    yield nodes[:i] + [["for", spec, b, n[3]]] + nodes[i + 1 :]
            elif n[0] == "tablerow":
                spec = n[1]
                for k in ("limit", "offset", "reversed", "ord"):
                    if spec.get(k):
                        s2 = dict(spec)
                        s2[k] = None if k != "reversed" else False
                        yield nodes[:i] + [["tablerow", s2, n[2], n[3]]] + nodes[i + 1 :]
                for b in variants(n[3]):
                    yield nodes[:i] + [["tablerow", spec, n[2], b]] + nodes[i + 1 :]
            elif n[0] == "if":
                for b in variants(n[2]):
                    yield nodes[:i] + [["if", n[1], b]] + nodes[i + 1 :]

    for v in variants(case["nodes"]):
        yield dict(case, nodes=v)
    for k, obj in case["data"].items():
        if obj[0] in ("seq", "tuple", "mapping") and obj[1]:
            yield dict(case, data=dict(case["data"], **{k: [obj[0], obj[1][:-1]]}))
        if obj[0] == "str" and obj[1]:
            yield dict(case, data=dict(case["data"], **{k: ["str", obj[1][:-1]]}))


# ----------------------------------------------------------------------------------------------
# generators
# ----------------------------------------------------------------------------------------------
def seq_data(n, base=1):
    return ["seq", [["i", base + k] for k in range(n)]]


def coll(kind, n):
    if kind == "seq":
        return seq_data(n)
    if kind == "tuple":
        return ["tuple", [["s", "t%d" % k] for k in range(n)]]
    if kind == "mapping":
        return ["mapping", [["k%d" % k, 10 + k] for k in range(n)]]
    if kind == "range":
        return ["range", 3, 3 + n]
    if kind == "str":
        return ["str", "abcdefghij"[:n]]
    raise ValueError(kind)


def int_values(n):
    return list(range(-3, n + 4)) + [HUGE, -HUGE]


FORMS = ["lit", "var", "str", "strvar"]
FOR_BODY = (
    [["text", "["], ["var", "i"]]
    + [x for f in FIELDS for x in (["text", ","], ["forloop", 0, f])]
    + [["text", "]"]]
)
TR_BODY = [["text", "["], ["var", "i"]] + [x for f in TFIELDS for x in (["text", ","], ["trl", f])] + [["text", "]"]]


class For1Stream(TemplateStream):
    name = "for1"
    exhaustive = True

    def cases(self, ctx):
        L = ctx.scale(5, 8)
        out = []
        k = 0
        for kind, ss in (("seq", False), ("mapping", False), ("range", False), ("str", True), ("tuple", False)):
            for n in range(0, L + 1):
                if kind in ("tuple",) and n > 3:
                    continue
                vals = [None] + int_values(n)
                for lim in vals:
                    for off in vals + ["continue"]:
                        for rev in (False, True):
                            k += 1
                            spec = {"ident": "i", "it": "a", "reversed": rev, "ord": k % 6}
                            if lim is not None:
                                spec["limit"] = {"f": FORMS[k % 4], "v": lim}
                            if off == "continue":
                                spec["offset"] = "continue"
                            elif off is not None:
                                spec["offset"] = {"f": FORMS[(k // 4 + k) % 4], "v": off}
                            out.append({"ss": ss, "data": {"a": coll(kind, n)}, "nodes": [["for", spec, FOR_BODY, [["text", "E"]]]]})
        # other kinds of iterable: range literals, strings without string_sequences, non-iterables, dotted paths
        for lim in (None, 0, 1, -1, 2):
            for off in (None, 0, 1, -1, 5):
                base = {"ident": "i", "reversed": False}
                if lim is not None:
                    base["limit"] = {"f": "lit", "v": lim}
                if off is not None:
                    base["offset"] = {"f": "lit", "v": off}
                for it, data in (
                    (["rangelit", 1, 4], {}),
                    (["rangelit", 3, 1], {}),
                    (["rangelit", -2, 2], {}),
                    ("a", {"a": ["str", "hello"]}),
                    ("a", {"a": ["str", ""]}),
                    ("a", {"a": ["other", "int"]}),
                    ("a", {"a": ["other", "none"]}),
                    ("a", {"a": ["other", "float"]}),
                    ("a", {"a": ["other", "bool"]}),
                    ("nosuch", {}),
                    ("d.a", {"d": ["ns", {"a": seq_data(3)}]}),
                    ("d.zz", {"d": ["ns", {"a": seq_data(3)}]}),
                ):
                    for rev in (False, True):
                        out.append({"ss": False, "data": data, "nodes": [["for", dict(base, it=it, reversed=rev), FOR_BODY, [["text", "E"]]]]})
        return out


class TablerowStream(TemplateStream):
    name = "tablerow"
    exhaustive = True

    def cases(self, ctx):
        L = ctx.scale(5, 8)
        out = []
        k = 0
        grid = [(None, None), (2, None), (None, 1), (0, None), (-1, 0), (2, 1), (None, -2), (HUGE, 2), (3, "continue")]
        for n in range(0, L + 1):
            cols_vals = [None] + list(range(-2, n + 3)) + [HUGE, -HUGE]
            for c in cols_vals:
                for lim, off in grid:
                    for intr in [None] + [(w, p) for w in ("break", "continue") for p in sorted({0, 1, max(n - 1, 0), (c if isinstance(c, int) and 0 < c < 9 else 2) - 1})]:
                        k += 1
                        if intr is not None and (lim, off) not in ((None, None), (2, 1)):
                            continue
                        spec = {"ident": "i", "it": "a", "reversed": k % 5 == 0, "ord": k % 6}
                        if lim is not None:
                            spec["limit"] = {"f": FORMS[k % 4], "v": lim}
                        if off == "continue":
                            spec["offset"] = "continue"
                        elif off is not None:
                            spec["offset"] = {"f": FORMS[(k // 4) % 4], "v": off}
                        cols = None if c is None else {"f": FORMS[(k // 2) % 4], "v": c}
                        body = list(TR_BODY)
                        if intr is not None:
                            body = body[:3] + [["if", ["ri0", intr[1]], [[intr[0]]]]] + body[3:]
                        kind = ("seq", "mapping", "range")[k % 3]
                        out.append({"ss": False, "data": {"a": coll(kind, n)}, "nodes": [["tablerow", spec, cols, body]]})
        return out


def rand_arg(rng, n, allow_none=True):
    r = rng.below(100)
    if allow_none and r < 25:
        return None
    if r < 33:
        v = rng.choice([HUGE, -HUGE, 2**63, -(2**63), 2**31])
    else:
        v = rng.range(-3, n + 3)
    return {"f": rng.choice(FORMS), "v": v}


def rand_offset(rng, n):
    r = rng.below(100)
    if r < 35:
        return "continue"
    if r < 40:
        return "strcontinue"
    return rand_arg(rng, n)


class ChainStream(TemplateStream):
    """sequences of loops sharing (or not) their `identifier-iterable` key"""

    name = "chain"

    def cases(self, ctx):
        out = []
        # all pairs over one key (exhaustive part)
        n = 4
        lims = [None, 0, 1, 2, -1, n + 1]
        offs = [None, "continue", 1, -1, n + 2]
        body = [["var", "i"], ["text", "."]]
        for l1, o1, l2, o2 in itertools.product(lims, offs, lims, offs):
            specs = []
            for lim, off in ((l1, o1), (l2, o2)):
                s = {"ident": "i", "it": "a", "reversed": False}
                if lim is not None:
                    s["limit"] = {"f": "lit", "v": lim}
                if off == "continue":
                    s["offset"] = "continue"
                elif off is not None:
                    s["offset"] = {"f": "lit", "v": off}
                specs.append(s)
            third = {"ident": "i", "it": "a", "reversed": False, "offset": "continue"}
            nodes = []
            for s in specs + [third]:
                nodes += [["for", s, body, [["text", "E"]]], ["text", "|"]]
            out.append({"ss": False, "data": {"a": seq_data(n)}, "nodes": nodes})
        # random longer chains with several keys, tablerows and collection kinds
        rng = ctx.rng_for("chain")
        for _ in range(ctx.scale(500, 15000)):
            na, nb = rng.range(0, 8), rng.range(0, 8)
            data = {"a": coll(rng.choice(["seq", "mapping", "range", "seq"]), na), "b": seq_data(nb, 21), "d": ["ns", {"a": seq_data(3, 31)}]}
            nodes = []
            for _ in range(rng.range(2, 5)):
                it = rng.choice(["a", "a", "a", "b", "d.a", ["rangelit", 1, 5]])
                n_it = {"a": na, "b": nb, "d.a": 3}.get(it if isinstance(it, str) else "", 5)
                spec = {"ident": rng.choice(["i", "i", "i", "j"]), "it": it, "reversed": rng.chance(20), "ord": rng.below(6)}
                lim = rand_arg(rng, n_it)
                if lim is not None:
                    spec["limit"] = lim
                off = rand_offset(rng, n_it)
                if off is not None:
                    spec["offset"] = off
                b = [["var", spec["ident"]], ["text", "."]]
                if rng.chance(20):
                    cols = rand_arg(rng, n_it)
                    nodes += [["tablerow", spec, cols, b + [["trl", "row"], ["trl", "col"]]], ["text", "|"]]
                else:
                    if rng.chance(25):
                        b = b + [["if", ["fi0", rng.range(0, 2)], [[rng.choice(["break", "continue"])]]], ["text", "+"]]
                    nodes += [["for", spec, b, [["text", "E"]] if rng.chance(70) else None], ["text", "|"]]
            out.append({"ss": False, "data": data, "nodes": nodes})
        return out


class NestStream(TemplateStream):
    name = "nest"

    def gen_block(self, rng, depth, idents, sizes, in_for, in_row):
        nodes = []
        for _ in range(rng.range(1, 3)):
            r = rng.below(100)
            if depth < 3 and r < 55:
                ident = ["i", "j", "k"][depth]
                it = rng.choice(["a", "b", "c", "a", ["rangelit", 1, 3], "d.a"])
                n_it = sizes.get(it if isinstance(it, str) else "", 3)
                spec = {"ident": ident, "it": it, "reversed": rng.chance(25), "ord": rng.below(6)}
                if rng.chance(50):
                    spec["limit"] = rand_arg(rng, n_it, allow_none=False)
                if rng.chance(50):
                    o = rand_offset(rng, n_it)
                    if o is not None:
                        spec["offset"] = o
                if rng.chance(25):
                    cols = rand_arg(rng, n_it) if rng.chance(75) else None
                    body = self.gen_block(rng, depth + 1, idents + [ident], sizes, in_for, True)
                    nodes.append(["tablerow", spec, cols, [["text", "<"], ["var", ident]] + body + [["text", ">"]]])
                else:
                    body = self.gen_block(rng, depth + 1, idents + [ident], sizes, True, in_row)
                    els = [["text", "E%d" % depth]] if rng.chance(60) else None
                    nodes.append(["for", spec, [["text", "("], ["var", ident]] + body + [["text", ")"]], els])
            elif r < 70 and idents:
                nodes.append(["var", rng.choice(idents)])
            elif r < 85:
                nodes += [["text", "f"], ["forloop", rng.range(0, 3), rng.choice(FIELDS)]]
            elif r < 92:
                nodes += [["text", "t"], ["trl", rng.choice(TFIELDS)]]
            else:
                kind = rng.choice(["fi0", "fi0", "ri0", "always"])
                c = [kind] if kind == "always" else [kind, rng.range(0, 3)]
                nodes.append(["if", c, [["text", "!"], [rng.choice(["break", "continue"])]]])
                nodes.append(["text", "~"])
        return nodes

    def cases(self, ctx):
        rng = ctx.rng_for("nest")
        out = []
        for _ in range(ctx.scale(700, 25000)):
            sizes = {"a": rng.range(0, 5), "b": rng.range(0, 4), "c": rng.range(1, 3), "d.a": 2}
            data = {
                "a": coll(rng.choice(["seq", "mapping", "range"]), sizes["a"]),
                "b": seq_data(sizes["b"], 21),
                "c": ["tuple", [["s", "x%d" % k] for k in range(sizes["c"])]],
                "d": ["ns", {"a": seq_data(2, 31)}],
            }
            nodes = self.gen_block(rng, 0, [], sizes, False, False)
            # interrupts outside every loop would end the whole render: keep them inside loops only
            nodes = strip_top_interrupts(nodes)
            out.append({"ss": False, "data": data, "nodes": nodes})
        return out


def strip_top_interrupts(nodes):
    out = []
    for n in nodes:
        if n[0] in ("break", "continue"):
            continue
        if n[0] == "if":
            out.append(["if", n[1], strip_top_interrupts(n[2])])
        elif n[0] == "for" and n[3] is not None:
            out.append(["for", n[1], n[2], strip_top_interrupts(n[3])])
        else:
            out.append(n)
    return out


class MalformedStream(TemplateStream):
    """arguments that are not integers: the property prescribes no items, only that nothing but a Liquid error escapes"""

    name = "malformed"
    prefix = "malformed|"

    def cases(self, ctx):
        out = []
        bads = [{"f": "bad"}, {"f": "badvar"}, {"f": "nil"}, {"f": "undef"}]
        for n in (0, 3):
            for b in bads:
                for where in ("limit", "offset", "cols"):
                    if where == "cols" and b["f"] == "nil":
                        continue  # raw TypeError from _int_or_zero(None): property C02's finding, not a loop-window question
                    for other in (None, {"f": "lit", "v": 1}):
                        spec = {"ident": "i", "it": "a", "reversed": False}
                        cols = None
                        if where == "cols":
                            cols = b
                            if other:
                                spec["limit"] = other
                        else:
                            spec[where] = b
                            if other:
                                spec["offset" if where == "limit" else "limit"] = other
                        if where == "cols":
                            nodes = [["tablerow", spec, cols, TR_BODY]]
                        else:
                            nodes = [["for", spec, FOR_BODY, [["text", "E"]]], ["tablerow", spec, None, TR_BODY]]
                        out.append({"ss": False, "data": {"a": seq_data(n)}, "nodes": nodes})
        return out

    def nontrivial(self, case, obs):
        return True


# ---- direct calls ------------------------------------------------------------------------------
class SliceStream(Stream):
    """`LoopExpression._slice` called directly on a real expression object and a real RenderContext"""

    name = "slice"
    exhaustive = True
    parallel = False

    def cases(self, ctx):
        L = ctx.scale(6, 8)
        out = []
        for n in range(0, L + 1):
            vals = [None] + int_values(n)
            for lim in vals:
                for off in vals:
                    for rev in (False, True):
                        out.append({"n": n, "limit": lim, "offset": off, "before": None, "reversed": rev})
                for before in (None, -2, 0, 1, n, n + 2):
                    for rev in (False, True):
                        out.append({"n": n, "limit": lim, "offset": "continue", "before": before, "reversed": rev})
        return out

    def impl(self, case):
        from liquid import Environment
        from liquid.builtin.expressions import LoopExpression
        from liquid.context import RenderContext

        env = get_env(False)
        t = env.from_string("{% for i in a %}{% endfor %}")
        expr = t.nodes[0].expression
        expr2 = LoopExpression(expr.token, expr.identifier, expr.iterable, limit=None, offset=None, reversed_=case["reversed"], cols=None)
        ctx = RenderContext(t)
        key = f"{expr2.identifier}-{expr2.iterable}"
        if case["before"] is not None:
            ctx.stopindex(key, case["before"])
        items = list(range(1, case["n"] + 1))
        try:
            it, length = expr2._slice(iter(items), len(items), ctx, limit=case["limit"], offset=case["offset"])
            got = list(it)
        except Exception as e:  # noqa: BLE001
            return {"err": type(e).__name__}
        return {"items": [["i", str(x)] for x in got], "length": str(length), "stop": str(ctx.stopindex(key))}

    def line(self, case):
        b = None if case["before"] is None else str(case["before"])
        lim = None if case["limit"] is None else str(case["limit"])
        off = case["offset"] if case["offset"] in (None, "continue") else str(case["offset"])
        return ["c13slice", b, [["i", str(k)] for k in range(1, case["n"] + 1)], case["n"], lim, off, case["reversed"]]

    def expected(self, case):
        n = case["n"]
        lim = case["limit"]
        o = case["offset"]
        if o == "continue":
            o = case["before"] or 0
        o = o or 0
        idx = [i for i in range(n) if max(o, 0) <= i and (lim is None or i < o + lim)]
        vis = [i + 1 for i in idx]
        if case["reversed"]:
            vis.reverse()
        return vis, min(max(o, 0), n) + len(idx)

    def sig(self, case):
        lim, o = case["limit"], case["offset"]
        if o == "continue":
            o = case["before"] or 0
        o = o or 0
        if lim is not None and lim + o == 0 and lim <= 0:
            return "limit=0" if lim == 0 else "limit<0"
        if lim is not None and lim < 0:
            return "limit<0"
        if lim == 0:
            return "limit=0"
        if case["offset"] == "continue":
            return "offset=continue"
        if o < 0:
            return "offset<0"
        if o > case["n"]:
            return "offset>len"
        return "reversed" if case["reversed"] else "plain"

    def oracle(self, case, obs):
        vis, stop = self.expected(case)
        if "err" in obs:
            return (f"slice|{self.sig(case)}|raises-{obs['err']}", f"_slice raised {obs['err']}; the reference visits {vis}")
        got = [int(x[1]) for x in obs["items"]]
        if got != vis:
            return (f"slice|{self.sig(case)}|items", f"_slice yields {got}, the reference visits {vis}")
        if int(obs["length"]) != len(vis):
            return (f"slice|{self.sig(case)}|length", f"_slice reports length {obs['length']} for {len(vis)} items")
        if int(obs["stop"]) != stop:
            return (f"slice|{self.sig(case)}|continue-position", f"stop index {obs['stop']}, the reference resumes at {stop}")
        return None

    def nontrivial(self, case, obs):
        vis, _ = self.expected(case)
        lim, o = case["limit"], case["offset"]
        return 0 < len(vis) < case["n"] or (isinstance(lim, int) and (lim <= 0 or lim > case["n"])) or (isinstance(o, int) and (o <= 0 or o > case["n"])) or o == "continue"

    def tags(self, case, obs):
        return [f"n{case['n']}", self.sig(case), "err" if "err" in obs else "ok"]


class DropStream(Stream):
    """the `forloop` / `tablerowloop` drops driven directly through their Mapping interface"""

    name = "drop"
    exhaustive = True

    def cases(self, ctx):
        out = []
        for n in range(0, 9):
            out.append({"kind": "for", "n": n})
            for c in list(range(-2, n + 3)) + [HUGE]:
                out.append({"kind": "tablerow", "n": n, "cols": c})
        return out

    def impl(self, case):
        from liquid.builtin.tags.for_tag import ForLoop
        from liquid.builtin.tags.tablerow_tag import TableRow

        n = case["n"]
        items = list(range(1, n + 1))
        rows = []
        if case["kind"] == "for":
            sentinel = object()
            d = ForLoop("i-a", iter(items), n, sentinel)
            keys = FIELDS
            for x in d:
                if d["parentloop"] is not sentinel or d["name"] != "i-a":
                    return {"rows": "parentloop/name changed"}
                rows.append([["i", str(x)]] + [enc(d[k]) for k in keys])
            if set(ForLoop._keys) != set(FIELDS) | {"name", "parentloop"}:
                return {"rows": "keys differ: " + str(sorted(ForLoop._keys))}
        else:
            d = TableRow("i", iter(items), n, case["cols"])
            for x in d:
                rows.append([["i", str(x)]] + [enc(d[k]) for k in TFIELDS])
            if set(TableRow._keys) != set(TFIELDS):
                return {"rows": "keys differ: " + str(sorted(TableRow._keys))}
        return {"rows": rows}

    def line(self, case):
        items = [["i", str(k)] for k in range(1, case["n"] + 1)]
        if case["kind"] == "for":
            return ["c13drop", "for", items, case["n"]]
        return ["c13drop", "tablerow", items, case["n"], str(case["cols"])]

    def canon_model(self, case, mobs):
        return {"rows": mobs}

    def oracle(self, case, obs):
        n = case["n"]
        rows = obs["rows"]
        if isinstance(rows, str):
            return (f"drop|{case['kind']}|interface", rows)
        if len(rows) != n:
            return (f"drop|{case['kind']}|count", f"{len(rows)} rows for {n} items")
        for k, r in enumerate(rows):
            fields = FIELDS if case["kind"] == "for" else TFIELDS
            for j, f in enumerate(fields):
                exp = helper(k, n, f) if case["kind"] == "for" else thelper(k, n, case["cols"], f)
                if r[j + 1] != enc(exp):
                    what = "cols=0" if case.get("cols") == 0 else ("cols<0" if case.get("cols", 1) < 0 else "plain")
                    return (f"drop|{case['kind']}|{what}|{f}", f"position {k} of {n}" + (f" cols {case['cols']}" if "cols" in case else "") + f": {f} = {r[j + 1]}, expected {exp}")
        return None

    def nontrivial(self, case, obs):
        return case["n"] >= 2

    def tags(self, case, obs):
        return [case["kind"], f"n{case['n']}"]


def enc(v):
    return v if isinstance(v, bool) else str(v)


EXOTIC = ["generator", "custom_sequence", "custom_mapping", "deque", "set", "frozenset", "dict_keys", "dict_items", "markup",
          "str_subclass", "list_subclass", "ordered_dict", "chainmap", "drop_with_iter"]


def exotic_model(py, n):
    """the class of `_to_iter` the object falls into (Mapping first, then range, str, Sequence, else nothing)"""
    if py in ("custom_mapping", "ordered_dict", "chainmap", "liquid_forloop"):
        if py == "liquid_forloop":
            return ["mapping_any"]
        return coll("mapping", n)
    if py in ("custom_sequence", "deque", "list_subclass"):
        return seq_data(n)
    if py in ("markup", "str_subclass"):
        return ["str", "abcdefghij"[:n]]
    return ["other", "none"]  # generators, sets, views, drops that only define __iter__: not Mapping/range/str/Sequence


def exotic_value(py, n):
    import collections
    from collections import abc

    items = list(range(1, n + 1))
    pairs = [("k%d" % k, 10 + k) for k in range(n)]
    if py == "generator":
        return (x for x in items)
    if py == "custom_sequence":
        class S(abc.Sequence):
            def __getitem__(self, i):
                return items[i]

            def __len__(self):
                return len(items)

        return S()
    if py == "custom_mapping":
        class M(abc.Mapping):
            def __getitem__(self, k):
                return dict(pairs)[k]

            def __iter__(self):
                return iter(dict(pairs))

            def __len__(self):
                return len(pairs)

        return M()
    if py == "deque":
        return collections.deque(items)
    if py == "set":
        return set(items)
    if py == "frozenset":
        return frozenset(items)
    if py == "dict_keys":
        return dict(pairs).keys()
    if py == "dict_items":
        return dict(pairs).items()
    if py == "markup":
        from markupsafe import Markup

        return Markup("abcdefghij"[:n])
    if py == "str_subclass":
        class T(str):
            pass

        return T("abcdefghij"[:n])
    if py == "list_subclass":
        class L(list):
            pass

        return L(items)
    if py == "ordered_dict":
        return collections.OrderedDict(pairs)
    if py == "chainmap":
        return collections.ChainMap(dict(pairs))
    if py == "drop_with_iter":
        class D:
            def __iter__(self):
                return iter(items)

            def __len__(self):
                return len(items)

        return D()
    if py == "liquid_forloop":
        from liquid.builtin.tags.for_tag import ForLoop

        return ForLoop("x", iter(items), n, None)
    raise ValueError(py)


class IterStream(Stream):
    """`LoopExpression._to_iter` on every class of object it distinguishes"""

    name = "iter"
    exhaustive = True

    def cases(self, ctx):
        out = []
        for ss in (False, True):
            for n in range(0, 5):
                for kind in ("seq", "tuple", "mapping", "range", "str"):
                    out.append({"ss": ss, "obj": coll(kind, n)})
            out.append({"ss": ss, "obj": ["range", 5, 2]})
            out.append({"ss": ss, "obj": ["range", -3, 1]})
            for o in ("int", "none", "float", "bool"):
                out.append({"ss": ss, "obj": ["other", o]})
            # custom drops / lazy iterables: which `_to_iter` branch does each class of object take?
            for py in EXOTIC:
                for n in (0, 2, 3):
                    out.append({"ss": ss, "py": py, "n": n, "obj": exotic_model(py, n)})
        return out

    def impl(self, case):
        env = get_env(case["ss"])
        t = env.from_string("{% for i in a %}{% endfor %}")
        from liquid.context import RenderContext

        value = exotic_value(case["py"], case["n"]) if "py" in case else py_value(case["obj"])
        it, length = t.nodes[0].expression._to_iter(value, RenderContext(t))
        items = []
        for x in it:
            if isinstance(x, tuple):
                items.append(["p", x[0], str(x[1])])
            elif isinstance(x, str):
                items.append(["s", x])
            else:
                items.append(["i", str(x)])
        return {"items": items, "length": length}

    def line(self, case):
        if case["obj"][0] == "mapping_any":
            return None  # a Mapping whose items are not (str, int): only the class dispatch is checked (oracle)
        return ["c13iter", case["ss"], model_obj(case["obj"])]

    def oracle(self, case, obs):
        if case["obj"][0] == "mapping_any":
            if obs["length"] != 9 or not all(x[0] == "p" for x in obs["items"]):
                return ("iter|mapping", f"a Mapping object is not iterated as (key, value) pairs: {obs}")
            return None
        exp = obj_items(case["obj"], case["ss"])
        got = [x[1] if x[0] != "p" else f"{x[1]}={x[2]}" for x in obs["items"]]
        if got != exp or obs["length"] != len(exp):
            return (f"iter|{case['obj'][0]}", f"_to_iter gives {got} (length {obs['length']}), expected {exp}")
        return None

    def nontrivial(self, case, obs):
        return obs["length"] > 0

    def tags(self, case, obs):
        return [case["obj"][0], "ss" if case["ss"] else "noss"]


class TolerantStream(Stream):
    """Lax / warn mode: a loop whose body raises a suppressed error must not disturb the helpers of later loops.
    Metamorphic statement of "parentloop is the enclosing loop": rendering HEAD then TAIL in one template gives
    the output of HEAD followed by the output of TAIL rendered alone (TAIL reads only its own loops' helpers).
    Added after seeded change C13-2 (loop stack not popped when the body raises) was missed."""

    name = "tolerant"
    has_model = False

    FAILS = ["{{ 1 | divided_by: 0 }}", "{{ x | nosuchfilter }}", "{% for z in (1..2) limit: 'q' %}{{ z }}{% endfor %}",
             "{% tablerow z in (1..2) cols: 'q' %}{{ z }}{% endtablerow %}", "{{ 'a' | plus: nosuch.y | slice: 'b' }}", "{% include 'nosuch' %}"]
    TAILS = [
        "{% for b in (1..2) %}[{{ forloop.parentloop.index }}/{{ forloop.index }}/{{ forloop.length }}]{% endfor %}",
        "{% for b in (1..2) %}{% for c in (1..2) %}[{{ forloop.parentloop.parentloop.index }}/{{ forloop.parentloop.index }}/{{ forloop.index }}]{% endfor %}{% endfor %}",
        "{% for b in (1..3) %}{% if forloop.parentloop %}P{% else %}-{% endif %}{{ forloop.rindex }}{% endfor %}",
        "{% tablerow b in (1..3) cols: 2 %}{{ tablerowloop.col }}{{ forloop.index }}{% endtablerow %}",
    ]

    def cases(self, ctx):
        out = []
        for mode in ("lax", "warn"):
            for fail in self.FAILS:
                for wrap in (0, 1, 2):
                    head = "{{ a }}" + fail + "{{ a }}"
                    for d in range(wrap + 1):
                        head = "{% for a in (1.." + str(d + 2) + ") %}" + head + "{% endfor %}"
                    if wrap == 2:
                        head = "{% tablerow t in (1..2) %}" + head + "{% endtablerow %}"
                    for tail in self.TAILS:
                        out.append({"mode": mode, "head": head, "tail": tail})
        return out

    def impl(self, case):
        import warnings

        from liquid import Environment, Mode
        from liquid.exceptions import LiquidError

        env = Environment(tolerance=Mode.LAX if case["mode"] == "lax" else Mode.WARN)

        def r(src):
            try:
                with warnings.catch_warnings():
                    warnings.simplefilter("ignore")
                    return env.from_string(src).render()
            except LiquidError as e:
                return "ERR:" + type(e).__name__
            except Exception as e:  # noqa: BLE001
                return "ERR!" + type(e).__name__

        return {"full": r(case["head"] + "|" + case["tail"]), "head": r(case["head"]), "tail": r(case["tail"])}

    def oracle(self, case, obs):
        if obs["full"] != obs["head"] + "|" + obs["tail"]:
            return ("tolerant|later-loop-helpers-disturbed", f"after a suppressed error inside a loop body the later loop rendered {obs['full']!r}, alone it renders {obs['tail']!r}")
        return None

    def nontrivial(self, case, obs):
        return not obs["head"].startswith("ERR") and "[" in obs["tail"] or "P" in obs["tail"] or "-" in obs["tail"]

    def tags(self, case, obs):
        return [case["mode"], "head-err" if obs["head"].startswith("ERR") else "head-ok"]


# ---- the loop stack under exceptions (Model/LoopStack.lean) --------------------------------------
STACK_FAILS = ["{{ 1 | divided_by: 0 }}", "{% include 'nosuchtemplate' %}", "{% for z in (1..2) limit: 'q' %}{{ z }}{% endfor %}"]


def stack_source(nodes, depth=0, fail_i=0):
    out = []
    for n in nodes:
        t = n[0]
        if t == "text":
            out.append(n[1])
        elif t == "fail":
            out.append(STACK_FAILS[n[1] % len(STACK_FAILS)])
        elif t == "ref":
            path = "forloop" + ".parentloop" * n[1]
            if n[2] == "defined":
                out.append("{% if " + path + " %}P{% else %}-{% endif %}")
            else:
                out.append("{{ " + path + "." + n[2] + " }}")
        elif t == "break":
            out.append("{% break %}")
        elif t == "continue":
            out.append("{% continue %}")
        elif t == "for":
            out.append("{% for v" + str(depth) + " in (1.." + str(n[1]) + ") %}" + stack_source(n[2], depth + 1) + "{% endfor %}")
        elif t == "tablerow":
            out.append("{% tablerow w" + str(depth) + " in (1.." + str(n[1]) + ") %}" + stack_source(n[2], depth + 1) + "{% endtablerow %}")
        else:
            raise ValueError(n)
    return "".join(out)


def stack_model(nodes):
    """a block (list) -> right-nested `seq`"""
    def one(n):
        t = n[0]
        if t == "text":
            return ["text", n[1]]
        if t == "fail":
            return ["fail"]
        if t == "ref":
            return ["ref", n[1], n[2]]
        if t in ("break", "continue"):
            return [t]
        return [t, n[1], stack_model(n[2])]

    if not nodes:
        return ["nop"]
    if len(nodes) == 1:
        return one(nodes[0])
    return ["seq", one(nodes[0]), stack_model(nodes[1:])]


class StackStream(Stream):
    """Loop-stack discipline under exceptions, as a model stream: templates whose loop bodies raise (suppressed in
    lax/warn mode), hit the context depth limit, break or continue, followed by loops that read their parentloop
    chain. Observation: the output buffer, the error class that ended the render (if any) and len(context.loops)
    afterwards. Direct oracle: the loop stack is empty after the render, sync equals async, and in lax/warn mode the
    output is the concatenation of every top-level node rendered alone (nothing leaks from one node to the next)."""

    name = "stack"

    def gen_block(self, rng, depth, in_loop):
        nodes = []
        for _ in range(rng.range(1, 3)):
            r = rng.below(100)
            if r < 40 and depth < 4:
                kind = "tablerow" if rng.chance(25) else "for"
                nodes.append([kind, rng.range(0, 3), self.gen_block(rng, depth + 1, in_loop or kind == "for")])
            elif r < 55:
                nodes.append(["fail", rng.below(3)])
            elif r < 80:
                nodes.append(["ref", rng.range(0, 3), rng.choice(["index", "length", "defined"])])
            elif r < 88 and in_loop:
                nodes.append([rng.choice(["break", "continue"])])
            else:
                nodes.append(["text", rng.choice(["a", "b", "c"])])
        return nodes

    def cases(self, ctx):
        rng = ctx.rng_for("stack")
        out = []
        tails = [["for", 2, [["ref", 1, "defined"], ["ref", 1, "index"], ["ref", 0, "index"]]],
                 ["for", 2, [["for", 2, [["ref", 2, "defined"], ["ref", 1, "index"], ["ref", 0, "index"]]]]],
                 ["tablerow", 2, [["ref", 0, "defined"], ["for", 1, [["ref", 1, "defined"]]]]]]
        # depth-limit ladder: n nested loops under every small limit, then a loop that reads its parentloop
        for mode in ("lax", "warn", "strict"):
            for limit in (4, 5, 6, 7):
                for n in range(0, 5):
                    for inner in ("text", "fail", "tablerow"):
                        body = [["text", "x"]] if inner == "text" else ([["text", "x"], ["fail", 0]] if inner == "fail" else [["tablerow", 2, [["text", "y"]]]])
                        for _ in range(n):
                            body = [["text", "("], ["for", 2, body], ["text", ")"]]
                        for tail in tails:
                            out.append({"mode": mode, "limit": limit, "nodes": body + [["text", "|"], tail]})
        for _ in range(ctx.scale(400, 6000)):
            nodes = []
            for _ in range(rng.range(1, 3)):
                nodes += self.gen_block(rng, 0, False)
            nodes = [n for n in nodes if n[0] not in ("break", "continue")]
            out.append({"mode": rng.choice(["lax", "lax", "warn", "strict"]), "limit": rng.choice([5, 6, 7, 30]), "nodes": nodes + [["text", "|"], rng.choice(tails)]})
        return out

    def _run(self, case, nodes, is_async):
        import asyncio
        import warnings
        from io import StringIO

        from liquid import Environment, Mode
        from liquid.exceptions import ContextDepthError, LiquidError

        key = (case["mode"], case["limit"])
        env = _ENVS.get(("stack",) + key)
        if env is None:
            class Env(Environment):
                context_depth_limit = case["limit"]

            env = Env(tolerance={"lax": Mode.LAX, "warn": Mode.WARN, "strict": Mode.STRICT}[case["mode"]])
            _ENVS[("stack",) + key] = env
        src = stack_source(nodes)
        buf = StringIO()
        err = None
        loops = None
        try:
            t = env.from_string(src)
            c = t.context_class(t, globals={})
            with warnings.catch_warnings():
                warnings.simplefilter("ignore")
                try:
                    if is_async:
                        asyncio.run(t.render_with_context_async(c, buf))
                    else:
                        t.render_with_context(c, buf)
                finally:
                    loops = len(c.loops)
        except ContextDepthError:
            err = "depth"
        except LiquidError:
            err = "liquid"
        except Exception as e:  # noqa: BLE001
            err = "foreign:" + type(e).__name__
        return {"out": buf.getvalue(), "err": err, "loops": loops, "src": src}

    def impl(self, case):
        a = self._run(case, case["nodes"], False)
        b = self._run(case, case["nodes"], True)
        a["async_same"] = (a["out"], a["err"], a["loops"]) == (b["out"], b["err"], b["loops"])
        if case["mode"] != "strict":
            a["alone"] = "".join(self._run(case, [n], False)["out"] for n in case["nodes"])
        return a

    def line(self, case):
        return ["c13stack", "strict" if case["mode"] == "strict" else "lax", max(case["limit"] - 4, 0), [stack_model([n]) for n in case["nodes"]]]

    def compare_view(self, case, obs):
        return {"out": obs["out"], "err": obs["err"], "loops": obs["loops"]}

    def oracle(self, case, obs):
        if "src" not in obs:
            obs = dict(obs, src="<model>", async_same=True)
        if obs["loops"] not in (0, None):
            return ("stack|loop-stack-not-restored", f"{obs['src']!r}: {obs['loops']} ForLoop object(s) left on context.loops after the render")
        if not obs.get("async_same", True):
            return ("stack|async-differs", f"{obs['src']!r}")
        if obs["err"] and str(obs["err"]).startswith("foreign"):
            return ("stack|raises-" + obs["err"][8:], f"{obs['src']!r}")
        if case["mode"] != "strict" and "alone" in obs and obs["out"] != obs["alone"]:
            return ("stack|later-loop-disturbed", f"{obs['src']!r} rendered {obs['out']!r}; its top-level nodes rendered one by one give {obs['alone']!r}")
        return None

    def nontrivial(self, case, obs):
        return "(" in obs["src"] or "divided_by" in obs["src"] or obs["err"] is not None

    def tags(self, case, obs):
        return [case["mode"], f"limit{case['limit']}", "err:" + str(obs["err"])]

    def shrink_candidates(self, case):
        ns = case["nodes"]
        for i in range(len(ns)):
            yield dict(case, nodes=ns[:i] + ns[i + 1 :])
        for i, n in enumerate(ns):
            if n[0] in ("for", "tablerow"):
                yield dict(case, nodes=ns[:i] + n[2] + ns[i + 1 :])
                if n[1] > 1:
                    yield dict(case, nodes=ns[:i] + [[n[0], n[1] - 1, n[2]]] + ns[i + 1 :])


def streams(ctx):
    sts = [SliceStream(), DropStream(), IterStream(), For1Stream(), TablerowStream(), ChainStream(), NestStream(), MalformedStream(), TolerantStream(), StackStream()]
    for st in sts:
        # the quick tier is ~10 s of single-core work; a process pool only pays off in the thorough tier
        st.parallel = ctx.tier == "thorough" and st.name in ("slice", "for1", "tablerow", "chain", "nest")
    return sts
