"""C01 — synchronous and asynchronous APIs behave identically.

Proof side: tools/emitters/c01_async_pairs.py regenerates lean/LiquidVerif/Gen/AsyncPairs.lean from the source
(79 sync/async pairs as trees; one kernel-decided erase-equality obligation per erase-equal pair; pinned residuals);
Props/C01.lean proves erase_sound / pairs_by_depth.  Implementation side: differential sync-vs-async runs — this is
both the validation of the semantic assumption and the direct oracle for the failing-input search.
"""
from __future__ import annotations

import os
import shutil
import tempfile

from ..core import Stream
from ..gen.templates import gen_program
from ..impl.render import make_env, outcome, render_async, render_sync, run_async

ID = "C01"
LEAN_MODULE = "LiquidVerif.Props.C01"
TRANSLATE = True
EXTRA_THEOREM_FILES = [("LiquidVerif.Gen.AsyncPairs", "LiquidVerif.Gen.AsyncPairs")]
RULE = (
    "stream render: generated programs (all built-in tags, extra tags when enabled, ~90 filters, partials, inheritance, "
    "random feature flags, autoescape) rendered with render() and render_async(); stream residual: hand-aimed templates "
    "for every pair whose erasures differ (IfNode elsif, LoopExpression offsets, CallNode, WithNode, BlockNode, "
    "Filter with/without filter_async, get/get_item incl. bracketed roots, children of include/render/extends); "
    "stream loaders: request sequences against dict/choice/file-system loaders and their caching variants, with and "
    "without namespace_key (kwarg and context), names with '/', sync vs async on fresh twins; stream analyze: analyze() vs "
    "analyze_async() and analyze_tags vs analyze_tags_async. Non-trivial: the sync side succeeds with non-empty output or "
    "raises a Liquid error after parsing (both sides exercised the renderer), or the loader sequence has a cache hit."
)
TRUSTED_BASE = [
    "Lean 4.33 kernel; axioms subset of {propext, Classical.choice, Quot.sound}",
    "translator tools/emitters/c01_async_pairs.py (Python ast -> preorder token lists; neutral normalisation: docstrings and annotations dropped on both halves)",
    "semantic assumption of erase_sound/pairs_by_depth: Python is compositional and awaiting a coroutine that runs to completion on a single-task loop is the identity; names defined outside liquid/ that end in _async mean the same as their twins",
    "residual pairs (erasures differ) are pinned by digest to reviewed shapes and covered by differential streams, not by a theorem",
    "differential harness harness/props/c01.py",
]
ASSUMPTIONS = [
    "run_in_executor in the file-system/package loaders really suspends; equality there rests on the loaders stream",
    "third-party drops with __getitem_async__/filter_async are outside the quantifier (built-in tags/filters only)",
]
MANIFEST = {
    "technique": "Lean 4 proof (await-erasure soundness, induction on call depth) over trees regenerated from source by a translator; kernel-decided per-pair obligations; differential sync/async search",
    "text": "erase_sound and pairs_by_depth hold for every compositional await-transparent semantics, every program and every call depth; for the current source each of the erase-equal method pairs carries a kernel-checked obligation regenerated on every run, the remaining pairs are pinned to reviewed shapes. An edit to one half of any pair breaks an obligation or the pin; the check then searches for a template/loader request on which sync and async differ.",
    "note": "Trusted: Lean kernel, the translator, the compositionality/await-transparency assumption (stated as the Interp hypotheses), residual pairs and executor-based loaders covered only by the differential streams.",
}


def _eq(a, b):
    """sync/async outcomes agree: same output, or the same kind of error."""
    if "ok" in a and "ok" in b:
        return a["ok"] == b["ok"]
    if "err" in a and "err" in b:
        return a["err"] == b["err"]
    return False


def _sig(prefix, a, b):
    sa = "ok" if "ok" in a else a["err"]
    sb = "ok" if "ok" in b else b["err"]
    return f"{prefix}|sync={sa}|async={sb}"


class RenderStream(Stream):
    name = "render"
    has_model = False
    parallel = True

    def cases(self, ctx):
        rng = ctx.rng_for("render")
        out = []
        for i in range(ctx.scale(2500, 40000)):
            p = gen_program(rng.fork(str(i)))
            # tolerance modes too: the render loops consult the mode on both paths (seeded change C03-1)
            p["mode"] = rng.choice(["strict", "strict", "lax", "warn"])
            if p["mode"] != "strict" and rng.chance(40):
                from ..gen.templates import malform

                p["source"] = malform(rng, p["source"])
            out.append(p)
        return out

    def impl(self, case):
        m = case.get("mode")
        return {"sync": render_sync(case, mode=m), "async": render_async(case, mode=m)}

    def oracle(self, case, obs):
        if not _eq(obs["sync"], obs["async"]):
            return (_sig("render", obs["sync"], obs["async"]), "render() and render_async() differ")
        return None

    def nontrivial(self, case, obs):
        s = obs["sync"]
        return bool(s.get("ok")) or (s.get("liquid") and s.get("err") != "LiquidSyntaxError")

    def tags(self, case, obs):
        s = obs["sync"]
        t = ["ok" if "ok" in s else "err:" + s["err"], "mode:" + str(case.get("mode") or "strict")]
        if case["extra"]:
            t.append("extra")
        if case["partials"]:
            t.append("partials")
        return t

    def shrink_candidates(self, case):
        import re

        pieces = re.split(r"(\{%.*?%\}|\{\{.*?\}\})", case["source"], flags=re.S)
        for i in range(len(pieces)):
            if pieces[i]:
                d = dict(case)
                d["source"] = "".join(pieces[:i] + pieces[i + 1 :])
                yield d
        for k in list(case["data"]):
            d = dict(case)
            d["data"] = {a: b for a, b in case["data"].items() if a != k}
            yield d
        for k in list(case["partials"]):
            d = dict(case)
            d["partials"] = {a: b for a, b in case["partials"].items() if a != k}
            yield d


RESIDUAL_TEMPLATES = [
    # IfNode: elsif / else branches, blank blocks
    "{% if a %}A{% elsif b %}B{% elsif c %}C{% else %}D{% endif %}",
    "{% if a %}  {% elsif b %} {{ b }} {% else %}\n{% endif %}|",
    "{% unless a %}A{% elsif b %}B{% else %}C{% endunless %}",
    "{% if x.y == 1 %}1{% elsif x.y contains 'q' %}2{% elsif x < 3 %}3{% endif %}",
    # LoopExpression: offsets / limits as literals, variables, continue
    "{% for i in items offset: 1 %}{{ i }}{% endfor %}|{% for i in items offset: continue %}{{ i }}{% endfor %}",
    "{% for i in items limit: n offset: n %}{{ i }}{% endfor %}{% for i in items offset: continue limit: 1 %}{{ i }}{% endfor %}",
    "{% for i in (1..n) reversed %}{{ i }}{% else %}E{% endfor %}",
    "{% for i in user %}{{ i[0] }}={{ i[1] }}{% endfor %}",
    "{% tablerow i in items cols: n limit: 3 offset: 1 %}{{ i }}{% endtablerow %}",
    # paths: bracketed roots, nested variable paths, size/first/last, negative indexes
    "{{ [x] }}",
    "{{ [x].a }}|{{ ['a'] }}|{{ [\"user\"].name }}",
    "{{ items[n] }}{{ items[-1] }}{{ user['name'] }}{{ user[x] }}{{ items.size }}{{ items.first }}{{ s.last }}{{ a.b.c }}",
    "{{ user[user.name] }}{{ items[items[0]] }}",
    # filters on undefined / with args
    "{{ nosuch | default: 'd' }}{{ a | append: b | upcase }}{{ items | map: 'title' | join: ',' }}{{ items | where: 'id', 1 | size }}",
    "{{ items | sort: 'id' | first }}{{ a | plus: n | times: 2.5 }}{{ s | split: ',' | reverse | join: '-' }}",
    # capture / ifchanged / cycle / increment
    "{% capture z %}{% for i in items %}{% ifchanged %}{{ i }}{% endifchanged %}{% cycle 'a', 'b' %}{% endfor %}{% endcapture %}{{ z }}{% increment n %}{% decrement n %}{{ n }}",
    "{% liquid\n assign q = a | default: 5\n for i in (1..3)\n echo i\n if i == 2\n break\n endif\n endfor\n echo q %}",
    "{% case a %}{% when 1, 2 %}x{% when b or c %}y{% else %}z{% endcase %}",
]
RESIDUAL_TERNARY = [
    "{{ a | upcase if b else c | append: '!' }}|{{ 'x' if a else 'y' | upcase || prepend: '>' }}|{{ a if nosuch else b | default: 'd' | size }}",
    "{% assign q = a | append: 'k' if items.size > 1 else b | prepend: 'j' %}{{ q }}{% echo s if true else t | upcase %}",
]
RESIDUAL_EXTRA = [
    "{% with p: a, q: items[0] %}{{ p }}{{ q }}{% with p: 2 %}{{ p }}{% endwith %}{{ p }}{% endwith %}{{ p }}",
    "{% macro m p, q: 'd' %}[{{ p }}|{{ q }}|{{ args | size }}|{{ kwargs | size }}]{% endmacro %}{% call m %}{% call m a %}{% call m 1, 2, 3, z: 4 %}{% call nosuch 1 %}{% call m q: b, p: c %}",
    "{% extends 'base' %}{% block top %}T {{ block.super }} {{ a }}{% endblock %}{% block inner %}I{% endblock %}",
    "{% extends 'base' %}{% block body %}B{% block inner %}I2 {{ block.super }}{% endblock %}{{ block.super }}{% endblock %}",
    "{% extends 'nosuch' %}",
    "{% extends 'cyc1' %}{% block top %}x{% endblock %}",
    "{% translate you: a, count: n %}Hello, {{ you }}!{% plural %}Hello, all {{ count }} {{ you }}!{% endtranslate %}",
    "{{ 'Hello %(you)s' | t: you: a }}{{ 'x' | ngettext: 'xs', n }}{{ a | json }}{{ items | sort_numeric | join: ',' }}{{ items | index: 1 }}",
]
SNIPPET_TEMPLATES = [
    "{% snippet s %}[{{ x | upcase }}{{ y.z }}{% assign w = 1 %}]{% endsnippet %}{% render s, x: 'a' %}{% render s %}{{ w }}",
    "{% snippet s %}{% for i in items %}{{ i | append: q }}{% endfor %}{% endsnippet %}{% for k in (1..2) %}{% render s, q: k %}{% endfor %}{% render s with a as q %}",
    "{% snippet a %}A{{ p }}{% endsnippet %}{% snippet b %}B{% render a, p: 1 %}{% include 'p' %}{% endsnippet %}{% render b %}{% render 'p' %}",
]
RESIDUAL_PARTIALS = {
    "base": "HEAD{% block top %}base-top {{ a }}{% endblock %}MID{% block body %}bb{% block inner %}in{% endblock %}{% endblock %}TAIL",
    "cyc1": "{% extends 'cyc2' %}",
    "cyc2": "{% extends 'cyc1' %}",
    "p": "[{{ p }}|{{ a }}|{{ z }}|{{ forloop.index }}]{% assign leaked = 1 %}",
    "dir/q": "{% for i in (1..2) %}{{ i }}{% include 'p' %}{% endfor %}",
    "rec": "{% render 'rec' %}",
    "brk": "a{% break %}b",
    "cnt": "a{% if x %}{% continue %}{% endif %}b",
}
RESIDUAL_PARTIAL_USES = [
    "{% include 'p' %}{% render 'p' %}{% include 'p' with a %}{% render 'p' with items[0] as p %}{{ leaked }}",
    "{% include 'p' for items %}{% render 'p' for items as p %}{% render 'p', z: a, p: 2 %}{% include 'p', z: 1 %}",
    "{% include 'dir/q' %}{% render 'dir/q' %}{% include t %}{% include nosuch %}{% render 'missing' %}",
    "{% for i in items %}{% include 'p' %}{% render 'p', a: i %}{% endfor %}{% render 'rec' %}",
    "{% for i in (1..3) %}[{{ i }}]{% render 'brk' %}<{{ i }}>{% endfor %}|{% for i in (1..3) %}[{{ i }}]{% include 'brk' %}<{{ i }}>{% endfor %}",
    "{% for i in (1..3) %}[{{ i }}]{% render 'cnt', x: i %}<{{ i }}>{% endfor %}|{% for i in (1..3) %}{% include 'cnt' %}{{ i }}{% endfor %}{% render 'brk' %}{% include 'cnt' %}",
]


class ResidualStream(RenderStream):
    """Templates aimed at every pair whose two halves are *not* erase-equal, across data shapes and flags."""

    name = "residual"
    parallel = False

    def cases(self, ctx):
        from ..gen.templates import gen_data, gen_flags

        rng = ctx.rng_for("residual")
        out = []
        reps = ctx.scale(6, 40)
        for extra, pool in ((False, RESIDUAL_TEMPLATES + RESIDUAL_PARTIAL_USES), (True, RESIDUAL_TEMPLATES + RESIDUAL_PARTIAL_USES + RESIDUAL_EXTRA)):
            for src in pool:
                for _ in range(reps):
                    data = gen_data(rng)
                    if rng.chance(50):
                        data["x"] = rng.choice([42, "a", "user", None, 1.5, ["a"]])
                    if rng.chance(40):
                        data["t"] = rng.choice(["p", "dir/q", "nosuch", 5])
                    out.append({"source": src, "partials": RESIDUAL_PARTIALS, "data": data, "flags": gen_flags(rng), "extra": extra, "autoescape": rng.chance(20), "mode": rng.choice(["strict", "strict", "lax", "warn"])})
        for src in RESIDUAL_TERNARY + SNIPPET_TEMPLATES:
            for _ in range(reps):
                fl = gen_flags(rng)
                fl["ternary_expressions"] = True
                out.append({"source": src, "partials": RESIDUAL_PARTIALS, "data": gen_data(rng), "flags": fl, "extra": True, "autoescape": False, "snippet": True, "mode": "strict"})
        return out


class LoaderStream(Stream):
    name = "loaders"
    has_model = False

    KINDS = ["dict", "cdict", "choice", "cchoice", "fs", "cfs", "fs_ext"]

    def cases(self, ctx):
        rng = ctx.rng_for("loaders")
        out = []
        names = ["foo", "dir/foo", "dir/sub/bar", "bar.html", "ns1/foo", "ns2/foo", "baz"]
        for i in range(ctx.scale(250, 3000)):
            kind = rng.choice(self.KINDS)
            present = rng.sample(names, rng.range(2, 6))
            templates = {n: f"[{n}:{rng.below(100)}]{{{{ g }}}}{{% assign k = '{n}' %}}{{{{ k }}}}" for n in present}
            ns_key = rng.choice(["", "", "tag"]) if kind.startswith("c") else ""
            reqs = []
            for _ in range(rng.range(1, 6)):
                name = rng.choice(names + ["missing", "../x", "dir/../foo"]) if rng.chance(80) else rng.choice(present)
                req = {"name": name}
                if ns_key and rng.chance(60):
                    req["kwarg_ns"] = rng.choice(["ns1", "ns2"])
                if ns_key and rng.chance(40):
                    req["ctx_ns"] = rng.choice(["ns1", "ns2"])
                if rng.chance(40):
                    req["globals"] = {"g": rng.choice(["G1", "G2"])}
                reqs.append(req)
            out.append({"kind": kind, "templates": templates, "ns_key": ns_key, "requests": reqs, "capacity": rng.choice([1, 2, 300])})
        return out

    def _loader(self, case, root):
        import liquid as L

        t = case["templates"]
        k = case["kind"]
        if k == "dict":
            return L.DictLoader(dict(t))
        if k == "cdict":
            return L.CachingDictLoader(dict(t), namespace_key=case["ns_key"], capacity=case["capacity"])
        if k in ("choice", "cchoice"):
            items = sorted(t.items())
            a, b = dict(items[::2]), dict(items[1::2])
            if k == "choice":
                return L.ChoiceLoader([L.DictLoader(a), L.DictLoader(b)])
            return L.CachingChoiceLoader([L.DictLoader(a), L.DictLoader(b)], namespace_key=case["ns_key"], capacity=case["capacity"])
        ext = ".liquid" if k == "fs_ext" else None
        for n, src in t.items():
            p = os.path.join(root, n + (ext if ext and "." not in os.path.basename(n) else ""))
            os.makedirs(os.path.dirname(p), exist_ok=True)
            with open(p, "w") as f:
                f.write(src)
        if k == "cfs":
            return L.CachingFileSystemLoader(root, namespace_key=case["ns_key"], capacity=case["capacity"])
        return L.FileSystemLoader(root, ext=ext)

    def _run(self, case, use_async):
        from liquid import Environment
        from liquid.context import RenderContext

        root = tempfile.mkdtemp(prefix="c01fs")
        try:
            env = Environment(loader=self._loader(case, root))
            res = []
            for rq in case["requests"]:
                kw = {}
                if "kwarg_ns" in rq:
                    kw[case["ns_key"]] = rq["kwarg_ns"]
                if "globals" in rq:
                    kw["globals"] = rq["globals"]

                def go(rq=rq, kw=kw):
                    ctx = None
                    if "ctx_ns" in rq:
                        ctx = RenderContext(env.from_string(""), globals={case["ns_key"]: rq["ctx_ns"]})
                    if use_async:
                        t = run_async(lambda: env.get_template_async(rq["name"], context=ctx, **kw))
                        out = run_async(lambda: t.render_async())
                    else:
                        t = env.get_template(rq["name"], context=ctx, **kw)
                        out = t.render()
                    return {"name": t.name, "source": str(t), "render": out, "path": os.path.relpath(str(t.path), root) if str(t.path).startswith(root) else str(t.path)}

                res.append(outcome(go))
            return res
        finally:
            shutil.rmtree(root, ignore_errors=True)

    def impl(self, case):
        return {"sync": self._run(case, False), "async": self._run(case, True)}

    def oracle(self, case, obs):
        for i, (a, b) in enumerate(zip(obs["sync"], obs["async"])):
            if "ok" in a and "ok" in b:
                for fld in ("name", "source", "render"):
                    if a["ok"][fld] != b["ok"][fld]:
                        cached = "caching" if case["kind"].startswith("c") else "plain"
                        ns = "ns" if case["ns_key"] else "nons"
                        return (f"loaders|{cached}|{ns}|{fld}-differs", f"request {i} {case['requests'][i]}: sync {fld}={a['ok'][fld]!r} async {fld}={b['ok'][fld]!r}")
            elif not _eq(a, b):
                return (_sig("loaders|" + ("caching" if case["kind"].startswith("c") else "plain"), a, b), f"request {i} {case['requests'][i]} differs")
        return None

    def nontrivial(self, case, obs):
        return any("ok" in a for a in obs["sync"])

    def tags(self, case, obs):
        return [case["kind"], "ns" if case["ns_key"] else "nons", "hit" if any("ok" in a for a in obs["sync"]) else "allmiss"]


def _analysis_view(a):
    def vars_(d):
        return {k: sorted((str(v), v.span.template_name, v.span.index) for v in vs) for k, vs in d.items()}

    def spans(d):
        return {k: sorted((s.template_name, s.index) for s in vs) for k, vs in d.items()}

    return {"variables": vars_(a.variables), "globals": vars_(a.globals), "locals": vars_(a.locals), "filters": spans(a.filters), "tags": spans(a.tags)}


class AnalyzeStream(Stream):
    name = "analyze"
    has_model = False
    parallel = True

    def cases(self, ctx):
        rng = ctx.rng_for("analyze")
        out = [gen_program(rng.fork(str(i)), n_partials=rng.choice([0, 1, 2, 3])) for i in range(ctx.scale(600, 8000))]
        for src in RESIDUAL_PARTIAL_USES + RESIDUAL_EXTRA:
            out.append({"source": src, "partials": RESIDUAL_PARTIALS, "data": {}, "flags": {}, "extra": True, "autoescape": False})
        # inline snippets (SnippetTag) and analysis without partials (seeded change C19-3: children_async returned
        # nothing for include_partials=False, so snippet bodies were skipped on the async path only)
        for src in SNIPPET_TEMPLATES + RESIDUAL_PARTIAL_USES:
            for ip in (True, False):
                out.append({"source": src, "partials": RESIDUAL_PARTIALS, "data": {}, "flags": {}, "extra": True, "autoescape": False, "snippet": True, "include_partials": ip})
        return out

    def impl(self, case):
        def sync():
            env = make_env(case)
            t = env.from_string(case["source"])
            names = sorted(case["partials"])[:2]
            return {"analysis": _analysis_view(t.analyze(include_partials=case.get("include_partials", True))), "tags": [outcome(lambda n=n: _tagview(env.analyze_tags(n))) for n in names + ["nosuch"]]}

        def asyn():
            env = make_env(case)
            t = env.from_string(case["source"])
            names = sorted(case["partials"])[:2]
            return {"analysis": _analysis_view(run_async(lambda: t.analyze_async(include_partials=case.get("include_partials", True)))), "tags": [outcome(lambda n=n: _tagview(run_async(lambda: env.analyze_tags_async(n)))) for n in names + ["nosuch"]]}

        return {"sync": outcome(sync), "async": outcome(asyn)}

    def oracle(self, case, obs):
        a, b = obs["sync"], obs["async"]
        if "ok" in a and "ok" in b:
            if a["ok"] != b["ok"]:
                keys = [k for k in a["ok"]["analysis"] if a["ok"]["analysis"][k] != b["ok"]["analysis"][k]]
                return (f"analyze|{'+'.join(keys) or 'tags'}-differ", "analyze() and analyze_async() report different results")
            return None
        if not _eq(a, b):
            return (_sig("analyze", a, b), "analyze() and analyze_async() differ")
        return None

    def nontrivial(self, case, obs):
        return "ok" in obs["sync"] and bool(obs["sync"]["ok"]["analysis"]["variables"])

    def tags(self, case, obs):
        return ["ok" if "ok" in obs["sync"] else "err:" + obs["sync"]["err"]]

    shrink_candidates = RenderStream.shrink_candidates


def _tagview(ta):
    return {k: {str(n): sorted((s.template_name, s.index) for s in v) for n, v in getattr(ta, k).items()} for k in ("all_tags", "tags", "unclosed_tags", "unexpected_tags", "unknown_tags")}


def extra(ctx):
    """Attach the translator's inventory to the evidence."""
    import json

    from ..lean import LEAN_DIR

    p = LEAN_DIR / "LiquidVerif" / "Gen" / "async_pairs.json"
    if p.exists():
        d = json.loads(p.read_text())
        ctx.extra_coverage["async_pairs"] = {
            "pairs": len(d["pairs"]),
            "erase_equal": sum(1 for x in d["pairs"] if x["erase_equal"]),
            "residual": [r[0] for r in d["residuals"]],
            "largest_pair_nodes": max((x["async_nodes"] for x in d["pairs"]), default=0),
            "mro_mismatches": d["mro_mismatches"],
        }


def streams(ctx):
    return [ResidualStream(), RenderStream(), LoaderStream(), AnalyzeStream()]
