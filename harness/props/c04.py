"""C04 — serialising a template back to source preserves its meaning (str(BoundTemplate) and every __str__ under it)."""
from __future__ import annotations

import itertools

from ..core import Stream

ID = "C04"
LEAN_MODULE = "LiquidVerif.Props.C04"
TRANSLATE = False
RULE = (
    "stream tmpl: generated templates over the standard tags (if/elsif/else, unless, case/when, for/else with "
    "limit/offset/reversed, tablerow, capture, assign, echo, cycle with/without group, increment, decrement, ifchanged, "
    "include, render, liquid, comments, raw, break/continue), nested logical expressions, string literals with quotes, "
    "backslashes and newlines, bracketed/nested/quoted/keyword paths, ranges, filters with positional and keyword "
    "arguments, ternaries; each is parsed, serialised, re-parsed, re-serialised and both templates are rendered over "
    "generated data sets; the real str() is compared with the Lean model printer on the tree extracted from the real "
    "parse. stream bool: every logical expression with <= k operators over and/or/not/==/</contains and 2-3 variables "
    "(exhaustive), all valuations over {true,false,1,'x'} (2 variables) or {true,false,1} (3 variables). stream strlit: every string over an 8-character alphabet "
    "(quotes, backslash, newline, braces) up to length 4-5 (exhaustive). stream path: every path of <= 3 segments over "
    "word/keyword/quoted/backslash/quote/index/nested segments (exhaustive). stream parse: random token lists (mostly "
    "malformed) through the real logical-expression parser and the model parser. stream known: the witnesses of the known "
    "findings. stream xparse (deepening): generated loop and filtered expressions plus token-level mutations through the real LoopExpression.parse / FilteredExpression.parse and the token-level models (tree or reject), and the real lexer's tokens of the accepted expression's str() against the model token printer. Non-trivial: the serialised text differs from the generated source, or the template holds a compound "
    "logical expression, a quoted/bracketed path segment, a string literal with a special character, or a block tag."
)
TRUSTED_BASE = [
    "Lean 4.33 kernel; axioms subset of {propext, Classical.choice, Quot.sound}",
    "hand-written models LiquidVerif/Model/BoolParse.lean (parse_boolean_primitive/parse_infix_expression/"
    "parse_grouped_expression with the PRECEDENCES table) and LiquidVerif/Model/Printer.lean (every __str__ used by "
    "str(template), the string rule of the expression lexer, Path.parse at token level)",
    "correspondence harness harness/props/c04.py + Driver/C04.lean: the tree handed to the model printer is extracted "
    "from the real parse (field by field), the real str() must equal the model's text; real re-parse must equal the "
    "model parser's reading for logical expressions",
    "the template lexer and the expression lexer regular expressions (re module) — not modelled beyond the string rule; "
    "covered by the direct oracle, which always goes through the real lexer and parser",
    "Python float repr/Decimal formatting (float literals travel as the text the implementation printed)",
]
MANIFEST = {
    "technique": "Lean 4 proof (structural induction over expression trees with a precedence-indexed invariant of the "
    "Pratt parser; well-founded parser model, no fuel) + differential correspondence of printer and parser + direct "
    "round-trip oracle through the real lexer/parser/renderer",
    "text": "parse_print_bool / parse_print_bool_exact / parse_print_bool_all / print_idempotent hold for every logical "
    "expression of any size over and/or/not/comparisons/contains/groups; unquote_quote for every string value without "
    "both quote kinds; prim_print_parse (all primitives incl. nested ranges and paths, on the lexer's token kinds), loop_expr_print_parse (every option combination), lex_string_literal (from text, via the C20 lexer model); path_print_parse for every path incl. bracketed roots, nested paths, quoted and keyword "
    "segments; counter-example theorems keep the defects of the printer of the unchanged tree and of the nil/empty/blank literals (known findings) visible. Tag-level "
    "printers are modelled literally and tied by the print stream; their round trip is checked by the direct oracle.",
    "note": "Trusted: Lean kernel (axioms propext/Classical.choice/Quot.sound only), the hand models, the harness, the "
    "regular expressions of the two lexers. Node-level (tag body) round trip is not a theorem: it is checked "
    "dynamically on every generated template.",
}
ASSUMPTIONS = [
    "primitive operands are opaque atoms in the logical-expression theorems; their own printers have their own theorems "
    "(unquote_quote, path_print_parse) or are compared textually (integers, floats, ranges)",
    "templates come from the parser: a string value never contains both kinds of quote, identifiers are words",
    "environment: default delimiters, logical_not_operator, logical_parentheses and ternary_expressions enabled, "
    "mode strict, shorthand_indexes off",
]

PARTIALS = {"p": "[{{ x }}|{{ y }}]", "q": "<{{ q }}{{ forloop.index }}>"}

_ENV = None


def env():
    global _ENV
    if _ENV is None:
        from liquid import DictLoader, Environment

        class Env(Environment):
            logical_not_operator = True
            logical_parentheses = True
            ternary_expressions = True

        _ENV = Env(loader=DictLoader(PARTIALS))
    return _ENV


# ---------------------------------------------------------------------------------------------
# extraction of the real parse tree (field by field) into the JSON the Lean driver understands
# ---------------------------------------------------------------------------------------------
_CMP = {
    "EqExpression": "==",
    "NeExpression": "!=",
    "LtExpression": "<",
    "GtExpression": ">",
    "LeExpression": "<=",
    "GeExpression": ">=",
    "ContainsExpression": "contains",
}


def segs_json(path):
    out = []
    for s in path.path:
        if isinstance(s, str):
            out.append(["n", str(s)])
        elif isinstance(s, int):
            out.append(["i", str(s)])
        else:
            out.append(["p", segs_json(s)])
    return out


def prim_json(e):
    n = type(e).__name__
    if n == "Nil":
        return ["nil"]
    if n == "TrueLiteral":
        return ["true"]
    if n == "FalseLiteral":
        return ["false"]
    if n == "Empty":
        return ["empty"]
    if n == "Blank":
        return ["blank"]
    if n == "IntegerLiteral":
        return ["int", str(e.value)]
    if n == "FloatLiteral":
        return ["float", str(e)]
    if n == "StringLiteral":
        return ["str", e.value]
    if n == "RangeLiteral":
        return ["range", prim_json(e.start), prim_json(e.stop)]
    if n == "Path":
        return ["path", segs_json(e)]
    if isinstance(e, str):  # Identifier
        return ["word", str(e)]
    raise ValueError("unknown primitive " + n)


def bool_json(e):
    n = type(e).__name__
    if n == "BooleanExpression":
        return bool_json(e.expression)
    if n == "LogicalAndExpression":
        return ["and", bool_json(e.left), bool_json(e.right)]
    if n == "LogicalOrExpression":
        return ["or", bool_json(e.left), bool_json(e.right)]
    if n == "LogicalNotExpression":
        return ["not", bool_json(e.right)]
    if n in _CMP:
        return ["cmp", _CMP[n], bool_json(e.left), bool_json(e.right)]
    return prim_json(e)


def arg_json(a):
    if type(a).__name__ == "KeywordArgument":
        return [str(a.name), prim_json(a.value)]
    return [None, prim_json(a.value)]


def filters_json(fs):
    return [[f.name, [arg_json(a) for a in f.args]] for f in (fs or [])]


def expr_json(e):
    n = type(e).__name__
    if n == "FilteredExpression":
        return ["filtered", prim_json(e.left), filters_json(e.filters)]
    if n == "TernaryFilteredExpression":
        return [
            "ternary",
            prim_json(e.left.left),
            filters_json(e.left.filters),
            bool_json(e.condition),
            prim_json(e.alternative) if e.alternative is not None else None,
            filters_json(e.filters),
            filters_json(e.tail_filters),
        ]
    return ["prim", prim_json(e)]


def loop_json(l):
    return [
        str(l.identifier),
        prim_json(l.iterable),
        prim_json(l.limit) if l.limit is not None else None,
        prim_json(l.offset) if l.offset is not None else None,
        prim_json(l.cols) if l.cols is not None else None,
        bool(l.reversed),
    ]


def block_json(b):
    return [node_json(n) for n in b.nodes]


def node_json(n):
    k = type(n).__name__
    if k == "ContentNode":
        return ["content", n.text]
    if k == "OutputNode":
        return ["output", expr_json(n.expression)]
    if k == "EchoNode":
        return ["echo", expr_json(n.expression)]
    if k == "AssignNode":
        return ["assign", str(n.name), expr_json(n.expression)]
    if k == "CaptureNode":
        return ["capture", str(n.name), block_json(n.block)]
    if k in ("IfNode", "UnlessNode"):
        return [
            "if",
            k == "UnlessNode",
            bool_json(n.condition),
            block_json(n.consequence),
            [["elsif", bool_json(a.expression), block_json(a.block)] for a in n.alternatives],
            block_json(n.default) if n.default is not None else None,
        ]
    if k == "CaseNode":
        blocks = []
        for b in n.blocks:
            if type(b).__name__ == "BlockNode":
                blocks.append(["else", block_json(b)])
            else:
                blocks.append(["when", [prim_json(x) for x in b.expression.expressions], block_json(b.block)])
        return ["case", prim_json(n.expression), blocks]
    if k == "ForNode":
        return ["for", loop_json(n.expression), block_json(n.block), block_json(n.default) if n.default is not None else None]
    if k == "TablerowNode":
        return ["tablerow", loop_json(n.expression), block_json(n.block)]
    if k == "BreakNode":
        return ["break"]
    if k == "ContinueNode":
        return ["continue"]
    if k == "CycleNode":
        return ["cycle", prim_json(n.group) if n.group is not None else None, [prim_json(a) for a in n.args]]
    if k == "IncrementNode":
        return ["increment", str(n.name)]
    if k == "DecrementNode":
        return ["decrement", str(n.name)]
    if k == "IfChangedNode":
        return ["ifchanged", block_json(n.block)]
    if k == "IncludeNode":
        return [
            "include",
            prim_json(n.name),
            prim_json(n.var) if n.var is not None else None,
            str(n.alias) if n.alias is not None else None,
            [arg_json(a) for a in n.args],
        ]
    if k == "RenderNode":
        return [
            "render",
            prim_json(n.name),
            prim_json(n.var) if n.var is not None else None,
            bool(n.loop),
            str(n.alias) if n.alias is not None else None,
            [arg_json(a) for a in n.args],
        ]
    if k == "LiquidNode":
        return ["liquid", n.liquid_token.value if n.liquid_token else None]
    if k == "CommentNode":
        return ["comment", str(n.text)]
    if k == "InlineCommentNode":
        return ["inline_comment", str(n.text)]
    if k == "DocNode":
        return ["doc", str(n.text)]
    raise ValueError("unknown node " + k)


def template_json(t):
    return [node_json(n) for n in t.nodes]


# ---------------------------------------------------------------------------------------------
# the property, stated directly on the implementation
# ---------------------------------------------------------------------------------------------
_ADDR = None


def render_obs(t, data):
    global _ADDR
    if _ADDR is None:
        import re

        _ADDR = re.compile(r" at 0x[0-9a-f]+", re.I)
    try:
        return ["ok", _ADDR.sub("", t.render(**data))]  # default object reprs carry a memory address
    except Exception as e:  # canonical: error class only
        return ["err", type(e).__name__]


def roundtrip(src, datas):
    """parse -> str -> parse -> str; render both over every data set. Canonical observation."""
    try:
        t = env().from_string(src)
    except Exception as e:
        return {"valid": False, "error": type(e).__name__}
    s1 = str(t)
    try:
        ast = template_json(t)
    except Exception as e:
        return {"valid": True, "str": s1, "ast": None, "extract_error": f"{type(e).__name__}: {e}"}
    obs = {"valid": True, "str": s1, "ast": ast}
    try:
        t2 = env().from_string(s1)
    except Exception as e:
        obs["reparse"] = type(e).__name__
        return obs
    obs["reparse"] = "ok"
    s2 = str(t2)
    obs["str2_same"] = s2 == s1
    if s2 != s1:
        obs["str2"] = s2
    try:
        obs["ast2_same"] = template_json(t2) == ast
    except Exception:
        obs["ast2_same"] = False
    diffs = []
    for i, d in enumerate(datas):
        r1, r2 = render_obs(t, d), render_obs(t2, d)
        if r1 != r2:
            diffs.append([i, r1, r2])
    obs["render_diffs"] = diffs[:3]
    return obs


def ast_has(ast, pred):
    if isinstance(ast, list):
        if pred(ast):
            return True
        return any(ast_has(x, pred) for x in ast)
    return False


def feature_nil(ast):
    return ast_has(ast, lambda x: x == ["nil"])


def feature_empty_literal(ast):
    return ast_has(ast, lambda x: x == ["empty"])


def feature_blank_literal(ast):
    return ast_has(ast, lambda x: x == ["blank"])


def feature_raw_markup(ast):
    return ast_has(ast, lambda x: len(x) == 2 and x[0] == "content" and isinstance(x[1], str) and ("{{" in x[1] or "{%" in x[1]))


def feature_brace_text(ast):
    return ast_has(ast, lambda x: len(x) == 2 and x[0] == "content" and isinstance(x[1], str) and x[1].endswith("{"))


def node_kinds(ast, acc=None):
    acc = acc if acc is not None else []
    if isinstance(ast, list):
        if ast and isinstance(ast[0], str) and ast[0] in _NODE_KINDS:
            acc.append(ast[0])
        for x in ast:
            node_kinds(x, acc)
    return acc


_NODE_KINDS = {
    "content", "output", "echo", "assign", "capture", "if", "elsif", "case", "when", "else", "for", "tablerow", "break",
    "continue", "cycle", "increment", "decrement", "ifchanged", "include", "render", "liquid", "comment",
    "inline_comment", "doc",
}


def culprit(src, obs, datas):
    """Which construct fails: a listed feature of the tree, else the first top-level node whose own text fails."""
    ast = obs.get("ast")
    if ast is None:
        return "extract"
    if feature_nil(ast):
        return "nil-literal"
    if feature_empty_literal(ast):
        return "empty-literal"
    if feature_blank_literal(ast):
        return "blank-literal"
    if feature_raw_markup(ast):
        return "raw-markup"
    if feature_brace_text(ast):
        return "text-brace-before-markup"
    try:
        t = env().from_string(src)
        for n in t.nodes:
            o = roundtrip(str(n), datas)
            if (not o["valid"]) or o.get("reparse") != "ok" or not o.get("str2_same") or o.get("render_diffs"):
                return type(n).__name__
    except Exception:
        pass
    return "template"


def oracle_roundtrip(src, obs, datas, what):
    if not obs["valid"]:
        return None  # no template, nothing to serialise
    if obs.get("ast") is None:
        return (f"{what}|extract", obs.get("extract_error", ""))
    if obs["reparse"] != "ok":
        return (f"{what}|reparse-{obs['reparse']}|{culprit(src, obs, datas)}", f"str() = {obs['str']!r} does not parse")
    if obs["render_diffs"]:
        return (f"{what}|render-differs|{culprit(src, obs, datas)}", f"str() = {obs['str']!r}; first differing render {obs['render_diffs'][0]}")
    if not obs["str2_same"]:
        return (f"{what}|str-not-stable|{culprit(src, obs, datas)}", f"{obs['str']!r} re-serialises as {obs.get('str2')!r}")
    return None


# ---------------------------------------------------------------------------------------------
# generators (source text; the tree is whatever the real parser makes of it)
# ---------------------------------------------------------------------------------------------
NAMES = ["a", "b", "c", "x", "s", "n", "h", "items", "user", "k"]
STR_CHARS = ["a", "b", " ", "z", "\\", "\n", "'", '"', "{", "%", "-", ".", "é"]
TEXT = ["hello", " ", "\n", "<b>", "x", "-", "1,2", "}", "%", "ok ", "\t"]
FILTERS = [
    "upcase", "downcase", "size", "first", "last", "append: 'x'", "append: s", "prepend: \"it's\"", "default: 'd'",
    "default: 'e', allow_false: true", "default: b, allow_false: false", "join: ', '", "plus: 1", "minus: n", "times: 2",
    "slice: 0, 2", "replace: 'a', 'b'", "split: ','", "sort", "reverse", "strip", "json", "truncate: 5, '…'", "at_least: 0",
]


def data_sets(rng, k=3):
    vals = [True, False, None, 0, 1, 2, -3, 1.5, "", "x", "a,b", "it's", "back\\slash", [1, 2, 3], [], ["a", "b", "a"], {"a": 1, "b": {"c": 2}}]
    out = []
    for _ in range(k):
        d = {}
        for nm in NAMES:
            r = rng.range(0, 10)
            if nm == "items":
                d[nm] = rng.choice([[1, 2, 3, 4, 5], ["a", "b", "a", "c"], [], [{"t": 1}, {"t": 1}, {"t": 2}]])
            elif nm == "user":
                d[nm] = {"name": rng.choice(["Ann", "bob", ""]), "tags": ["p", "q"], "and": 7, "x y": {"z": rng.range(0, 3)}, "it's": 1, "a\\b": "bs", "0": "zero", "k": "name"}
            elif nm == "h":
                d[nm] = {"a": rng.range(0, 3), "b": [10, 20, 30], "k": "a", "x y": "sp", "not": "kw"}
            elif nm == "k":
                d[nm] = rng.choice(["name", "tags", "a", 0, 1])
            elif nm == "n":
                d[nm] = rng.choice([0, 1, 2, 3, 5])
            elif r < 8:
                d[nm] = rng.choice(vals)
        out.append(d)
    return out


class Gen:
    def __init__(self, rng, allow_known=False):
        self.r = rng
        self.depth = 0
        self.in_loop = 0
        self.feat = set()

    def chance(self, pct):
        return self.r.range(0, 99) < pct

    # ---- primitives -------------------------------------------------------------------------
    def string_lit(self):
        n = self.r.choice([0, 1, 1, 2, 3, 5])
        chars = [self.r.choice(STR_CHARS if self.chance(50) else ["a", "b", "c", " "]) for _ in range(n)]
        v = "".join(chars)
        if "'" in v and '"' in v:
            v = v.replace('"', "")
        if any(c in v for c in "\\\n'\"{%"):
            self.feat.add("special-string")
        q = '"' if "'" in v else ("'" if '"' in v else self.r.choice(["'", '"']))
        return q + v + q

    def seg_key(self):
        return self.r.choice(["name", "tags", "a", "b", "c", "t", "z", "and", "not", "x y", "it's", "a\\b", "0", "size", "first", "k", "empty", "with-dash", "_u", "ok?", "1st", "12", "×", "b-"])

    def path(self, depth=0):
        root_kind = self.r.range(0, 9)
        if self.in_loop and depth == 0 and self.chance(45):
            # the loop variable / loop drop, so that order, limit, offset and reversed are visible in the output
            return self.r.choice(["i", "item", "j", "i", "item", "forloop.index", "forloop.last", "tablerowloop.col", "forloop.length"])
        if root_kind < 7:
            s = self.r.choice(NAMES)
        elif root_kind == 7:
            self.feat.add("bracket-root")
            s = "[" + self.quoted_key(self.r.choice(NAMES + ["x y"])) + "]"
        else:
            self.feat.add("bracket-root")
            s = "[" + (self.path(depth + 1) if depth < 2 else "k") + "]"
        for _ in range(self.r.choice([0, 0, 1, 1, 2, 3])):
            k = self.r.range(0, 9)
            if k < 4:
                key = self.seg_key()
                import re

                if re.fullmatch(r"[a-zA-Z_][\w\-]*", key) and key not in ("and", "not", "empty", "with", "or", "contains"):
                    s += "." + key
                else:
                    self.feat.add("quoted-seg")
                    s += "[" + self.quoted_key(key) + "]"
            elif k < 6:
                self.feat.add("quoted-seg")
                s += "[" + self.quoted_key(self.seg_key()) + "]"
            elif k < 8:
                s += "[" + str(self.r.choice([0, 1, 2, -1])) + "]"
            else:
                self.feat.add("nested-path")
                s += "[" + (self.path(depth + 1) if depth < 2 else "k") + "]"
        return s

    def quoted_key(self, key):
        q = '"' if "'" in key else self.r.choice(["'", '"'])
        return q + key + q

    def number(self):
        return self.r.choice(["0", "1", "2", "-3", "42", "1.5", "0.00001", "100000000000000000000.0", "-0.5", "007"])

    def prim(self, allow_range=True, allow_eb=False):
        # `empty`/`blank` only where they are compared, never where they are written out: their default object repr
        # carries a memory address, which filters (reverse, slice, truncate …) make impossible to canonicalise
        k = self.r.range(0, 19)
        if k < 9:
            return self.path()
        if k < 12:
            return self.string_lit()
        if k < 15:
            return self.number()
        if k == 15:
            return self.r.choice(["true", "false"])
        if k == 16 and allow_eb and False:  # `empty`/`blank` literals are a known finding: confined to stream `known`
            return self.r.choice(["empty", "blank"])
        if k == 17 and allow_range:
            self.feat.add("range")
            return "(" + self.r.choice(["1", "n", "0", "a.b"]) + ".." + self.r.choice(["3", "n", "5", "h.a"]) + ")"
        return self.path()

    # ---- logical expressions ------------------------------------------------------------------
    def boolean(self, depth=0):
        k = self.r.range(0, 99)
        if depth >= 3 or k < 30:
            return self.prim(allow_range=False, allow_eb=True)
        self.feat.add("logical")
        if k < 48:
            return self.boolean(depth + 1) + " and " + self.boolean(depth + 1)
        if k < 64:
            return self.boolean(depth + 1) + " or " + self.boolean(depth + 1)
        if k < 74:
            return "not " + self.boolean(depth + 1)
        if k < 88:
            self.feat.add("group")
            return "(" + self.boolean(depth + 1) + ")"
        op = self.r.choice(["==", "!=", "<", ">", "<=", ">=", "contains", "<>"])
        return self.boolean(depth + 2) + " " + op + " " + self.boolean(depth + 2)

    # ---- filtered / ternary -------------------------------------------------------------------
    def filters(self, lo=0):
        n = self.r.choice([lo, lo, 1, 1, 2, 3])
        return "".join(" | " + self.r.choice(FILTERS) for _ in range(n))

    def expr(self):
        s = self.prim() + self.filters()
        if self.chance(22):
            self.feat.add("ternary")
            s += " if " + self.boolean(1)
            if self.chance(65):
                s += " else " + self.prim() + (self.filters() if self.chance(50) else "")
            if self.chance(35):
                s += " || " + self.r.choice(FILTERS) + self.filters()
        return s

    def loop_expr(self, table=False):
        it = self.r.choice(["items", "x", "(1..3)", "(1..n)", "user.tags", "h.b", "s", "h", self.path()])
        s = self.r.choice(["i", "item", "j"]) + " in " + it
        opts = []
        if self.chance(35):
            opts.append("limit:" + self.r.choice(["1", "2", "n", "0"]))
        if self.chance(30):
            opts.append("offset:" + self.r.choice(["1", "2", "n", "continue"]))
        if table and self.chance(60):
            opts.append("cols:" + self.r.choice(["1", "2", "n", "3"]))
        if self.chance(25):
            opts.append("reversed")
        # any order, optional commas and blank after the colon (the printer normalises them)
        opts = self.r.shuffle(opts)
        sep = self.r.choice([" ", " ", ", "])
        return s + "".join(sep + (o.replace(":", ": ") if self.chance(30) else o) for o in opts)

    # ---- nodes --------------------------------------------------------------------------------
    def ws(self):
        return self.r.choice(["", "", "", "-"])

    def tag(self, body):
        a, b = self.ws(), self.ws()
        if a or b:
            self.feat.add("ws-control")
        return "{%" + a + " " + body + " " + b + "%}"

    def text(self):
        return "".join(self.r.choice(TEXT) for _ in range(self.r.range(1, 3)))

    def block(self):
        self.depth += 1
        n = self.r.choice([0, 1, 1, 2, 3]) if self.depth < 4 else self.r.choice([0, 1])
        s = "".join(self.node() for _ in range(n))
        self.depth -= 1
        return s

    def node(self):
        k = self.r.range(0, 99)
        if self.depth >= 4:
            k = k % 40
        if k < 14:
            return self.text()
        if k < 30:
            a, b = self.ws(), self.ws()
            return "{{" + a + " " + self.expr() + " " + b + "}}"
        if k < 34:
            return self.tag("echo " + self.expr())
        if k < 40:
            return self.tag("assign " + self.r.choice(["v", "w", "a", "acc"]) + " = " + self.expr())
        self.feat.add("block")
        if k < 50:
            kw = self.r.choice(["if", "if", "unless"])
            s = self.tag(f"{kw} " + self.boolean()) + self.block()
            for _ in range(self.r.choice([0, 0, 1, 2])):
                s += self.tag("elsif " + self.boolean()) + self.block()
            if self.chance(50):
                s += self.tag("else") + self.block()
            return s + self.tag("end" + kw)
        if k < 56:
            s = self.tag("case " + self.prim(allow_range=False)) + self.r.choice(["", "\n", " "])
            for _ in range(self.r.choice([1, 2, 3])):
                ws = [self.prim(allow_range=False, allow_eb=True) for _ in range(self.r.choice([1, 1, 2, 3]))]
                s += self.tag("when " + self.r.choice([", ", " or "]).join(ws)) + self.block()
                if self.chance(20):
                    s += self.tag("else") + self.block()
            if self.chance(50):
                s += self.tag("else") + self.block()
            return s + self.tag("endcase")
        if k < 66:
            self.in_loop += 1
            s = self.tag("for " + self.loop_expr()) + self.block()
            if self.chance(30):
                s += self.tag(self.r.choice(["break", "continue"]))
            if self.chance(30):
                s += self.tag("else") + self.block()
            self.in_loop -= 1
            return s + self.tag("endfor")
        if k < 71:
            self.feat.add("tablerow")
            self.in_loop += 1
            s = self.tag("tablerow " + self.loop_expr(table=True)) + self.block() + self.tag("endtablerow")
            self.in_loop -= 1
            return s
        if k < 75:
            return self.tag("capture " + self.r.choice(["v", "w", "cap"])) + self.block() + self.tag("endcapture")
        if k < 80:
            self.feat.add("cycle")
            g = self.r.choice(["", "", "'g': ", '"h h": ', "s: ", "user.name: ", "1: "])
            args = ", ".join(self.prim(allow_range=False) for _ in range(self.r.choice([1, 2, 3])))
            return self.tag("cycle " + g + args)
        if k < 83:
            return self.tag(self.r.choice(["increment", "decrement"]) + " " + self.r.choice(["cnt", "n", "v"]))
        if k < 86:
            self.feat.add("ifchanged")
            return self.tag("ifchanged") + self.block() + self.tag("endifchanged")
        if k < 91:
            self.feat.add("partial")
            name = self.r.choice(["'p'", "'q'", '"p"', "s", "'missing'"])
            if self.chance(50):
                s = "include " + name
                if self.chance(50):
                    s += " " + self.r.choice(["with", "for"]) + " " + self.path()
                    if self.chance(50):
                        s += " as " + self.r.choice(["x", "y", "q"])
            else:
                s = "render " + self.r.choice(["'p'", "'q'", '"q"'])
                if self.chance(50):
                    s += " " + self.r.choice(["with", "for"]) + " " + self.r.choice(["items", "x", "user.tags", self.path()])
                    if self.chance(50):
                        s += " as " + self.r.choice(["x", "y", "q"])
            for _ in range(self.r.choice([0, 0, 1, 2])):
                s += ", " + self.r.choice(["x", "y", "q"]) + self.r.choice([": ", ":"]) + self.prim(allow_range=False)
            return self.tag(s)
        if k < 94:
            self.feat.add("liquid")
            lines = []
            for _ in range(self.r.choice([1, 2, 3])):
                lk = self.r.range(0, 5)
                if lk == 0:
                    lines.append("echo " + self.single_line(self.expr()))
                elif lk == 1:
                    lines.append("assign v = " + self.single_line(self.expr()))
                elif lk == 2:
                    lines += ["if " + self.single_line(self.boolean()), "echo 'y'", "endif"]
                elif lk == 3:
                    lines.append("# a comment")
                elif lk == 4:
                    lines += ["for i in (1..2)", "echo i", "endfor"]
                else:
                    lines.append("cycle 'a', 'b'")
            return "{% liquid " + self.r.choice(["", "\n"]) + self.r.choice(["\n", "\n  "]).join(lines) + self.r.choice(["", "\n"]) + " %}"
        if k < 96:
            self.feat.add("comment")
            return self.r.choice(["{% comment %} note {{ a }} {% if %} {% endcomment %}", "{% comment %}{% endcomment %}", "{% # inline note %}", "{%- # x -%}", "{% doc %} d {{ x }} {% enddoc %}"])
        if k < 98:
            self.feat.add("raw")
            return "{% raw %}" + self.r.choice(["plain", " a } b % ", "", "x\ny"]) + "{% endraw %}"
        return self.text()

    def single_line(self, s):
        return s.replace("\n", " ")

    def template(self):
        n = self.r.choice([1, 1, 2, 3, 4])
        return "".join(self.node() for _ in range(n))


# ---------------------------------------------------------------------------------------------
# streams
# ---------------------------------------------------------------------------------------------
class TmplStream(Stream):
    """Generated templates: direct round-trip oracle + real str() vs model printer on the extracted tree."""

    name = "tmpl"
    parallel = True

    def cases(self, ctx):
        self.parallel = ctx.tier == "thorough"  # quick tier is a few seconds sequentially; forking 16 workers costs more
        rng = ctx.rng_for("tmpl")
        out = []
        n = ctx.scale(2500, 30000)
        for i in range(n):
            g = Gen(rng)
            src = g.template()
            out.append({"src": src, "datas": data_sets(rng, 3), "feat": sorted(g.feat)})
        return out

    def impl(self, case):
        return roundtrip(case["src"], case["datas"])

    def line_obs(self, case, obs):
        if not obs.get("valid") or obs.get("ast") is None:
            return None
        return ["c04_print", obs["ast"]]

    def compare_view(self, case, obs):
        return {"str": obs["str"]}

    def oracle(self, case, obs):
        return oracle_roundtrip(case["src"], obs, case["datas"], self.name)

    def nontrivial(self, case, obs):
        return bool(obs.get("valid")) and (obs.get("str") != case["src"] or bool(case.get("feat")))

    def tags(self, case, obs):
        if not obs.get("valid"):
            return ["source-unparseable:" + obs.get("error", "?")]
        t = ["valid"] + ["feat:" + f for f in case.get("feat", [])]
        t += sorted({"node:" + k for k in node_kinds(obs.get("ast"))})
        if obs.get("str") != case["src"]:
            t.append("normalised")
        if obs.get("ast2_same") is False:
            t.append("ast-changed-but-equivalent")
        return t

    def shrink_candidates(self, case):
        src = case["src"]
        # drop one top-level chunk of markup at a time, then fewer data sets
        import re

        parts = re.findall(r"\{%.*?%\}|\{\{.*?\}\}|[^{]+|\{", src, flags=re.S)
        for i in range(len(parts)):
            yield {**case, "src": "".join(parts[:i] + parts[i + 1 :])}
        if len(case["datas"]) > 1:
            for i in range(len(case["datas"])):
                yield {**case, "datas": case["datas"][:i] + case["datas"][i + 1 :]}


VALS = [True, False, 1, "x"]


def enum_bool(k, natoms, ops):
    """all trees with exactly k operators"""
    if k == 0:
        return [["atom", i] for i in range(natoms)]
    out = [["not", x] for x in enum_bool(k - 1, natoms, ops)]
    for kl in range(0, k):
        ls, rs = enum_bool(kl, natoms, ops), enum_bool(k - 1 - kl, natoms, ops)
        for op in ops:
            for l in ls:
                for r in rs:
                    out.append([op, l, r] if op in ("and", "or") else ["cmp", op, l, r])
    return out


def bool_src(t):
    """fully parenthesised source text for a tree (variables a0, a1, …)"""
    if t[0] == "atom":
        return f"a{t[1]}"
    if t[0] == "not":
        return "not (" + bool_src(t[1]) + ")" if t[1][0] != "atom" else "not " + bool_src(t[1])
    if t[0] == "cmp":
        op, l, r = t[1], t[2], t[3]
    else:
        op, l, r = t[0], t[1], t[2]
    ls = bool_src(l) if l[0] == "atom" else "(" + bool_src(l) + ")"
    rs = bool_src(r) if r[0] == "atom" else "(" + bool_src(r) + ")"
    return f"{ls} {op} {rs}"


def tree_of(e):
    """real logical expression -> tree with atoms numbered by variable name a<i>"""
    j = bool_json(e)

    def conv(x):
        if x[0] == "path":
            return ["atom", int(x[1][0][1][1:])]
        if x[0] in ("and", "or"):
            return [x[0], conv(x[1]), conv(x[2])]
        if x[0] == "not":
            return ["not", conv(x[1])]
        return ["cmp", x[1], conv(x[2]), conv(x[3])]

    return conv(j)


class BoolStream(Stream):
    """Every small logical expression: printer text and parser reading, model vs implementation; all valuations."""

    name = "bool"
    exhaustive = True
    parallel = True

    def cases(self, ctx):
        self.parallel = ctx.tier == "thorough"  # quick tier is a few seconds sequentially; forking 16 workers costs more
        natoms = ctx.scale(2, 3)
        ops = ["and", "or", "==", "<", "contains"]
        out = []
        for k in range(0, 4):
            for t in enum_bool(k, natoms, ops if k < 3 or ctx.tier == "thorough" else ["and", "or", "=="]):
                out.append({"tree": t, "natoms": natoms})
        return out

    def impl(self, case):
        src = bool_src(case["tree"])
        t = env().from_string("{% if " + src + " %}1{% else %}0{% endif %}")
        cond = t.nodes[0].condition
        tree = tree_of(cond)
        text = str(cond)
        obs = {"parsed_as_generated": tree == case["tree"], "text": text}
        try:
            t2 = env().from_string("{% if " + text + " %}1{% else %}0{% endif %}")
        except Exception as e:
            obs["reparse"] = None
            obs["error"] = type(e).__name__
            return obs
        obs["reparse"] = tree_of(t2.nodes[0].condition)
        obs["text2"] = str(t2.nodes[0].condition)
        n = case["natoms"]
        diffs = 0
        for vs in itertools.product(VALS if n < 3 else VALS[:3], repeat=n):
            d = {f"a{i}": v for i, v in enumerate(vs)}
            if render_obs(t, d) != render_obs(t2, d):
                diffs += 1
        obs["valuations_differing"] = diffs
        return obs

    def line(self, case):
        return ["c04_bool", case["tree"]]

    def compare_view(self, case, obs):
        return {"text": obs["text"], "reparse": obs["reparse"]}

    def canon_model(self, case, mobs):
        if isinstance(mobs, dict) and "text" in mobs:
            return {"text": mobs["text"], "reparse": mobs["reparse"]}
        return mobs

    def oracle(self, case, obs):
        shape = case["tree"][0] + "(" + ",".join(x[0] if isinstance(x, list) else str(x) for x in case["tree"][1:]) + ")"
        if obs["reparse"] is None:
            return (f"bool|reparse-{obs.get('error')}|{shape}", f"{obs['text']!r} does not parse")
        if obs["valuations_differing"]:
            return (f"bool|value-differs|{shape}", f"{bool_src(case['tree'])!r} serialised as {obs['text']!r}: {obs['valuations_differing']} valuations differ")
        if obs["text2"] != obs["text"]:
            return (f"bool|str-not-stable|{shape}", f"{obs['text']!r} -> {obs['text2']!r}")
        return None

    def nontrivial(self, case, obs):
        return case["tree"][0] != "atom"

    def tags(self, case, obs):
        return ["root:" + case["tree"][0], "parens" if "(" in obs["text"] else "no-parens"]


STR_ALPHABET = ["a", "'", '"', "\\", "\n", "{", "%", "}"]


class StrLitStream(Stream):
    name = "strlit"
    exhaustive = True
    parallel = True

    def cases(self, ctx):
        self.parallel = ctx.tier == "thorough"  # quick tier is a few seconds sequentially; forking 16 workers costs more
        L = ctx.scale(4, 5)
        out = []
        for n in range(0, L + 1):
            for cs in itertools.product(STR_ALPHABET, repeat=n):
                v = "".join(cs)
                if "'" in v and '"' in v:
                    continue  # no source text has this value: the lexer has no escapes
                out.append({"value": v})
        return out

    def impl(self, case):
        v = case["value"]
        q = '"' if "'" in v else "'"
        try:
            t = env().from_string("{{ " + q + v + q + " }}")
            e = t.nodes[0].expression.left
            if type(e).__name__ != "StringLiteral" or e.value != v or len(t.nodes) != 1:
                return {"valid": False}
        except Exception:
            return {"valid": False}
        printed = str(e)
        obs = {"valid": True, "printed": printed}
        try:
            t2 = env().from_string(str(t))
            e2 = t2.nodes[0].expression.left
            obs["value2"] = e2.value if type(e2).__name__ == "StringLiteral" else None
            obs["render_same"] = t.render() == t2.render()
            obs["str_same"] = str(t2) == str(t)
        except Exception as ex:
            obs["value2"] = None
            obs["error"] = type(ex).__name__
        return obs

    def line_obs(self, case, obs):
        # the model has no template lexer: when `{{ 'v' }}` is not one output statement (v holds `}}`) there is no literal
        return ["c04_str", case["value"]] if obs["valid"] else None

    def compare_view(self, case, obs):
        if not obs["valid"]:
            return {"valid": False}
        return {"valid": True, "printed": obs["printed"], "value2": obs["value2"]}

    def canon_model(self, case, mobs):
        if not isinstance(mobs, dict) or "printed" not in mobs:
            return mobs
        return {"valid": True, "printed": mobs["printed"], "value2": mobs["scan"][0] if mobs["scan"] and mobs["scan"][1] == "" else None}

    def oracle(self, case, obs):
        if not obs["valid"]:
            return None
        cls = "+".join(sorted({{"\\": "backslash", "\n": "newline", "'": "squote", '"': "dquote"}.get(c, "plain") for c in case["value"]})) or "empty"
        if obs["value2"] != case["value"]:
            return (f"strlit|value-changed|{cls}", f"{case['value']!r} printed {obs['printed']!r} read back {obs['value2']!r}")
        if not obs.get("render_same") or not obs.get("str_same"):
            return (f"strlit|unstable|{cls}", f"{case['value']!r}")
        return None

    def nontrivial(self, case, obs):
        return obs["valid"] and any(c in case["value"] for c in "\\\n'\"")

    def tags(self, case, obs):
        return ["valid" if obs["valid"] else "not-one-output-statement", f"len{len(case['value'])}"]


PATH_SEGS = [["w", "a"], ["w", "b"], ["q", "and"], ["q", "x y"], ["q", "a\\b"], ["q", "it's"], ["q", "k"], ["i", 0], ["i", -1], ["p", "k"], ["p", "h.k"], ["p", "[k]"]]
PATH_DATA = {
    "a": {"a": {"a": 1, "b": 2, "and": 3}, "b": [5, 6], "and": {"a": 4, "x y": 5}, "x y": [7, 8], "a\\b": {"b": 9}, "it's": {"a": 10}, "k": "kk", "name": {"a": 11}},
    "b": [[1, 2], {"a": 3, "and": 4}],
    "and": {"a": "kw"},
    "x y": {"b": "sp", "a": [1]},
    "a\\b": "bs",
    "it's": {"a": "q"},
    "k": "a",
    "h": {"k": "b"},
    "name": "nm",
}


def path_src(segs):
    s = ""
    for i, (kind, v) in enumerate(segs):
        if kind == "w":
            s += v if i == 0 else "." + v
        elif kind == "q":
            q = '"' if "'" in v else "'"
            s += "[" + q + v + q + "]"
        elif kind == "i":
            s += f"[{v}]"
        else:
            s += "[" + v + "]"
    return s


class PathStream(Stream):
    name = "path"
    exhaustive = True
    parallel = True

    def cases(self, ctx):
        self.parallel = ctx.tier == "thorough"  # quick tier is a few seconds sequentially; forking 16 workers costs more
        out = []
        L = ctx.scale(3, 4)
        for n in range(1, L + 1):
            for segs in itertools.product(PATH_SEGS, repeat=n):
                if segs[0][0] == "i":
                    continue  # `[0]` alone is lexed as an index segment with nothing to index
                out.append({"src": "{{ " + path_src(segs) + " }}"})
        return out

    def impl(self, case):
        return roundtrip(case["src"], [PATH_DATA, {}])

    def line_obs(self, case, obs):
        if not obs.get("valid") or obs.get("ast") is None:
            return None
        return ["c04_print", obs["ast"]]

    def compare_view(self, case, obs):
        return {"str": obs["str"]}

    def oracle(self, case, obs):
        v = oracle_roundtrip(case["src"], obs, [PATH_DATA, {}], self.name)
        if v is None and obs.get("valid") and obs.get("ast2_same") is False:
            return ("path|tree-changed", f"{case['src']!r} -> {obs['str']!r} parses to a different path")
        return v

    def nontrivial(self, case, obs):
        return bool(obs.get("valid")) and ("[" in case["src"])

    def tags(self, case, obs):
        return ["valid" if obs.get("valid") else "source-unparseable", "normalised" if obs.get("str") != case["src"] else "verbatim"]


class PathTokStream(PathStream):
    """Same paths: the real expression lexer's tokens for the printed path and the real Path.parse of them, against
    the model's token printer (tokSegs) and token-level parser (parsePath) — the objects of theorem path_print_parse."""

    name = "pathtok"

    def impl(self, case):
        from liquid.builtin.expressions import tokenize
        from liquid.token import Token

        try:
            t = env().from_string(case["src"])
            path = t.nodes[0].expression.left
            if type(path).__name__ != "Path" or len(t.nodes) != 1:
                return {"valid": False}
        except Exception:
            return {"valid": False}
        text = str(path)
        kinds = {"word": "word", "identstring": "identstring", "identindex": "identindex", "lbracket": "lbracket", "rbracket": "rbracket", "dot": "dot"}
        toks = []
        try:
            for tok in tokenize(text, Token("expr", text, 0, text)):
                k = kinds.get(tok.kind, "other")
                toks.append([k, tok.value] if k in ("word", "identstring", "identindex") else k)
            t2 = env().from_string("{{ " + text + " }}")
            re = segs_json(t2.nodes[0].expression.left)
        except Exception as e:
            return {"valid": True, "segs": segs_json(path), "text": text, "toks": toks, "reparse": None, "error": type(e).__name__}
        return {"valid": True, "segs": segs_json(path), "text": text, "toks": toks, "reparse": re}

    def line_obs(self, case, obs):
        return ["c04_path", obs["segs"]] if obs.get("valid") else None

    def compare_view(self, case, obs):
        return {"text": obs["text"], "toks": obs["toks"], "reparse": obs["reparse"]}

    def oracle(self, case, obs):
        if obs.get("valid") and obs["reparse"] != obs["segs"]:
            return ("pathtok|segments-changed", f"{case['src']!r} -> {obs['text']!r} -> {obs['reparse']}")
        return None

    def tags(self, case, obs):
        return ["valid" if obs.get("valid") else "not-a-single-path"]


def real_tokens(text):
    """[[kind, value]…] from the real expression lexer (None when it raises)"""
    from liquid.builtin.expressions import tokenize
    from liquid.token import Token

    try:
        return [[t.kind, t.value] for t in tokenize(text, Token("expr", text, 0, text))]
    except Exception:
        return None


def canon_toks(toks):
    """the driver's xtokJson shape: valued kinds as [kind, value], the rest by kind; integers normalised"""
    out = []
    for k, v in toks:
        if k in ("word", "identstring", "string", "float"):
            out.append([k, v])
        elif k in ("integer", "identindex"):
            out.append([k, str(int(v))])
        elif k in ("eq", "ne", "lt", "gt", "le", "ge"):
            out.append({"eq": "==", "ne": "!=", "lt": "<", "gt": ">", "le": "<=", "ge": ">="}[k])
        else:
            out.append(k)
    return out


class XParseStream(Stream):
    """Deepening: the token-level models of LoopExpression.parse and FilteredExpression.parse (with parse_primitive,
    Path.parse, Filter.parse) against the real parsers on the real lexer's tokens — generated expressions plus
    token-level mutations (drop / duplicate / swap a token), mostly malformed — and, when the expression parses, the
    real lexer's tokens of its str() against the model's token printer (tokLoop / tokFExpr)."""

    name = "xparse"

    def cases(self, ctx):
        self.parallel = ctx.tier == "thorough"
        rng = ctx.rng_for("xparse")
        out = []
        for _ in range(ctx.scale(1500, 15000)):
            g = Gen(rng)
            g.in_loop = 0
            if rng.chance(50):
                kind, src = "loop", g.loop_expr(table=rng.chance(50))
            else:
                kind, src = "filt", g.prim() + g.filters()
            toks = real_tokens(src)
            if toks is None:
                continue
            m = rng.range(0, 5)
            if toks and m == 0:
                i = rng.below(len(toks)); toks = toks[:i] + toks[i + 1 :]
            elif toks and m == 1:
                i = rng.below(len(toks)); toks = toks[: i + 1] + toks[i:]
            elif len(toks) > 1 and m == 2:
                i = rng.below(len(toks) - 1); toks = toks[:i] + [toks[i + 1], toks[i]] + toks[i + 2 :]
            out.append({"kind": kind, "toks": toks, "mutated": m <= 2})
        return out

    def impl(self, case):
        from liquid.builtin.expressions import FilteredExpression, LoopExpression
        from liquid.exceptions import LiquidSyntaxError
        from liquid.stream import TokenStream
        from liquid.token import Token

        stream = TokenStream(iter([Token(k, v, 0, "") for k, v in case["toks"]]))
        try:
            if case["kind"] == "loop":
                e = LoopExpression.parse(env(), stream)
                tree = loop_json(e)
            else:
                e = FilteredExpression.parse(env(), stream)
                tree = expr_json(e)
        except LiquidSyntaxError:
            return {"tree": None}
        except Exception as ex:
            return {"tree": None, "non_liquid_error": type(ex).__name__}
        st = real_tokens(str(e))
        return {"tree": tree, "str_toks": canon_toks(st) if st is not None else None, "text": str(e)}

    def line(self, case):
        if any(k == "if" for k, _ in case["toks"]):
            return None  # ternaries: the condition parser is a parameter of the model (see notes)
        return ["c04_xloop" if case["kind"] == "loop" else "c04_xfilt", case["toks"]]

    def compare_view(self, case, obs):
        if obs["tree"] is None:
            return {"tree": None}
        return {"tree": obs["tree"], "str_toks": obs["str_toks"]}

    def canon_model(self, case, mobs):
        if isinstance(mobs, dict) and "tree" in mobs:
            if mobs["tree"] is None:
                return {"tree": None}
            return {"tree": mobs["tree"], "str_toks": mobs["str_toks"]}
        return mobs

    def oracle(self, case, obs):
        # the property on the accepted ones: their text parses back to the same tree
        if obs["tree"] is None or feature_nil(obs["tree"]) or feature_empty_literal(obs["tree"]) or feature_blank_literal(obs["tree"]):
            return None
        toks = real_tokens(obs["text"])
        c2 = {"kind": case["kind"], "toks": toks or []}
        o2 = self.impl(c2) if toks is not None else {"tree": None}
        if o2["tree"] != obs["tree"]:
            return (f"xparse|{case['kind']}|text-parses-differently", f"{obs['text']!r}: {obs['tree']} -> {o2['tree']}")
        return None

    def nontrivial(self, case, obs):
        return obs["tree"] is not None

    def tags(self, case, obs):
        return [case["kind"], "accepted" if obs["tree"] is not None else "rejected", "mutated" if case["mutated"] else "as-generated"]


TOKS = ["and", "or", "not", "(", ")", "==", "<", "contains", "<>", ["atom", 0], ["atom", 1], ["atom", 2], ["atom", 0], ["atom", 1]]


def tok_src(t):
    return f"a{t[1]}" if isinstance(t, list) else t


class ParseStream(Stream):
    """Random (mostly malformed) token lists: the real logical-expression parser and the model parser agree on
    accept/reject and on the tree."""

    name = "parse"
    parallel = True

    def cases(self, ctx):
        self.parallel = ctx.tier == "thorough"  # quick tier is a few seconds sequentially; forking 16 workers costs more
        rng = ctx.rng_for("parse")
        out = []
        for _ in range(ctx.scale(3000, 30000)):
            n = rng.range(1, 9)
            out.append({"toks": [rng.choice(TOKS) for _ in range(n)]})
        # plus every token list of length <= 4 over a reduced alphabet
        small = ["and", "not", "(", ")", "==", ["atom", 0], ["atom", 1]]
        for n in range(1, ctx.scale(4, 5) + 1):
            for ts in itertools.product(small, repeat=n):
                out.append({"toks": list(ts)})
        return out

    def impl(self, case):
        src = " ".join(tok_src(t) for t in case["toks"])
        try:
            t = env().from_string("{% if " + src + " %}1{% endif %}")
        except Exception as e:
            from liquid.exceptions import LiquidSyntaxError

            return {"tree": None, "liquid_error": isinstance(e, LiquidSyntaxError), "error": type(e).__name__}
        cond = t.nodes[0].condition
        obs = {"tree": tree_of(cond)}
        # accepted input: its serialisation must round-trip too
        try:
            t2 = env().from_string("{% if " + str(cond) + " %}1{% endif %}")
            obs["rt_same_tree"] = tree_of(t2.nodes[0].condition) == obs["tree"]
        except Exception as e:
            obs["rt_same_tree"] = False
        return obs

    def line(self, case):
        return ["c04_parse", case["toks"]]

    def compare_view(self, case, obs):
        return obs["tree"]

    def oracle(self, case, obs):
        if obs["tree"] is not None and not obs["rt_same_tree"]:
            return ("parse|accepted-but-not-round-tripping", " ".join(tok_src(t) for t in case["toks"]))
        return None

    def nontrivial(self, case, obs):
        return obs["tree"] is not None and obs["tree"][0] != "atom"

    def tags(self, case, obs):
        return ["accepted" if obs["tree"] is not None else "rejected:" + obs.get("error", "?")]


KNOWN_SRCS = [
    "{% if a == nil %}1{% endif %}",
    "{{ nil }}",
    "{{ a | default: nil }}",
    "{% case a %}{% when 1, nil %}x{% endcase %}",
    "{% case b %}{% when 1, nil %}x{% endcase %}",
    "{% if x == empty %}2{% endif %}",
    "{% if a != blank %}3{% endif %}",
    "{% case a %}{% when 1, empty %}x{% endcase %}",
    "{% case a %}{% when 1, blank %}x{% endcase %}",
    "{% raw %}{{ x }}{% endraw %}",
    "{% raw %}{% if a %}{% endraw %}",
    "{% raw %} {{ {% endraw %}",
    "a{ {{- x }}",
    "{% raw %}a{% endraw %}{{ x }}{% raw %}{{% endraw %}{{ x }}",
    "x { {%- if a %}y{% endif %}",
]


KNOWN_DATA = [{"a": 1, "x": 3}, {"x": "v"}]


class KnownStream(Stream):
    """Witnesses (and close variants) of the known findings; each carries exactly one listed feature."""

    name = "known"

    def cases(self, ctx):
        # fixed data: the signature of a witness must not depend on the seed
        return [{"src": s, "datas": KNOWN_DATA} for s in KNOWN_SRCS]

    def impl(self, case):
        return roundtrip(case["src"], case["datas"])

    def line_obs(self, case, obs):
        if not obs.get("valid") or obs.get("ast") is None:
            return None
        return ["c04_print", obs["ast"]]

    def compare_view(self, case, obs):
        return {"str": obs["str"]}

    def oracle(self, case, obs):
        return oracle_roundtrip(case["src"], obs, case["datas"], "tmpl")

    def tags(self, case, obs):
        return ["valid" if obs.get("valid") else "source-unparseable"]


REG_DATA = [
    {"a": True, "b": False, "c": True, "x": [1, 2, 3], "s": "g", "y": 42, "user": {"and": 7, "a\\b": "bs"}, "x y": {"z": 5}},
    {"a": False, "b": False, "c": True, "x": "y", "s": "h", "y": 42, "user": {"and": 8, "a\\b": "bt"}, "x y": {"z": 6}},
    {"a": 1, "b": 1, "c": True, "x": [], "s": "", "user": {}},
]


def regress_sources():
    """Inputs that failed on the unchanged tree (one per `fixed` finding, plus variants); they must pass now."""
    import json
    from pathlib import Path

    f = Path(__file__).resolve().parent.parent.parent / "known_findings.d" / "C04.json"
    srcs = []
    if f.exists():
        for e in json.loads(f.read_text())["findings"]:
            if e.get("status") == "fixed" and e.get("witness", {}).get("stream") == "regress":
                srcs.append(e["witness"]["case"]["src"])
    srcs += [
        "{% if (not a) and b %}1{% else %}0{% endif %}",
        "{% if a == (b and c) %}1{% else %}0{% endif %}",
        "{% if (a == b) == c %}1{% else %}0{% endif %}",
        "{% if a contains (b == c) %}1{% else %}0{% endif %}",
        "{{ a if (a and b) or c else b }}",
        "{% if not a or b == '..' %}1{% endif %}",
        "{% cycle 'g': 1, 2 %}{% cycle 'g': 1, 2 %}{% cycle s: 1, 2 %}",
        "{% tablerow i in x cols:2 limit:2 offset:1 %}{{ i }}{% endtablerow %}",
        "{{ [s] }}{{ [user['and']] }}{{ ['x y']['z'] }}",
    ]
    return srcs


class RegressStream(KnownStream):
    name = "regress"
    exhaustive = True

    def cases(self, ctx):
        return [{"src": s, "datas": REG_DATA} for s in regress_sources()]


def streams(ctx):
    return [BoolStream(), StrLitStream(), PathStream(), PathTokStream(), ParseStream(), XParseStream(), TmplStream(), KnownStream(), RegressStream()]
