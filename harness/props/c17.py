"""C17 — rendering is pure and independent of history (process-wide memo caches, per-render context state, data mutation)."""
from __future__ import annotations

import atexit
import copy
import json
import os
import subprocess
import sys
from pathlib import Path

from ..core import Stream
from ..gen.templates import gen_program
from ..impl.render import make_env, outcome

ID = "C17"
LEAN_MODULE = "LiquidVerif.Props.C17"
TRANSLATE = True
RULE = (
    "stream memo: call histories over Python-equal-but-distinct keys (1 / 1.0 / True, 'x' / Markup('x'), objects by "
    "identity, equal instants in different zones) against functools.lru_cache itself (capacities 1..4) and against the "
    "real get_lexer / get_parser caches, compared call by call with the Lean memo model (which call's value is returned) "
    "and, directly, with an uncached call; stream history: a probe render after 0..6 earlier renders in a process forked "
    "from a pristine interpreter (same/different template, same/different Environment object, Template() convenience "
    "API, data that compares equal but differs in type or time zone, Markup vs str, gen_program templates) must equal "
    "the same probe in a freshly forked pristine process; stream purity: gen_program templates (all tags, ~90 filters, "
    "partials) rendered sync and async — a type-exact deep snapshot of the data passed in and a structural dump of the "
    "parsed template must be unchanged, and a second render of the same template object with the same data must give "
    "the same outcome; stream purity_filters: every registered filter (default and extra) x 8 input shapes x 8 argument "
    "lists, and tag templates that walk lists/dicts (reversed, limit/offset, tablerow, render/include for/with), sync and "
    "async, data snapshot unchanged (exhaustive over the filter register); stream loaders: request sequences against "
    "caching dict / choice / file-system loaders whose source depends on the namespace (namespace_key set or not, "
    "namespaces absent, 0, '', False, None, 'x', 'y', 7, given as keyword argument or context global, sync and async, "
    "capacities 1..4): every request must be served what a fresh loader serves, and which earlier request's template "
    "object is served is compared with the Lean cache-key model; stream threads: 2-8 threads parse and render 2-4 "
    "generated programs through one Environment concurrently (switch interval 1e-6, memo caches cleared first): every "
    "output equals the single-threaded one. Non-trivial: the history contains a render that shares the probe's template, environment or a "
    "Python-equal argument (history), a hit on a non-identical key or an eviction (memo), a successful non-empty render "
    "(purity)."
)
TRUSTED_BASE = [
    "Lean 4.33 kernel; axioms subset of {propext, Classical.choice, Quot.sound}",
    "translator tools/emitters/c17_shared_state.py (Python ast -> inventory of memoised functions, module/class-level mutable containers and instances, with their write sites)",
    "hand-written model LiquidVerif/Model/MemoHist.lean of functools.lru_cache keyed by Python equality and of the process state that outlives a render",
    "the classification in Props/C17.lean `pinned` (which containers are constant tables) and the per-cache statement that the function reads its arguments only through what == sees — reviewed by hand, sampled by the memo and history streams",
    "correspondence harness harness/props/c17.py + harness/c17_server.py + Driver/C17.lean",
]
ASSUMPTIONS = [
    "'never modifies the data passed to it or the parsed template' is about Python object mutation; an immutable model cannot exhibit it — it is checked by the purity stream only (dynamic oracle), not proved",
    "excluded by the property text: the current time ('now'/'today') and templates reloaded from changed sources",
    "per-Environment state (tag/filter registers, loader caches) is written only by the registration API and by loaders (C23); the history stream renders repeatedly through one Environment object to sample it",
    "user-defined drops / filters with side effects are outside the quantifier (built-in tags and filters)",
]
MANIFEST = {
    "technique": "Lean 4 proof (memo transparency for every call history iff key congruence; history independence of a process model) over an inventory of shared state regenerated from source by a translator + fork-from-pristine differential renders + deep-snapshot purity oracle",
    "text": "all_shared_state_listed pins every module-level cache/mutable of liquid/ (regenerated each run); memo_transparent_iff: an equality-keyed LRU memo is invisible for every history exactly when the function respects the key equality, instantiated for get_lexer/get_parser/get_implicit_environment; render_history_independent for the process model. The date filter's memo violated this (fixed). Data/template non-mutation is dynamic only.",
    "note": "Trusted: Lean kernel, the inventory translator, the hand classification of the inventory, the harness. Object mutation is outside the model (dynamic oracle only).",
}

HERE = Path(__file__).resolve().parent.parent

# ---- pristine server --------------------------------------------------------------------------
_SERVER = {"p": None, "pid": None}


def _server():
    if _SERVER["p"] is None or _SERVER["pid"] != os.getpid() or _SERVER["p"].poll() is not None:
        _SERVER["p"] = subprocess.Popen(
            [sys.executable, str(HERE / "c17_server.py")], stdin=subprocess.PIPE, stdout=subprocess.PIPE, text=True, bufsize=1, cwd="/"
        )
        _SERVER["pid"] = os.getpid()
        atexit.register(_stop_server)
    return _SERVER["p"]


def _stop_server():
    p = _SERVER["p"]
    if p is not None and _SERVER["pid"] == os.getpid():
        try:
            p.stdin.close()
            p.wait(5)
        except Exception:
            p.kill()
        _SERVER["p"] = None


def ask(req: dict) -> dict:
    p = _server()
    p.stdin.write(json.dumps(req) + "\n")
    p.stdin.flush()
    line = p.stdout.readline()
    if not line:
        raise RuntimeError("c17 server died")
    return json.loads(line)


# ---- history stream ---------------------------------------------------------------------------
PLAIN = {"flags": {}, "extra": False, "autoescape": False, "partials": {}}
ESC = {"flags": {}, "extra": False, "autoescape": True, "partials": {}}


def dt(offset, instant_h=12):
    """The instant 2024-01-01 12:00 UTC (+instant_h shift) seen from the zone `offset` minutes east."""
    total = instant_h * 60 + offset
    day = 1 + total // (24 * 60)
    rem = total % (24 * 60)
    return {"$dt": [2024, 1, day, rem // 60, rem % 60, offset]}


EQUAL_GROUPS = {
    "instant": [dt(0), dt(300), dt(-480), dt(60)],
    "one": [1, {"$float": "1.0"}, True],
    "zero": [0, {"$float": "0.0"}, False],
    "fmt": ["<b>%Y</b>", {"$markup": "<b>%Y</b>"}],
    "text": ["%H:%M %z", {"$markup": "%H:%M %z"}],
    "stamp": [86400, "86400", {"$float": "86400.0"}],
}
PROBE_TEMPLATES = [
    # (kind, source, variable -> group)
    ("date-zone", "{{ d | date: '%H:%M %z' }}", {"d": "instant"}),
    ("date-zone-fmt", "{{ d | date: f }}", {"d": "instant", "f": "text"}),
    ("date-markup", "{{ d | date: f }}", {"d": "instant", "f": "fmt"}),
    ("date-number", "{{ x | date: '%Y' }}", {"x": "one"}),
    ("date-stamp", "{{ x | date: '%Y-%m-%d' }}", {"x": "stamp"}),
    ("math", "{{ x | plus: 1 }}|{{ x | times: 2 }}|{{ x }}|{% if x == true %}T{% endif %}{% if x %}y{% endif %}", {"x": "one"}),
    ("math0", "{{ x | plus: 1 }}|{{ x | default: 'd' }}|{{ x }}|{% if x == false %}F{% endif %}", {"x": "zero"}),
    ("escape", "{{ f }}|{{ f | append: '<i>' }}|{{ f | upcase }}", {"f": "fmt"}),
    ("case", "{% case x %}{% when 1 %}one{% when true %}true{% else %}other{% endcase %}", {"x": "one"}),
    ("lookup", "{{ m[x] }}|{{ l[x] }}", {"x": "one"}),
    ("state", "{% increment c %}{% increment c %}{% cycle 'a', 'b' %}{% cycle 'a', 'b' %}{% ifchanged %}{{ x }}{% endifchanged %}"
              "{% for i in (1..3) %}{{ forloop.index }}{% endfor %}{% for i in (1..5) limit: 2 %}{{ i }}{% endfor %}"
              "{% for i in (1..5) offset: continue %}{{ i }}{% endfor %}{% assign z = x %}{{ z }}", {"x": "one"}),
]
EXTRA_DATA = {"m": {"$dict": [[1, "int-key"], ["1", "str-key"]]}, "l": ["zero", "one", "two"]}


def gen_history_case(rng):
    kind, src, groups = rng.choice(PROBE_TEMPLATES)
    prog = ESC if (kind in ("date-markup", "escape") or rng.chance(25)) else PLAIN
    pick = {v: rng.choice(EQUAL_GROUPS[g]) for v, g in groups.items()}
    via = "Template" if rng.chance(15) else "env"
    probe = {"env": 0, "prog": prog, "source": src, "data": {**EXTRA_DATA, **pick}, "via": via, "kind": kind}
    hist = []
    shares = False
    for _ in range(rng.range(1, 6)):
        k = rng.below(10)
        if k < 5:  # same template, Python-equal but distinct data
            alt = {v: rng.choice(EQUAL_GROUPS[g]) for v, g in groups.items()}
            hist.append({"env": 0 if rng.chance(60) else 1, "prog": prog, "source": src, "data": {**EXTRA_DATA, **alt}, "via": via if rng.chance(70) else "env"})
            shares = True
        elif k < 7:  # another probe template through the same environment
            k2, s2, g2 = rng.choice(PROBE_TEMPLATES)
            alt = {v: rng.choice(EQUAL_GROUPS[g]) for v, g in g2.items()}
            hist.append({"env": 0, "prog": prog, "source": s2, "data": {**EXTRA_DATA, **alt}, "via": "env"})
            shares = True
        elif k < 8:  # the very same render
            hist.append(dict(probe))
            shares = True
        else:  # an unrelated generated program in its own environment
            g = gen_program(rng.fork("h"), n_partials=rng.choice([0, 1]))
            hist.append({"env": 2 + len(hist), "prog": {"flags": g["flags"], "extra": g["extra"], "autoescape": g["autoescape"], "partials": g["partials"]},
                         "source": g["source"], "data": g["data"], "via": "env"})
    return {"probe": probe, "history": hist, "shares": shares}


def gen_generic_history_case(rng):
    """Probe and history are generated programs; half of the history goes through the probe's Environment."""
    g = gen_program(rng.fork("p"))
    prog = {"flags": g["flags"], "extra": g["extra"], "autoescape": g["autoescape"], "partials": g["partials"]}
    probe = {"env": 0, "prog": prog, "source": g["source"], "data": g["data"], "via": "env", "kind": "gen"}
    hist = []
    for i in range(rng.range(1, 4)):
        if rng.chance(40):
            hist.append(dict(probe))
        else:
            h = gen_program(rng.fork(f"h{i}"), n_partials=0)
            same_env = rng.chance(50)
            hist.append({"env": 0 if same_env else 5 + i, "prog": prog if same_env else {"flags": h["flags"], "extra": h["extra"], "autoescape": h["autoescape"], "partials": h["partials"]},
                         "source": h["source"], "data": h["data"], "via": "env"})
    return {"probe": probe, "history": hist, "shares": True}


class HistoryStream(Stream):
    name = "history"
    has_model = False
    parallel = True

    def cases(self, ctx):
        rng = ctx.rng_for("history")
        out = []
        for i in range(ctx.scale(200, 2000)):
            r = rng.fork(str(i))
            out.append(gen_history_case(r) if r.chance(75) else gen_generic_history_case(r))
        return out

    _fresh: dict = {}  # per worker process: probe -> outcome in a freshly forked pristine process

    def impl(self, case):
        key = (os.getpid(), json.dumps(case["probe"], sort_keys=True))
        if key not in self._fresh:
            self._fresh[key] = ask({"history": [], "probe": case["probe"]})
        fresh = self._fresh[key]
        after = ask({"history": case["history"], "probe": case["probe"]})
        return {"fresh": fresh, "after": after}

    def oracle(self, case, obs):
        for k in ("fresh", "after"):
            if str(obs[k].get("err", "")).startswith("harness:"):
                return None  # reported as a harness error below via nontrivial=False; never a finding
        if obs["fresh"] != obs["after"]:
            return (f"history|{case['probe'].get('kind', 'gen')}|differs-from-fresh-process",
                    f"after {len(case['history'])} earlier renders the probe gives {obs['after']}, a fresh process gives {obs['fresh']}")
        return None

    def nontrivial(self, case, obs):
        return bool(case["shares"]) and "ok" in obs["fresh"]

    def tags(self, case, obs):
        return [case["probe"].get("kind", "gen"), "ok" if "ok" in obs["fresh"] else "err:" + str(obs["fresh"].get("err")), "via:" + case["probe"]["via"]]

    def shrink_candidates(self, case):
        h = case["history"]
        for i in range(len(h)):
            d = dict(case)
            d["history"] = h[:i] + h[i + 1 :]
            yield d


# ---- memo stream ------------------------------------------------------------------------------
KEY_POOL = [1, {"f": 1}, True, 0, {"f": 0}, False, 2, "x", {"m": "x"}, "y", None, {"o": 0}, {"o": 1}, {"dt": [720, 0]}, {"dt": [720, 300]}, {"dt": [700, 0]}]
DELIMS = ["{%", "%}", "{{", "}}", "<%", "%>", "[[", "]]", "{#", "#}", ""]


def py_key(j, objs):
    import datetime

    from liquid import Markup

    if isinstance(j, dict):
        if "f" in j:
            return float(j["f"])
        if "m" in j:
            return Markup(j["m"])
        if "o" in j:
            return objs[j["o"]]
        if "dt" in j:
            inst, off = j["dt"]
            base = datetime.datetime(2024, 1, 1, tzinfo=datetime.timezone.utc) + datetime.timedelta(minutes=inst)
            return base.astimezone(datetime.timezone(datetime.timedelta(minutes=off)))
    return j


class _Obj:
    pass


class MemoStream(Stream):
    name = "memo"
    parallel = True

    def cases(self, ctx):
        rng = ctx.rng_for("memo")
        out = []
        for i in range(ctx.scale(400, 6000)):
            r = rng.fork(str(i))
            t = r.choice(["lru", "lru", "lru", "get_lexer", "get_parser"])
            if t == "lru":
                arity = r.choice([1, 1, 2])
                pool = r.sample(KEY_POOL, r.range(3, 8))
                hist = [[r.choice(pool) for _ in range(arity)] for _ in range(r.range(2, 14))]
                out.append({"target": "lru", "cap": r.range(1, 4), "hist": hist})
            elif t == "get_lexer":
                sets = []
                for _ in range(r.range(2, 4)):
                    a, b = r.choice([("{%", "%}"), ("<%", "%>"), ("[%", "%]")])
                    c, d = r.choice([("{{", "}}"), ("<<", ">>"), ("${", "}")])
                    sets.append([a, b, c, d, "", ""])
                hist = []
                for _ in range(r.range(2, 10)):
                    s = r.choice(sets)
                    hist.append([({"m": x} if r.chance(35) else x) for x in s])
                out.append({"target": "get_lexer", "cap": 128, "hist": hist})
            else:
                hist = [[{"o": r.below(3)}] for _ in range(r.range(2, 10))]
                out.append({"target": "get_parser", "cap": 128, "hist": hist})
        if ctx.tier == "thorough":  # evictions of the real 128-entry caches
            many = [[f"<{i}%", "%>", "{{", "}}", "", ""] for i in range(140)]
            out.append({"target": "get_lexer", "cap": 128, "hist": many + many[:3] + many[-3:]})
        return out

    def impl(self, case):
        import functools

        from liquid import Environment
        from liquid.lex import get_lexer
        from liquid.parser import get_parser

        t = case["target"]
        sample = "a <% if x %>b<% endif %> {{ y }} << z >> ${ w } [% q %] {% r %}"
        uncached_ok = True
        if t == "lru":
            objs = [_Obj(), _Obj()]
            fn = functools.lru_cache(maxsize=case["cap"])(lambda *a: _Obj())
        elif t == "get_lexer":
            objs = []
            get_lexer.cache_clear()
            fn = get_lexer
        else:
            objs = [Environment(), Environment(tag_start_string="<%", tag_end_string="%>"), Environment(extra=True)]
            get_parser.cache_clear()
            fn = get_parser
        created: dict = {}
        keep = []
        creators = []
        for i, key in enumerate(case["hist"]):
            args = [py_key(k, objs) for k in key]
            r = fn(*args)
            keep.append(r)
            if id(r) not in created:
                created[id(r)] = i
            creators.append(created[id(r)])
            # the property, directly: the cached value behaves like an uncached call
            if t == "get_lexer":
                want = [(tk.kind, tk.value) for tk in get_lexer.__wrapped__(*args)(sample)]
                got = [(tk.kind, tk.value) for tk in r(sample)]
                uncached_ok = uncached_ok and want == got
            elif t == "get_parser":
                uncached_ok = uncached_ok and (r.env is args[0])
        info = fn.cache_info()
        return {"creators": creators, "uncached_ok": uncached_ok, "size": info.currsize, "max": info.maxsize}

    def line(self, case):
        return ["c17memo", case["cap"], case["hist"]]

    def compare_view(self, case, obs):
        return obs["creators"]

    def oracle(self, case, obs):
        if not obs["uncached_ok"]:
            return (f"memo|{case['target']}|differs-from-uncached", "a cached value does not behave like an uncached call with the same arguments")
        if obs["size"] > case["cap"]:
            return (f"memo|{case['target']}|over-capacity", f"{obs['size']} entries > maxsize {case['cap']}")
        return None

    def nontrivial(self, case, obs):
        c = obs["creators"]
        hit_on_distinct = any(c[i] != i and case["hist"][i] != case["hist"][c[i]] for i in range(len(c)))
        return hit_on_distinct or len(set(c)) > case["cap"]

    def tags(self, case, obs):
        c = obs["creators"]
        return [case["target"], "hits" if any(c[i] != i for i in range(len(c))) else "no-hits"]


# ---- purity stream ----------------------------------------------------------------------------
def snapshot(v, depth=0):
    """Type-exact deep snapshot (1, 1.0 and True differ; dict order kept)."""
    if depth > 12:
        return "<deep>"
    if isinstance(v, dict):
        return ["dict", [[snapshot(k, depth + 1), snapshot(x, depth + 1)] for k, x in v.items()]]
    if isinstance(v, (list, tuple)):
        return [type(v).__name__, [snapshot(x, depth + 1) for x in v]]
    return [type(v).__name__, repr(v)]


def dump_tree(obj, seen=None, depth=0):
    """Structural dump of a parsed template: class names and scalar attributes of everything reachable from
    template.nodes through liquid's own classes and built-in containers."""
    if seen is None:
        seen = set()
    if depth > 40:
        return "<deep>"
    if obj is None or isinstance(obj, (str, int, float, bool, bytes)):
        return repr(obj)
    if isinstance(obj, (list, tuple)):
        return [type(obj).__name__] + [dump_tree(x, seen, depth + 1) for x in obj]
    if isinstance(obj, dict):
        return ["dict"] + [[repr(k), dump_tree(x, seen, depth + 1)] for k, x in obj.items()]
    if isinstance(obj, (set, frozenset)):
        return [type(obj).__name__, sorted(repr(x) for x in obj)]
    mod = type(obj).__module__ or ""
    if not mod.startswith("liquid"):
        return "<" + type(obj).__name__ + ">"
    name = type(obj).__name__
    if name in ("Environment", "GenEnv", "BoundTemplate", "Token") or name.endswith("Loader") or id(obj) in seen:
        return "<" + name + ">"
    seen.add(id(obj))
    fields = []
    slots = []
    for klass in type(obj).__mro__:
        slots += list(getattr(klass, "__slots__", ()) or ())
    names = sorted(set(slots) | set(getattr(obj, "__dict__", {}) or {}))
    for n in names:
        if n.startswith("__") or n in ("env", "token", "tok", "parent_context"):
            continue
        try:
            val = getattr(obj, n)
        except Exception:
            continue
        if callable(val) and not isinstance(val, (list, dict)):
            continue
        fields.append([n, dump_tree(val, seen, depth + 1)])
    return [name, fields]


class PurityStream(Stream):
    name = "purity"
    has_model = False
    parallel = True

    def cases(self, ctx):
        rng = ctx.rng_for("purity")
        out = []
        for i in range(ctx.scale(400, 5000)):
            r = rng.fork(str(i))
            g = gen_program(r)
            # shared sub-objects: aliasing makes an in-place edit visible in two places
            if isinstance(g["data"].get("items"), list) and r.chance(50):
                g["data"]["b"] = g["data"]["items"]
            out.append(g)
        return out

    def impl(self, case):
        from ..impl.render import run_async

        data = copy.deepcopy(case["data"])
        if "b" in data and "items" in data and case["data"].get("b") == case["data"].get("items"):
            data["b"] = data["items"]  # keep the alias after the deep copy
        before = snapshot(data)
        res = {}

        def parse():
            env = make_env(case)
            return env, env.from_string(case["source"])

        p = outcome(lambda: parse())
        if "err" in p:
            return {"parse": p["err"], "data_same": True, "tree_same": True, "again_same": True, "ok": False}
        env, tpl = p["ok"]
        tree0 = json.dumps(dump_tree(tpl.nodes), default=repr)
        o1 = outcome(lambda: tpl.render(**data))
        d1 = snapshot(data) == before
        t1 = json.dumps(dump_tree(tpl.nodes), default=repr) == tree0
        o2 = outcome(lambda: run_async(lambda: tpl.render_async(**data)))
        d2 = snapshot(data) == before
        t2 = json.dumps(dump_tree(tpl.nodes), default=repr) == tree0
        o3 = outcome(lambda: tpl.render(**data))
        res = {
            "parse": "ok",
            "data_same": d1 and d2,
            "tree_same": t1 and t2,
            "again_same": _same(o1, o3),
            "ok": "ok" in o1,
            "nonempty": bool(o1.get("ok")),
            "first": o1 if not _same(o1, o3) else None,
            "third": o3 if not _same(o1, o3) else None,
        }
        return res

    def oracle(self, case, obs):
        if not obs["data_same"]:
            return ("purity|data-modified", "the data passed to render() changed")
        if not obs["tree_same"]:
            return ("purity|template-modified", "the parsed template changed during a render")
        if not obs["again_same"] and "now" not in case["source"] and "today" not in case["source"]:
            return ("purity|second-render-differs", f"same template object, same data: first {obs['first']}, again {obs['third']}")
        return None

    def nontrivial(self, case, obs):
        return bool(obs.get("nonempty"))

    def tags(self, case, obs):
        return ["parse-error" if obs["parse"] != "ok" else ("ok" if obs["ok"] else "render-error")]

    def shrink_candidates(self, case):
        import re

        pieces = re.split(r"(\{%.*?%\}|\{\{.*?\}\})", case["source"], flags=re.S)
        for i in range(len(pieces)):
            if pieces[i]:
                d = dict(case)
                d["source"] = "".join(pieces[:i] + pieces[i + 1 :])
                yield d
        for k in list(case["data"]):
            d = dict(case)
            d["data"] = {a: b for a, b in case["data"].items() if a != k}
            yield d


PURITY_DATA = {
    "l": [{"a": 3, "t": "x"}, {"a": 1, "t": "y"}, {"a": 2, "t": None}],
    "nums": [3, 1, 2, 1],
    "strs": ["b", "a", "c"],
    "nested": [[2, 1], [4, 3], "z"],
    "mixed": [3, None, "a", False],
    "s": "b,a,c",
    "d": {"k": [2, 1], "a": 1},
    "n": 2,
}
PURITY_ARGS = [[], ["'a'"], ["1"], ["'a'", "1"], ["1", "2"], ["nums"], ["'x'", "'y'"], ["'c'", "'x'", "'y'", "1"]]
PURITY_TAGS = [
    "{% for i in nums reversed %}{{ i }}{% endfor %}{% for i in nums limit: 2 offset: 1 %}{{ i }}{% endfor %}",
    "{% for i in l reversed limit: 2 %}{{ i.a }}{% endfor %}{% for i in d %}{{ i[0] }}{% endfor %}",
    "{% tablerow i in nums cols: 2 %}{{ i }}{% endtablerow %}{% tablerow i in l limit: 2 %}{{ i.a }}{% endtablerow %}",
    "{% assign x = nums %}{% assign y = x | reverse %}{{ x | join: ',' }}{{ y | sort | join: ',' }}",
    "{% assign x = l | map: 'a' | sort %}{{ x | first }}{% capture c %}{{ nums | sort | reverse | join: '-' }}{% endcapture %}{{ c }}",
    "{% cycle nums[0], nums[1] %}{% case nums %}{% when l %}a{% else %}b{% endcase %}{% if nums contains 1 %}y{% endif %}",
    "{% render 'p' for nums as q %}{% render 'p' with l as q %}{% include 'p' for strs as q %}{% include 'p', q: d %}",
    "{% increment n %}{% decrement n %}{{ n }}{% assign n = 5 %}{{ n }}{% assign d = 1 %}{% assign l = nil %}{{ l }}",
    "{% liquid\n assign z = nested | first | reverse\n echo z\n for q in nested reversed\n echo q\n endfor\n%}",
]


class PurityFilterStream(Stream):
    """Every registered filter (default + extra) applied to every input shape, plus tags that walk data:
    the data passed in must be unchanged."""

    name = "purity_filters"
    has_model = False
    exhaustive = True
    parallel = True

    def cases(self, ctx):
        from liquid import Environment

        env = Environment(extra=True)
        out = []
        for name in sorted(env.filters):
            for var in PURITY_DATA:
                for args in PURITY_ARGS:
                    # applied once (an in-place edit applied twice could cancel out)
                    out.append({"tpl": "{% assign r = " + var + " | " + name + (": " + ", ".join(args) if args else "") + " %}{{ r }}", "what": "filter:" + name})
        out += [{"tpl": t, "what": "tag"} for t in PURITY_TAGS]
        return out

    def impl(self, case):
        from ..impl.render import run_async

        prog = {"extra": True, "partials": {"p": "[{{ q }}{{ q | size }}]"}, "flags": {}, "autoescape": False}
        data = copy.deepcopy(PURITY_DATA)
        data["alias"] = data["nums"]
        before = snapshot(data)
        p = outcome(lambda: make_env(prog).from_string(case["tpl"]))
        if "err" in p:
            return {"ran": False, "data_same": True, "ok": False}
        tpl = p["ok"]
        o1 = outcome(lambda: tpl.render(**data))
        same1 = snapshot(data) == before
        o2 = outcome(lambda: run_async(lambda: tpl.render_async(**data)))
        same2 = snapshot(data) == before
        return {"ran": True, "data_same": same1 and same2, "ok": "ok" in o1, "sync_async_same": _same(o1, o2)}

    def oracle(self, case, obs):
        if not obs["data_same"]:
            return (f"purity|data-modified|{case['what']}", f"{case['tpl']} changed the data passed to render()")
        return None

    def nontrivial(self, case, obs):
        return bool(obs.get("ok"))

    def tags(self, case, obs):
        return ["tag" if case["what"] == "tag" else "filter", "ok" if obs.get("ok") else "error"]

    def shrink_candidates(self, case):
        return []


# ---- loaders: the template cache of a caching loader -----------------------------------------
ABSENT = "$absent"
LOADER_NS = [ABSENT, 0, "", False, None, "x", "y", 7]
LOADER_NAMES = ["a", "b", "c"]


def _ns_text(ns):
    return None if ns == ABSENT and isinstance(ns, str) else f"{ns}"


def _tpl_key(ns, name):
    return name if (isinstance(ns, str) and ns == ABSENT) else f"{ns!r}:{name}"


def _loader_templates():
    t = {}
    for n in LOADER_NAMES:
        for ns in LOADER_NS:
            t[_tpl_key(ns, n)] = f"[{n}@{'-' if (isinstance(ns, str) and ns == ABSENT) else repr(ns)}]" + "{{ g }}"
    return t


def make_ns_loader(kind, nskey, cap, thread_safe, root=None):
    """A caching loader whose source depends on the namespace of the request (keyword argument `uid`, else the
    context global `uid`), over the three built-in caching loaders."""
    from liquid.builtin.loaders.caching_file_system_loader import CachingFileSystemLoader
    from liquid.builtin.loaders.choice_loader import CachingChoiceLoader
    from liquid.builtin.loaders.dict_loader import CachingDictLoader, DictLoader

    missing = object()

    def ns_of(context, kwargs):
        ns = kwargs.get("uid", missing)
        if ns is missing and context is not None:
            ns = context.globals.get("uid", missing)
        return ns

    class NsDict(DictLoader):
        def get_source(self, env, template_name, *, context=None, **kwargs):
            ns = ns_of(context, kwargs)
            key = template_name if ns is missing else f"{ns!r}:{template_name}"
            return super().get_source(env, key if key in self.templates else template_name, context=context, **kwargs)

        async def get_source_async(self, env, template_name, *, context=None, **kwargs):
            return self.get_source(env, template_name, context=context, **kwargs)

    class NsCachingDict(CachingDictLoader):
        def get_source(self, env, template_name, *, context=None, **kwargs):
            ns = ns_of(context, kwargs)
            key = template_name if ns is missing else f"{ns!r}:{template_name}"
            return DictLoader.get_source(self, env, key if key in self.templates else template_name, context=context, **kwargs)

        async def get_source_async(self, env, template_name, *, context=None, **kwargs):
            return self.get_source(env, template_name, context=context, **kwargs)

    kw = dict(namespace_key=nskey, capacity=cap)  # the built-in caching loaders do not expose thread_safe
    if kind == "dict":
        return NsCachingDict(_loader_templates(), **kw)
    if kind == "choice":
        return CachingChoiceLoader([NsDict({k: v for k, v in _loader_templates().items() if ":" in k}), NsDict(_loader_templates())], **kw)

    class NsFs(CachingFileSystemLoader):
        def get_source(self, env, template_name, *, context=None, **kwargs):
            ns = ns_of(context, kwargs)
            sub = "plain" if ns is missing else "ns_" + "".join(ch if ch.isalnum() else "_" for ch in repr(ns))
            return super().get_source(env, sub + "/" + template_name, context=context, **kwargs)

        async def get_source_async(self, env, template_name, *, context=None, **kwargs):
            ns = ns_of(context, kwargs)
            sub = "plain" if ns is missing else "ns_" + "".join(ch if ch.isalnum() else "_" for ch in repr(ns))
            return await super().get_source_async(env, sub + "/" + template_name, context=context, **kwargs)

    return NsFs(root, **kw)


_FS_ROOT = {"path": None, "pid": None}


def _fs_root():
    import tempfile

    if _FS_ROOT["path"] is None or _FS_ROOT["pid"] != os.getpid():
        d = tempfile.mkdtemp(prefix="c17_loaders_")
        for n in LOADER_NAMES:
            for ns in LOADER_NS:
                absent = isinstance(ns, str) and ns == ABSENT
                sub = "plain" if absent else "ns_" + "".join(ch if ch.isalnum() else "_" for ch in repr(ns))
                os.makedirs(os.path.join(d, sub), exist_ok=True)
                with open(os.path.join(d, sub, n), "w") as fh:
                    fh.write(f"[{n}@{'-' if absent else repr(ns)}]" + "{{ g }}")
        _FS_ROOT["path"], _FS_ROOT["pid"] = d, os.getpid()
        atexit.register(lambda p=d, pid=os.getpid(): __import__("shutil").rmtree(p, ignore_errors=True) if os.getpid() == pid else None)
    return _FS_ROOT["path"]


class LoaderStream(Stream):
    """A probe request to a caching loader after arbitrary earlier requests (other names, other namespaces — falsy ones
    included —, namespace given as keyword argument or as a context global, sync and async, evictions) must be served
    what a fresh loader serves; which earlier request's template object is served is compared with the Lean key model."""

    name = "loaders"
    parallel = True

    def cases(self, ctx):
        rng = ctx.rng_for("loaders")
        out = []
        for i in range(ctx.scale(300, 4000)):
            r = rng.fork(str(i))
            nskey = r.chance(80)
            reqs = []
            for _ in range(r.range(2, 9)):
                ns = r.choice(LOADER_NS) if nskey else ABSENT  # a loader without namespace_key must not be asked by namespace
                reqs.append({"name": r.choice(LOADER_NAMES), "ns": ns, "via": r.choice(["kwarg", "kwarg", "context"]),
                             "async": r.chance(30), "g": r.choice([None, "G1", "G2"])})
            kind = r.choice(["dict", "dict", "choice", "fs"])
            if kind == "fs":
                # a file-system template loaded asynchronously carries an async uptodate and is reloaded by the next
                # synchronous request (C23's subject): keep one mode per case so that hits are comparable with the model
                mode = r.chance(40)
                for q in reqs:
                    q["async"] = mode
            out.append({"kind": kind, "nskey": nskey, "cap": r.range(1, 4), "thread_safe": False, "reqs": reqs})
        return out

    @staticmethod
    def _request(env, q):
        from liquid.context import RenderContext

        from ..impl.render import run_async

        kw = {}
        absent = isinstance(q["ns"], str) and q["ns"] == ABSENT
        if not absent:
            if q["via"] == "kwarg":
                kw["uid"] = q["ns"]
            else:
                kw["context"] = RenderContext(env.from_string(""), globals={"uid": q["ns"]})
        gl = {"g": q["g"]} if q["g"] else None
        if q["async"]:
            return run_async(lambda: env.get_template_async(q["name"], globals=gl, **kw))
        return env.get_template(q["name"], globals=gl, **kw)

    def impl(self, case):
        from liquid import Environment

        root = _fs_root() if case["kind"] == "fs" else None
        nk = "uid" if case["nskey"] else ""
        env = Environment(loader=make_ns_loader(case["kind"], nk, case["cap"], case["thread_safe"], root))
        created: dict = {}
        keep = []
        creators, outs, fresh = [], [], []
        for i, q in enumerate(case["reqs"]):
            o = outcome(lambda: self._request(env, q))
            if "ok" in o:
                t = o["ok"]
                keep.append(t)
                created.setdefault(id(t), i)
                creators.append(created[id(t)])
                outs.append(outcome(lambda: t.render()))
            else:
                creators.append(-1)
                outs.append({"err": o["err"]})
            fenv = Environment(loader=make_ns_loader(case["kind"], nk, case["cap"], case["thread_safe"], root))
            f = outcome(lambda: self._request(fenv, q))
            fresh.append(outcome(lambda: f["ok"].render()) if "ok" in f else {"err": f["err"]})
        return {"creators": creators, "outs": outs, "fresh": fresh}

    def line(self, case):
        reqs = []
        for q in case["reqs"]:
            absent = isinstance(q["ns"], str) and q["ns"] == ABSENT
            reqs.append([None if absent else f"{q['ns']}", q["name"]])
        return ["c17loader", case["cap"], bool(case["nskey"]), reqs]

    def compare_view(self, case, obs):
        return obs["creators"]

    def oracle(self, case, obs):
        for i, (a, b) in enumerate(zip(obs["outs"], obs["fresh"])):
            if a != b:
                q = case["reqs"][i]
                absent = isinstance(q["ns"], str) and q["ns"] == ABSENT
                cls = "absent" if absent else ("falsy" if not q["ns"] else "truthy")
                return (f"loaders|{case['kind']}|{q['via']}|ns={cls}|differs-from-fresh-loader",
                        f"request {i} {q} is served {a} after {i} earlier requests; a fresh loader serves {b}")
        return None

    def nontrivial(self, case, obs):
        c = obs["creators"]
        return any(c[i] != i for i in range(len(c))) or len(set(c)) > case["cap"]

    def tags(self, case, obs):
        c = obs["creators"]
        t = [case["kind"], "nskey" if case["nskey"] else "no-nskey", "hits" if any(c[i] != i for i in range(len(c))) else "no-hits"]
        if any((not (isinstance(q["ns"], str) and q["ns"] == ABSENT)) and not q["ns"] for q in case["reqs"]):
            t.append("falsy-ns")
        return t

    def shrink_candidates(self, case):
        r = case["reqs"]
        for i in range(len(r)):
            d = dict(case)
            d["reqs"] = r[:i] + r[i + 1 :]
            yield d


# ---- threads: concurrent renders through one Environment ------------------------------------
class ThreadStream(Stream):
    """Several threads parse and render through one Environment at the same time (shared get_lexer / get_parser memos,
    shared tag and filter registers, one loader): every output must equal the single-threaded one."""

    name = "threads"
    has_model = False

    def cases(self, ctx):
        rng = ctx.rng_for("threads")
        out = []
        for i in range(ctx.scale(24, 200)):
            r = rng.fork(str(i))
            g = gen_program(r, n_partials=r.choice([0, 1, 2]))
            jobs = []
            for j in range(r.range(2, 5)):
                h = gen_program(r.fork(f"j{j}"), extra=g["extra"], n_partials=0)
                jobs.append({"source": h["source"] if r.chance(60) else g["source"], "data": h["data"] if r.chance(70) else g["data"]})
            out.append({"prog": {"flags": g["flags"], "extra": g["extra"], "autoescape": g["autoescape"], "partials": g["partials"]},
                        "jobs": jobs, "threads": r.choice([2, 4, 8]), "rounds": r.range(2, 5)})
        return out

    def impl(self, case):
        import threading

        from liquid.lex import get_lexer
        from liquid.parser import get_parser

        prog = dict(case["prog"], source="", data={})
        jobs = case["jobs"]

        def one(env, job):
            return outcome(lambda: env.from_string(job["source"]).render(**copy.deepcopy(job["data"])))

        ref_env = make_env(prog)
        expected = [one(ref_env, j) for j in jobs]
        get_lexer.cache_clear()
        get_parser.cache_clear()
        env = make_env(prog)
        nt = case["threads"]
        results: list = [[] for _ in range(nt)]
        barrier = threading.Barrier(nt)

        def work(t):
            barrier.wait()
            for rnd in range(case["rounds"]):
                for k in range(len(jobs)):
                    j = (k + t + rnd) % len(jobs)
                    results[t].append((j, one(env, jobs[j])))

        old = sys.getswitchinterval()
        sys.setswitchinterval(1e-6)
        try:
            ths = [threading.Thread(target=work, args=(t,)) for t in range(nt)]
            for th in ths:
                th.start()
            for th in ths:
                th.join(120)
        finally:
            sys.setswitchinterval(old)
        bad = []
        for t in range(nt):
            for j, o in results[t]:
                if not _same(o, expected[j]):
                    bad.append({"thread": t, "job": j, "got": o, "want": expected[j]})
        done = sum(len(r) for r in results)
        return {"bad": bad[:3], "n_bad": len(bad), "done": done, "expected_runs": nt * case["rounds"] * len(jobs),
                "ok_jobs": sum(1 for e in expected if "ok" in e)}

    def oracle(self, case, obs):
        if obs["n_bad"]:
            return ("threads|differs-from-single-threaded", f"{obs['n_bad']} of {obs['done']} concurrent renders differ, e.g. {obs['bad'][0]}")
        if obs["done"] != obs["expected_runs"]:
            return ("threads|render-did-not-finish", f"{obs['done']} of {obs['expected_runs']} renders finished")
        return None

    def nontrivial(self, case, obs):
        return obs["ok_jobs"] > 0 and any("now" not in j["source"] for j in case["jobs"])

    def tags(self, case, obs):
        return [f"threads{case['threads']}"]

    def shrink_candidates(self, case):
        for i in range(len(case["jobs"])):
            if len(case["jobs"]) > 1:
                d = dict(case)
                d["jobs"] = case["jobs"][:i] + case["jobs"][i + 1 :]
                yield d


def _same(a, b):
    if "ok" in a and "ok" in b:
        return a["ok"] == b["ok"]
    return a.get("err") == b.get("err") and "err" in a and "err" in b


def streams(ctx):
    return [MemoStream(), HistoryStream(), PurityStream(), PurityFilterStream(), LoaderStream(), ThreadStream()]
