"""C21 — tag analysis is total and raises no false alarms (liquid/analyze_tags.py, liquid/environment.py)."""
from __future__ import annotations

import itertools

from ..core import Stream

ID = "C21"
LEAN_MODULE = "LiquidVerif.Props.C21"
TRANSLATE = True
RULE = (
    "A case is (environment default|extra, list of tag names, text style); the source is one '{% name args %}' per "
    "name with fixed well-formed arguments and filler text between tags. Each case runs Environment.tokenizer, "
    "Environment.from_string (strict) and Environment.analyze_tags_from_string on the real code and lexTags / "
    "strictParses / audit on the Lean model; compared: the TAG token names, parses-or-not, and the three report key "
    "sets or the escaping exception class. Streams seq and grammar enumerate EVERY sequence up to the stated length "
    "over each alphabet (block, inner, end, inline, unknown, odd names such as '' and 'end', raw/doc/comment); "
    "valid draws structured well-formed templates from the block grammar, mutated applies 1-3 token edits to them; "
    "styles varies whitespace control and filler; innermaps passes six caller-supplied inner_tags maps; exprs gives "
    "tags malformed expressions (model audits the tokens the real lexer produced); delims uses custom delimiters and "
    "template comments; entrypoints compares the three public entry points. Non-trivial: at least two tag tokens, at least one of which opens "
    "or closes a block (so the block stack is exercised)."
)
TRUSTED_BASE = [
    "Lean 4.33 kernel; axioms subset of {propext, Classical.choice, Quot.sound}",
    "hand-written model LiquidVerif/Model/TagAudit.lean: _audit_tags over tag names, the lexer's raw/doc/comment swallowing at tag level, and the strict parser's block grammar as a push-down automaton (one frame per Tag.parse activation)",
    "tools/emitters/c21_tables.py: dumps env.tags (key, name, block, end, mode), DEFAULT_INNER_TAG_MAP and block_nesting_limit of the tree under test from a live import into Gen/C21Tables.lean; the theorems quantify over these generated tables and `consistent_*` is re-decided by the kernel on every run",
    "correspondence harness harness/props/c21.py + Driver/C21.lean (string <-> (number of 'end' prefixes, stem) conversion lives in the driver and the emitter)",
    "tag expressions are abstracted: every tag gets a fixed well-formed argument string, so 'parses' means 'the block structure is accepted'; regex matching of the lexer is trusted and sampled (token names are compared on every case)",
]
MANIFEST = {
    "technique": "Lean 4 proof (induction over token lists; simulation between the parser's frame stack and the audit's block stack) + translator-regenerated tag tables + exhaustive differential correspondence of lexer, parser grammar and audit",
    "text": "parser_names_agree_*: the tag names extracted from every Tag.parse source (parse_block/eat_block/expect/is_tag) equal the grammar model's end+inner names. strict_parse_implies_clean_any_map/superset_map_partial: the clean-report theorem for caller-supplied inner_tags maps. audit_total: for every table and every token list the audit returns (the guarded pop never fails). strict_parse_implies_clean_partial: for a consistent table every token list accepted by the restricted block grammar (= the strict parser's grammar minus two listed behaviours) is audited clean; both generated tables are proved consistent by kernel evaluation; the two excluded behaviours are kernel-checked counterexamples and known findings. lexer_output_shaped + source_strict_parse_implies_clean_partial lift this to sources (the lexer never leaves tag tokens inside a comment). unknown_reported / unknown_end_reported / unclosed_reported / unclosed_reported_count: unknown names and block tags that occur more often than their end tag always appear in the report, for every table and token list. The model (lexer at tag level, parser grammar, audit) is compared with the real code on every tag sequence up to length 5 (quick) / 6-8 (thorough) over eleven alphabets and on generated templates, in both environments.",
    "note": "Trusted: Lean kernel, the hand model of _audit_tags / lexer / parser grammar (validated exhaustively on short sequences, sampled on long ones), the table emitter, the harness. Tag expressions are fixed well-formed strings: the claim is about block structure. Two behaviours of the unchanged tree violate the false-alarm sentence and are listed known findings (break/continue outside a for block; tags inside the region a LAX-mode if/unless skips after an extraneous else).",
}
ASSUMPTIONS = [
    "for the parses-implies-clean sentence tag arguments are well-formed (fixed per tag name; stream exprs drops this for totality and reporting); sources are built from whole tags, so the lexer never sees an unterminated '{%' or '{{'",
    "caller-supplied inner_tags maps are mappings from str to lists of str",
    "strict_parse_implies_clean is proved for the restricted grammar (no bare break/continue, no extraneous-else skipping); the full statement is refuted by kernel-checked counterexamples mirrored by known findings",
]

ARGS = {
    "if": "true", "unless": "true", "elsif": "true", "case": "x", "when": "1", "for": "i in a", "tablerow": "i in a",
    "capture": "v", "assign": "v = 1", "echo": "1", "cycle": "1, 2", "increment": "c", "decrement": "c",
    "include": "'p'", "render": "'p'", "liquid": "echo 1", "#": "note", "extends": "'base'", "block": "b",
    "macro": "m", "call": "m", "with": "a: 1",
}

# (left delimiter, right delimiter, filler between tags)
STYLES = [
    ("{% ", " %}", "t"),
    ("{%- ", " -%}", " t "),
    ("{%", "%}", ""),
    ("{% ", " %}", "{{ x }}"),
    ("{%-  ", "  %}", "\n"),
]


def render(tags, style=0):
    l, r, fill = STYLES[style % len(STYLES)]
    out = [fill]
    for n in tags:
        a = ARGS.get(n, "")
        body = n + (" " + a if a else "")
        if not body and not l.endswith(" "):
            body = " "
        out.append(l + body + r + fill)
    return "".join(out)


_ENVS: dict = {}


def get_env(name: str):
    env = _ENVS.get(name)
    if env is None:
        from liquid import Environment, Mode

        env = Environment(extra=(name == "extra"), tolerance=Mode.STRICT)
        _ENVS[name] = env
    return env


def observe(envname: str, tags, style=0, inner=None, src=None, env=None):
    """Run the real lexer, strict parser and tag audit on the rendered source."""
    from liquid.exceptions import LiquidError
    from liquid.token import TOKEN_TAG

    env = env or get_env(envname)
    if src is None:
        src = render(tags, style)
    try:
        toks = [t.value for t in env.tokenizer()(src) if t.kind == TOKEN_TAG]
    except LiquidError:
        return {"tokens": "lexer-error", "parse": False, "audit": "not-run"}
    try:
        env.from_string(src)
        parse = True
    except LiquidError:
        parse = False
    except Exception as e:  # from_string promises LiquidError only (C02's business); keep the class
        parse = "EXC:" + type(e).__name__
    try:
        a = env.analyze_tags_from_string(src, inner_tags=inner) if inner is not None else env.analyze_tags_from_string(src)
        audit = {
            "unclosed": sorted(a.unclosed_tags),
            "unexpected": sorted(a.unexpected_tags),
            "unknown": sorted(a.unknown_tags),
        }
    except Exception as e:
        audit = "EXC:" + type(e).__name__
    return {"tokens": toks, "parse": parse, "audit": audit}


def _alarms(audit):
    return {(k, n) for k in ("unclosed", "unexpected", "unknown") for n in audit[k]}


def strip_junk(envname, toks):
    """Remove the tokens a tag-mode-LAX if/unless skips after an extraneous else/elsif (independent of Lean)."""
    env = get_env(envname)
    out, stack, junk, i = [], [], False, 0
    while i < len(toks):
        t = toks[i]
        top = stack[-1] if stack else None
        if top and top[0] in ("if", "unless") and top[1] and t in ("else", "elsif"):
            endt = "end" + top[0]
            while i < len(toks) and toks[i] != endt:
                i += 1
            junk = True
            continue
        if top and top[0] in ("if", "unless") and t == "else":
            top[1] = True
        tag = env.tags.get(t)
        if tag is not None and tag.block:
            stack.append([t, False])
        elif stack and t == "end" + stack[-1][0]:
            stack.pop()
        out.append(t)
        i += 1
    return out, junk


def direct_oracle(envname, obs, inner_map=None, false_alarms=True):
    """The property, stated on the implementation's observation.  `inner_map`: the caller-supplied inner-tag map
    in force (None/empty: the default); `false_alarms=False` switches sentence 2 off (maps that do not cover the
    default map make the caller, not the audit, responsible for reports on well-formed templates)."""
    from liquid.analyze_tags import DEFAULT_INNER_TAG_MAP

    inner_map = inner_map or DEFAULT_INNER_TAG_MAP

    toks, audit, parse = obs["tokens"], obs["audit"], obs["parse"]
    if toks == "lexer-error":
        return None  # outside the quantifier: the lexer rejected the source
    # sentence 1: returns a result without raising
    if isinstance(audit, str):
        kind = "stray-end" if any(t.startswith("end") for t in toks) else "other"
        return (f"raises|{audit[4:]}|{kind}", f"analyze_tags_from_string raised {audit[4:]} on tags {toks}")
    env = get_env(envname)
    # sentence 2: a source that parses in strict mode gets a clean report
    if parse is True and false_alarms:
        alarms = _alarms(audit)
        if alarms:
            stripped, junk = strip_junk(envname, toks)
            rest = alarms
            by_junk = set()
            if junk:
                o2 = observe(envname, stripped, 0)
                if not isinstance(o2["audit"], str):
                    rest = _alarms(o2["audit"])
                    by_junk = alarms - rest
            specific = sorted(a for a in rest if not (a[0] == "unexpected" and a[1] in ("break", "continue")))
            if specific:
                k, n = specific[0]
                return (f"false-alarm|{k}|{n}", f"source parses in strict mode but {n!r} is reported {k}: {audit}")
            if by_junk:
                return ("false-alarm|skipped-after-extraneous-else", f"parses in strict mode (if/unless skip extraneous else blocks) but reported {sorted(by_junk)}")
            k, n = sorted(rest)[0]
            return (f"false-alarm|{k}|{n}", f"source parses in strict mode but {n!r} is reported {k}: {audit}")
    # sentence 3a: unknown tag names are always reported
    inner = {x for v in inner_map.values() for x in v}
    ends = {t.end for t in env.tags.values() if t.block and t.end}
    unknown = set(audit["unknown"])
    for t in toks:
        if t in inner and t in unknown and not t.startswith("end"):
            return (f"inner-tag-reported-unknown|{t}", f"{t!r} is an inner tag in the inner-tag map in force yet reported unknown: {audit}")
        if t in env.tags or t in inner:
            continue
        if not t.startswith("end"):
            if t not in unknown:
                return (f"missed-unknown|{t}", f"unknown tag {t!r} is not reported: {audit}")
        elif t not in ends and t not in unknown and t[3:] not in unknown:
            return (f"missed-unknown|{t}", f"unknown end tag {t!r} is not reported (nor its start tag): {audit}")
    # sentence 3b: block tags without an end tag are always reported
    for name, tag in env.tags.items():
        if tag.block and toks.count(tag.name) > toks.count("end" + tag.name) and tag.name not in audit["unclosed"]:
            return (f"missed-unclosed|{tag.name}", f"{toks.count(tag.name)} {tag.name!r} tags, {toks.count('end' + tag.name)} end tags, not reported unclosed: {audit}")
    return None


class TagStream(Stream):
    name = "seq"
    exhaustive = True
    parallel = False

    def shrink_candidates(self, case):
        tags = case["tags"]
        for i in range(len(tags)):
            yield {**case, "tags": tags[:i] + tags[i + 1 :], "style": 0}
        if case.get("style", 0):
            yield {**case, "style": 0}

    def impl(self, case):
        return observe(case["env"], case["tags"], case.get("style", 0))

    def line(self, case):
        return ["c21", case["env"], case["tags"]]

    def canon_model(self, case, mobs):
        if isinstance(mobs, dict) and "audit" in mobs:
            a = mobs["audit"]
            if isinstance(a, dict):
                a = {k: sorted(set(v)) for k, v in a.items()}
            else:
                a = "EXC:" + a
            out = {"tokens": mobs["tokens"], "parse": mobs["parse"], "audit": a}
            if mobs.get("noskip") != mobs["parse"]:
                # the model's lexer output has tag tokens between a comment/doc TAG token and its end tag:
                # the restricted grammar's third switch would then matter (never happens for real lexer output)
                out["comment_or_doc_content_in_lexer_output"] = True
            return out
        return mobs

    def oracle(self, case, obs):
        return direct_oracle(case["env"], obs)

    def nontrivial(self, case, obs):
        toks = obs["tokens"]
        if not isinstance(toks, list) or len(toks) < 2:
            return False
        env = get_env(case["env"])
        return any(t.startswith("end") or (t in env.tags and env.tags[t].block) for t in toks)

    def tags(self, case, obs):
        t = [case["env"], f"len{min(len(case['tags']), 9)}", "parses" if obs["parse"] is True else "rejected"]
        if isinstance(obs["audit"], dict):
            t.append("clean" if not _alarms(obs["audit"]) else "reported")
        else:
            t.append("raised")
        if isinstance(obs["tokens"], list) and len(obs["tokens"]) != len(case["tags"]):
            t.append("lexer-swallowed")
        return t


# alphabets: (environment, names, quick max length, thorough max length)
ALPHABETS = [
    ("default", ["if", "else", "elsif", "endif", "for", "endfor", "break", "foo"], 5, 6),
    ("default", ["case", "when", "else", "endcase", "for", "endfor", "continue", "endfoo"], 4, 5),
    ("default", ["comment", "endcomment", "raw", "endraw", "doc", "enddoc", "if", "endif"], 4, 5),
    ("default", ["unless", "else", "endunless", "capture", "endcapture", "tablerow", "endtablerow", "ifchanged", "endifchanged", "assign"], 3, 4),
    ("default", ["", "end", "endend", "foo", "endfoo", "content", "illegal", "liquid", "#", "if", "endif"], 4, 5),
    ("default", ["if", "else", "endif", "for", "endfor", "break"], 5, 6),
    ("default", ["if", "else", "endif", "endfor"], 6, 8),
    ("default", ["case", "when", "else", "endcase", "if"], 5, 7),
    ("default", ["for", "else", "endfor"], 8, 8),
    ("extra", ["block", "endblock", "macro", "endmacro", "with", "endwith", "if", "endif"], 4, 5),
    ("extra", ["translate", "plural", "endtranslate", "for", "else", "endfor", "break", "call"], 4, 5),
    ("extra", ["extends", "block", "endblock", "translate", "plural", "endtranslate", "foo", "endfoo", "case", "when", "endcase"], 3, 4),
    ("extra", ["if", "else", "elsif", "endif", "for", "endfor", "break", "foo"], 4, 5),
    ("extra", ["block", "endblock", "translate", "plural", "endtranslate"], 5, 7),
]

DEFAULT_NAMES = [
    "if", "unless", "case", "for", "tablerow", "capture", "ifchanged", "comment", "doc", "raw",
    "else", "elsif", "when", "break", "continue", "plural",
    "endif", "endunless", "endcase", "endfor", "endtablerow", "endcapture", "endifchanged", "endcomment", "enddoc", "endraw",
    "assign", "echo", "cycle", "increment", "decrement", "include", "render", "liquid", "#",
    "content", "output", "illegal", "foo", "endfoo", "", "end",
    "extends", "block", "endblock", "macro", "endmacro", "call", "with", "endwith", "translate", "endtranslate",
]


class SeqStream(TagStream):
    name = "seq"
    parallel = True

    def cases(self, ctx):
        out = []
        for env, names, q, t in ALPHABETS:
            L = ctx.scale(q, t)
            for n in range(0, L + 1):
                for seq in itertools.product(names, repeat=n):
                    out.append({"env": env, "tags": list(seq)})
        # every registered / inner / end / odd name of either environment: all pairs (thorough: all triples of the first 32)
        for env in ("default", "extra"):
            for seq in itertools.product(DEFAULT_NAMES, repeat=2):
                out.append({"env": env, "tags": list(seq)})
            if ctx.tier == "thorough":
                for seq in itertools.product(DEFAULT_NAMES[:32], repeat=3):
                    out.append({"env": env, "tags": list(seq)})
        return out


class GrammarStream(TagStream):
    """Validates `strictParses` (and `lexTags`) against the real parser: deep nesting around
    `block_nesting_limit`, every block kind closed / unclosed / closed by the wrong tag, inner tags in every
    phase of every block."""

    name = "grammar"

    def compare_view(self, case, obs):
        return {"tokens": obs["tokens"], "parse": obs["parse"]}

    def canon_model(self, case, mobs):
        m = super().canon_model(case, mobs)
        if isinstance(m, dict) and "parse" in m:
            m.pop("audit", None)
        return m

    def cases(self, ctx):
        out = []
        blocks_d = ["if", "unless", "case", "for", "tablerow", "capture", "ifchanged"]
        blocks_x = blocks_d + ["block", "macro", "with", "translate"]
        inner = ["else", "elsif", "when", "plural", "break", "continue"]
        for env, blocks in (("default", blocks_d), ("extra", blocks_x)):
            ends = ["end" + b for b in blocks]
            # block · inner* · end  for every block, every inner-tag string up to length 3, every end tag
            for b in blocks:
                pre = ["when"] if b == "case" else []
                for n in range(0, ctx.scale(3, 4) + 1):
                    for mid in itertools.product(inner + ["assign"], repeat=n):
                        for e in (["end" + b] if n >= 3 else ends + [None]):
                            for p in ([], pre) if pre else ([],):
                                out.append({"env": env, "tags": [b] + p + list(mid) + ([e] if e else [])})
            # two nested blocks with one inner tag at each position
            for b1 in blocks:
                for b2 in blocks:
                    for i1 in inner + [None]:
                        for i2 in inner + [None]:
                            w1 = ["when"] if b1 == "case" else []
                            seq = [b1] + w1 + ([i1] if i1 else []) + [b2] + (["when"] if b2 == "case" else []) + ([i2] if i2 else []) + ["end" + b2, "end" + b1]
                            out.append({"env": env, "tags": seq})
            # nesting depth around Environment.block_nesting_limit (30)
            for k in list(range(27, 34)):
                for b in ("if", "for", "capture", "case"):
                    w = ["when"] if b == "case" else []
                    out.append({"env": env, "tags": ([b] + w) * k + ["end" + b] * k})
                mixed = [blocks[i % len(blocks)] for i in range(k)]
                mixed = [m for m in mixed if m != "translate"]
                seq = []
                for m in mixed:
                    seq += [m] + (["when"] if m == "case" else [])
                out.append({"env": env, "tags": seq + ["end" + m for m in reversed(mixed)]})
                # frames that do not count: comment tokens, case before its first when, skipped junk
                out.append({"env": env, "tags": ["if"] * (k - 1) + ["case", "endcase"] + ["endif"] * (k - 1)})
                out.append({"env": env, "tags": ["if"] * (k - 1) + ["case", "when", "endcase"] + ["endif"] * (k - 1)})
                out.append({"env": env, "tags": ["if"] * (k - 1) + ["comment", "if", "endcomment"] + ["endif"] * (k - 1)})
                out.append({"env": env, "tags": ["if"] * (k - 1) + ["if", "else", "else", "if", "if", "endif"] + ["endif"] * (k - 1)})
        return out


def gen_nodes(rng, env, depth, in_for, budget):
    """A well-formed node list (tag names) drawn from the block grammar; break/continue only inside for."""
    out = []
    inline = ["assign", "echo", "cycle", "increment", "decrement", "include", "render", "liquid", "#"]
    if env == "extra":
        inline += ["call", "extends"]
    blocks = ["if", "unless", "case", "for", "tablerow", "capture", "ifchanged", "comment", "raw", "doc"]
    if env == "extra":
        blocks += ["block", "macro", "with", "translate"]
    n = rng.range(0, 3) if depth else rng.range(1, 4)
    for _ in range(n):
        if budget[0] <= 0:
            break
        budget[0] -= 1
        r = rng.below(10)
        if r < 3 or depth >= 6:
            if in_for and rng.chance(40):
                out.append(rng.choice(["break", "continue"]))
            else:
                out.append(rng.choice(inline))
            continue
        b = rng.choice(blocks)
        sub = lambda f=in_for: gen_nodes(rng, env, depth + 1, f, budget)
        if b in ("if", "unless"):
            out.append(b)
            out += sub()
            for _ in range(rng.below(3)):
                out.append("elsif")
                out += sub()
            if rng.chance(50):
                out.append("else")
                out += sub()
            out.append("end" + b)
        elif b == "case":
            out.append(b)
            for _ in range(rng.below(4)):
                out.append(rng.choice(["when", "when", "else"]))
                out += sub()
            out.append("endcase")
        elif b == "for":
            out.append(b)
            out += sub(True)
            if rng.chance(40):
                out.append("else")
                out += sub(True)
            out.append("endfor")
        elif b == "translate":
            out.append(b)
            if rng.chance(50):
                out.append("plural")
            out.append("endtranslate")
        elif b == "comment":
            out.append(b)
            # no raw/doc openers in here: paired with a later endraw/enddoc they would swallow the endcomment
            junk = ["if", "endif", "foo", "else", "endfor", "endraw", "enddoc", "break"]
            for _ in range(rng.below(4)):
                if rng.chance(25):
                    out += ["comment", rng.choice(junk), "endcomment"]
                else:
                    out.append(rng.choice(junk))
            out.append("endcomment")
        elif b in ("raw", "doc"):
            out.append(b)
            junk = ["if", "endif", "foo", "else", "comment", "endcomment", "endfor"]
            for _ in range(rng.below(4)):
                out.append(rng.choice(junk))
            out.append("end" + b)
        else:
            out.append(b)
            out += sub()
            out.append("end" + b)
    return out


class ValidStream(TagStream):
    """Generated well-formed templates: must parse and must be reported clean."""

    name = "valid"
    exhaustive = False

    def cases(self, ctx):
        rng = ctx.rng_for("valid")
        out = []
        for i in range(ctx.scale(3000, 30000)):
            env = "extra" if i % 2 else "default"
            tags = gen_nodes(rng, env, 0, False, [rng.range(4, 60)])
            out.append({"env": env, "tags": tags, "style": rng.below(len(STYLES))})
        return out

    def oracle(self, case, obs):
        v = super().oracle(case, obs)
        if v is None and obs["parse"] is not True:
            # not a violation of C21 (nothing is claimed about sources that do not parse) but the generator
            # promises well-formed templates: surface it as a disagreement of the harness with the grammar
            return None
        return v

    def tags(self, case, obs):
        return super().tags(case, obs) + [f"style{case.get('style', 0)}", "size>=20" if len(case["tags"]) >= 20 else "size<20"]


class MutatedStream(ValidStream):
    """Well-formed templates with 1-3 token edits (delete / insert / replace / swap): mostly malformed."""

    name = "mutated"

    def cases(self, ctx):
        rng = ctx.rng_for("mutated")
        out = []
        pool = DEFAULT_NAMES
        for i in range(ctx.scale(3000, 30000)):
            env = "extra" if i % 2 else "default"
            tags = gen_nodes(rng, env, 0, False, [rng.range(3, 30)])
            for _ in range(rng.range(1, 3)):
                k = rng.below(4)
                if k == 0 and tags:
                    tags.pop(rng.below(len(tags)))
                elif k == 1:
                    tags.insert(rng.below(len(tags) + 1), rng.choice(pool))
                elif k == 2 and tags:
                    tags[rng.below(len(tags))] = rng.choice(pool)
                elif len(tags) >= 2:
                    a, b = rng.below(len(tags)), rng.below(len(tags))
                    tags[a], tags[b] = tags[b], tags[a]
            out.append({"env": env, "tags": tags, "style": rng.below(len(STYLES))})
        return out


class StyleStream(TagStream):
    """Every short sequence over a small alphabet under every text style (whitespace control, no filler,
    output statements and newlines between tags): the observation must not depend on the style."""

    name = "styles"

    def cases(self, ctx):
        names = ["if", "else", "endif", "raw", "endraw", "comment", "endcomment", "doc", "enddoc", "case", "when", "endcase", ""]
        out = []
        for n in range(0, ctx.scale(3, 4) + 1):
            for seq in itertools.product(names, repeat=n):
                for s in range(1, len(STYLES)):
                    out.append({"env": "default", "tags": list(seq), "style": s})
        return out


class EntryPointStream(MutatedStream):
    """The three public entry points — analyze_tags_from_string(source), analyze_tags(name) and
    analyze_tags_async(name) through a loader — must report the same thing for the same source, well-formed or not.
    Added after seeded change C21-2 (the async entry point handed the audit an exhausted token generator) was missed:
    the other streams call analyze_tags_from_string only."""

    name = "entrypoints"
    has_model = False

    def cases(self, ctx):
        return MutatedStream.cases(self, ctx)[: ctx.scale(600, 6000)]

    def impl(self, case):
        import asyncio

        from liquid import DictLoader, Environment, Mode

        src = render(case["tags"], case["style"])
        env = Environment(extra=(case["env"] == "extra"), tolerance=Mode.STRICT, loader=DictLoader({"t": src}))

        def view(fn):
            try:
                a = fn()
                return {k: sorted((str(n), len(v)) for n, v in getattr(a, k).items()) for k in ("all_tags", "tags", "unclosed_tags", "unexpected_tags", "unknown_tags")}
            except Exception as e:  # noqa: BLE001
                return "EXC:" + type(e).__name__

        def run_async():
            loop = asyncio.new_event_loop()
            try:
                return loop.run_until_complete(env.analyze_tags_async("t"))
            finally:
                loop.close()

        return {
            "string": view(lambda: env.analyze_tags_from_string(src, name="t")),
            "sync": view(lambda: env.analyze_tags("t")),
            "async": view(run_async),
        }

    def oracle(self, case, obs):
        for k in ("sync", "async"):
            if obs[k] != obs["string"]:
                what = "raises" if isinstance(obs[k], str) else "report-differs"
                return (f"entrypoint|{k}|{what}", f"analyze_tags{'_async' if k == 'async' else ''} differs from analyze_tags_from_string on the same source: {obs[k]} vs {obs['string']}")
        return None

    def nontrivial(self, case, obs):
        return isinstance(obs["string"], dict) and bool(obs["string"]["unclosed_tags"] or obs["string"]["unexpected_tags"] or obs["string"]["unknown_tags"])

    def tags(self, case, obs):
        return [case["env"], "alarms" if self.nontrivial(case, obs) else "clean"]


# ---- caller-supplied inner-tag maps ------------------------------------------------------------------------
INNER_MAPS = {
    "empty": {},  # falsy: analyze_tags falls back to DEFAULT_INNER_TAG_MAP
    "default-reordered": {"translate": ["plural"], "unless": ["elsif", "else"], "case": ["else", "when"], "if": ["elsif", "else"], "for": ["else", "continue", "break"]},
    "superset": {"for": ["break", "continue", "else", "foo"], "if": ["else", "elsif", "field"], "case": ["when", "else"], "unless": ["else", "elsif"], "translate": ["plural"], "form": ["field", "else"]},
    "if-without-else": {"for": ["break", "continue", "else"], "if": ["elsif"], "case": ["when", "else"], "unless": ["else", "elsif"], "translate": ["plural"]},
    "only-if": {"if": ["else"]},
    "custom-block": {"form": ["field"], "if": ["else", "elsif"]},
}


def covers_default(m) -> bool:
    from liquid.analyze_tags import DEFAULT_INNER_TAG_MAP

    m = m or DEFAULT_INNER_TAG_MAP
    return all(x in m.get(b, ()) for b, v in DEFAULT_INNER_TAG_MAP.items() for x in v)


class InnerMapStream(TagStream):
    """analyze_tags_from_string(source, inner_tags=m) for caller-supplied maps: empty (falls back to the default),
    the default reordered, a superset, maps that drop entries, maps with a custom block.  Model: `withInner`."""

    name = "innermaps"

    def cases(self, ctx):
        names = ["if", "else", "elsif", "endif", "for", "break", "endfor", "form", "field", "endform", "foo"]
        out = []
        for mname in INNER_MAPS:
            for n in range(0, ctx.scale(3, 4) + 1):
                for seq in itertools.product(names, repeat=n):
                    out.append({"env": "default", "map": mname, "tags": list(seq)})
        for mname in INNER_MAPS:
            for seq in itertools.product(["translate", "plural", "endtranslate", "if", "else", "endif"], repeat=3):
                out.append({"env": "extra", "map": mname, "tags": list(seq)})
        return out

    def impl(self, case):
        return observe(case["env"], case["tags"], 0, inner=INNER_MAPS[case["map"]])

    def line(self, case):
        return ["c21inner", case["env"], [[k, list(v)] for k, v in INNER_MAPS[case["map"]].items()], case["tags"]]

    def oracle(self, case, obs):
        m = INNER_MAPS[case["map"]]
        return direct_oracle(case["env"], obs, inner_map=m, false_alarms=covers_default(m))

    def tags(self, case, obs):
        return super().tags(case, obs) + ["map:" + case["map"]]


# ---- malformed tag expressions -----------------------------------------------------------------------------
BAD_EXPRS = ["", "%", "}}", "{{", "'", '"open', "x |", "| |", "in in in", "==", "a b c", "(", "1..", "\n", "{%", "-", "x %} y {% echo", "&& ||", "\\", "é√", "{{ x }}"]


def render_exprs(tags, exprs):
    out = ["t"]
    for n, e in zip(tags, exprs):
        a = ARGS.get(n, "") if e is None else e
        out.append("{% " + n + (" " + a if a else "") + " %}t")
    return "".join(out)


class ExprStream(TagStream):
    """Tags with malformed expressions.  The audit never parses expressions, so totality and the reporting
    sentences must hold whatever they contain; the model audits the tag tokens the real lexer produced
    (an expression may hide or create tag tokens, e.g. `raw x` is no raw block, `x %} y {% echo` is two tags)."""

    name = "exprs"
    exhaustive = False

    def cases(self, ctx):
        out = []
        for env in ("default", "extra"):
            for n in DEFAULT_NAMES:
                for e in BAD_EXPRS:
                    out.append({"env": env, "tags": [n], "exprs": [e]})
                    out.append({"env": env, "tags": ["if", n, "endif"], "exprs": [None, e, e]})
        rng = ctx.rng_for("exprs")
        for i in range(ctx.scale(2000, 20000)):
            env = "extra" if i % 2 else "default"
            tags = gen_nodes(rng, env, 0, False, [rng.range(3, 30)])
            if rng.chance(50) and tags:
                tags.insert(rng.below(len(tags) + 1), rng.choice(DEFAULT_NAMES))
            exprs = [rng.choice(BAD_EXPRS) if rng.chance(45) else None for _ in tags]
            out.append({"env": env, "tags": tags, "exprs": exprs})
        return out

    def shrink_candidates(self, case):
        for i in range(len(case["tags"])):
            yield {**case, "tags": case["tags"][:i] + case["tags"][i + 1 :], "exprs": case["exprs"][:i] + case["exprs"][i + 1 :]}
        for i, e in enumerate(case["exprs"]):
            if e is not None:
                yield {**case, "exprs": case["exprs"][:i] + [None] + case["exprs"][i + 1 :]}

    def impl(self, case):
        return observe(case["env"], case["tags"], src=render_exprs(case["tags"], case["exprs"]))

    def line(self, case):
        return None

    def line_obs(self, case, obs):
        if not isinstance(obs["tokens"], list):
            return None
        return ["c21tok", case["env"], obs["tokens"]]

    def compare_view(self, case, obs):
        return {"tokens": obs["tokens"], "audit": obs["audit"]}

    def canon_model(self, case, mobs):
        m = super().canon_model(case, mobs)
        if isinstance(m, dict) and "audit" in m:
            return {"tokens": m["tokens"], "audit": m["audit"]}
        return m

    def tags(self, case, obs):
        t = [case["env"], "parses" if obs["parse"] is True else "rejected"]
        if isinstance(obs["audit"], dict):
            t.append("clean" if not _alarms(obs["audit"]) else "reported")
        else:
            t.append("raised" if obs["audit"] != "not-run" else "lexer-error")
        t.append("bad-exprs:%d" % min(3, sum(e is not None for e in case["exprs"])))
        return t


# ---- custom delimiters and template comments ---------------------------------------------------------------
DELIMS = {
    "square": dict(tag_start_string="[%", tag_end_string="%]", statement_start_string="[[", statement_end_string="]]"),
    "angle": dict(tag_start_string="<?", tag_end_string="?>", statement_start_string="<<", statement_end_string=">>"),
    "comments": dict(template_comments=True),
    "comments-custom": dict(template_comments=True, comment_start_string="/*", comment_end_string="*/", tag_start_string="<%", tag_end_string="%>"),
}
_DENVS: dict = {}


def delim_env(name):
    env = _DENVS.get(name)
    if env is None:
        from liquid import Environment, Mode

        env = Environment(tolerance=Mode.STRICT, **DELIMS[name])
        _DENVS[name] = env
    return env


def render_delims(tags, name):
    d = DELIMS[name]
    l, r = d.get("tag_start_string", "{%"), d.get("tag_end_string", "%}")
    sl, sr = d.get("statement_start_string", "{{"), d.get("statement_end_string", "}}")
    fill = "t" + sl + " x " + sr
    if d.get("template_comments"):
        fill += d.get("comment_start_string", "{#") + " note " + d.get("comment_end_string", "#}")
    out = [fill]
    for n in tags:
        a = ARGS.get(n, "")
        out.append(l + " " + n + (" " + a if a else "") + " " + r + fill)
    return "".join(out)


class DelimStream(TagStream):
    """Environments with custom tag/statement delimiters and with shorthand template comments: the tag audit
    (and the lexer's raw/doc/comment swallowing, and the parser) must behave exactly as with the defaults."""

    name = "delims"

    def cases(self, ctx):
        names = ["if", "else", "endif", "raw", "endraw", "comment", "endcomment", "doc", "enddoc", "for", "break", "endfor", "foo", "endfoo"]
        out = []
        for d in DELIMS:
            for n in range(0, ctx.scale(3, 4) + 1):
                for seq in itertools.product(names, repeat=n):
                    out.append({"env": "default", "delims": d, "tags": list(seq)})
        return out

    def impl(self, case):
        return observe("default", case["tags"], src=render_delims(case["tags"], case["delims"]), env=delim_env(case["delims"]))

    def tags(self, case, obs):
        return super().tags(case, obs) + ["delims:" + case["delims"]]


def streams(ctx):
    return [SeqStream(), GrammarStream(), StyleStream(), ValidStream(), MutatedStream(), EntryPointStream(),
            InnerMapStream(), ExprStream(), DelimStream()]
