"""Verification harness for jg-rp/liquid: Lean 4 proofs + model/implementation correspondence."""
