"""Structured random template generator shared by several properties.

`gen_program(rng, ...)` returns a JSON-able dict
    {"source": str, "partials": {name: str}, "data": {...}, "flags": {attr: bool}, "extra": bool}
built from the repo's own grammar: every built-in tag, the extra tags (extends/block, macro/call, with,
translate) when `extra`, a broad set of filters with plausible and implausible arguments, literals, paths,
ranges, logical expressions (with `not`, parentheses, ternaries when the flags allow them).
Templates are *mostly valid*; `malform(rng, src)` produces the malformed stream.
All randomness comes from the `Rng` passed in.
"""
from __future__ import annotations

NAMES = ["a", "b", "c", "x", "y", "items", "user", "n", "s", "t"]
STR_POOL = ["", "hello", "Hello World", "a,b,c", " pad ", "x<y&z>\"q'", "42", "3.5", "-7", "abc def ghi jkl", "ünï", "%(a)s 50%", "1e3"]
INT_POOL = [0, 1, 2, 3, 5, 10, -1, -3, 42, 100]
FLOAT_POOL = [0.0, 1.5, -2.25, 3.0, 0.1]

NO_ARG_FILTERS = [
    "abs", "ceil", "floor", "round", "capitalize", "downcase", "upcase", "escape", "escape_once", "lstrip", "rstrip", "strip",
    "newline_to_br", "strip_html", "strip_newlines", "url_encode", "url_decode", "base64_encode", "base64_decode",
    "base64_url_safe_encode", "base64_url_safe_decode", "squish", "first", "last", "reverse", "sort", "sort_natural", "uniq",
    "compact", "size", "join", "sum", "escapejs", "split", "default",
]
ONE_ARG_FILTERS = [
    "at_most", "at_least", "divided_by", "minus", "plus", "times", "modulo", "round", "append", "prepend", "remove", "remove_first",
    "remove_last", "split", "join", "truncate", "truncatewords", "slice", "concat", "map", "sort", "sort_natural", "uniq", "compact",
    "default", "where", "reject", "find", "find_index", "has", "sum", "date",
]
TWO_ARG_FILTERS = ["replace", "replace_first", "replace_last", "slice", "truncate", "truncatewords", "where", "reject", "find", "has"]
EXTRA_FILTERS_NOARG = ["json", "sort_numeric", "t", "gettext"]
EXTRA_FILTERS_ONEARG = ["index", "ngettext"]


def gen_value(rng, depth=0):
    k = rng.below(12 if depth < 2 else 8)
    if k == 0:
        return None
    if k == 1:
        return rng.chance(50)
    if k in (2, 3):
        return rng.choice(INT_POOL)
    if k == 4:
        return rng.choice(FLOAT_POOL)
    if k in (5, 6, 7):
        return rng.choice(STR_POOL)
    if k in (8, 9):
        return [gen_value(rng, depth + 1) for _ in range(rng.below(5))]
    if k == 10:
        return {rng.choice(["a", "b", "title", "id", "k"]): gen_value(rng, depth + 1) for _ in range(rng.below(4))}
    return [{"id": rng.choice(INT_POOL), "title": rng.choice(STR_POOL), "k": gen_value(rng, 2)} for _ in range(rng.below(4))]


def gen_data(rng):
    d = {}
    for n in NAMES:
        if rng.chance(75):
            d[n] = gen_value(rng)
    if rng.chance(70):
        d["items"] = [gen_value(rng, 1) for _ in range(rng.below(6))]
    if rng.chance(60):
        d["user"] = {"name": rng.choice(STR_POOL), "id": rng.choice(INT_POOL), "tags": [rng.choice(STR_POOL) for _ in range(rng.below(4))]}
    if rng.chance(50):
        d["n"] = rng.choice(INT_POOL)
    return d


class Gen:
    def __init__(self, rng, extra=False, flags=None, partial_names=(), max_depth=3, allow_partials=True, allow_inherit=False):
        self.r = rng
        self.extra = extra
        self.flags = flags or {}
        self.partial_names = list(partial_names)
        self.max_depth = max_depth
        self.allow_partials = allow_partials
        self.allow_inherit = allow_inherit
        self.macros: list = []
        self.loop_depth = 0

    # ---- expressions ----------------------------------------------------------------------
    def string_lit(self):
        s = self.r.choice(STR_POOL)
        if "'" in s and '"' in s:
            s = s.replace('"', "")
        q = "'" if "'" not in s else '"'
        return q + s + q

    def literal(self):
        k = self.r.below(10)
        if k < 3:
            return str(self.r.choice(INT_POOL))
        if k == 3:
            return repr(self.r.choice(FLOAT_POOL))
        if k < 7:
            return self.string_lit()
        if k == 7:
            return self.r.choice(["true", "false", "nil"])
        if k == 8:
            return self.r.choice(["empty", "blank"]) if getattr(self, "in_cond", False) else str(self.r.choice(INT_POOL))
        return f"({self.r.choice(['1', 'n', '0', 'a'])}..{self.r.choice(['3', 'n', '5', 'b'])})"

    def path(self):
        r = self.r
        root = r.choice(NAMES + (["forloop"] if self.loop_depth else []))
        if r.chance(4):
            root = r.choice(["[x]", "['a']", '["user"]', "[t]"])
        if root == "forloop":
            if self.loop_depth > 1 and r.chance(35):
                return "forloop.parentloop." + r.choice(["index", "length", "first", "parentloop.index"])
            return "forloop." + r.choice(["index", "index0", "first", "last", "length", "rindex", "rindex0"])
        segs = []
        for _ in range(r.choice([0, 0, 0, 1, 1, 2])):
            k = r.below(8)
            if k < 3:
                segs.append("." + r.choice(["name", "id", "title", "tags", "a", "b", "k", "size", "first", "last"]))
            elif k < 5:
                segs.append(f"[{r.choice([0, 1, -1, 2])}]")
            elif k == 5:
                segs.append("[" + self.r.choice(['"a"', "'title'", '"k"']) + "]")
            else:
                segs.append(f"[{r.choice(NAMES)}]")
        return root + "".join(segs)

    def primary(self):
        return self.path() if self.r.chance(60) else self.literal()

    def filter_arg(self):
        return self.primary()

    def filters(self, maxn=3):
        out = []
        for _ in range(self.r.choice([0, 0, 1, 1, 2, maxn])):
            k = self.r.below(10)
            if k < 4:
                f = self.r.choice(NO_ARG_FILTERS + (EXTRA_FILTERS_NOARG if self.extra else []))
                out.append(f)
            elif k < 8:
                f = self.r.choice(ONE_ARG_FILTERS + (EXTRA_FILTERS_ONEARG if self.extra else []))
                out.append(f"{f}: {self.filter_arg()}")
            elif k == 8:
                f = self.r.choice(TWO_ARG_FILTERS)
                out.append(f"{f}: {self.filter_arg()}, {self.filter_arg()}")
            else:
                out.append(f"default: {self.filter_arg()}, allow_false: {self.r.choice(['true', 'false', 'a'])}")
        return "".join(" | " + f for f in out)

    def filtered(self):
        e = self.primary() + self.filters()
        if self.flags.get("ternary_expressions") and self.r.chance(20):
            e += f" if {self.condition()} else {self.primary()}{self.filters(2)}"
            if self.r.chance(30):
                e += " || " + self.r.choice(["upcase", "append: 'z'", "default: 'q'"])
        return e

    def comparison(self):
        self.in_cond = True
        try:
            return self._comparison()
        finally:
            self.in_cond = False

    def _comparison(self):
        l = self.primary()
        k = self.r.below(10)
        if k < 2:
            return l
        op = self.r.choice(["==", "!=", "<", ">", "<=", ">=", "contains", "<>"])
        return f"{l} {op} {self.primary()}"

    def condition(self, depth=0):
        c = self.comparison()
        if self.flags.get("logical_not_operator") and self.r.chance(20):
            c = "not " + c
        if depth < 2 and self.r.chance(35):
            rest = self.condition(depth + 1)
            if self.flags.get("logical_parentheses") and self.r.chance(35):
                c = f"({c} {self.r.choice(['and', 'or'])} {self.comparison()})"
            c = f"{c} {self.r.choice(['and', 'or'])} {rest}"
        return c

    # ---- blocks ---------------------------------------------------------------------------
    def text(self):
        return self.r.choice(["", " ", "\n", "text ", "Hello, ", "<b>", "é ", "- ", "a b\n  c "])

    def ws(self):
        return self.r.choice(["", "", "", "-"])

    def tag(self, body):
        return "{%" + self.ws() + " " + body + " " + self.ws() + "%}"

    def output(self):
        return "{{" + self.ws() + " " + self.filtered() + " " + self.ws() + "}}"

    def block(self, depth):
        n = self.r.choice([1, 1, 2, 2, 3]) if depth < self.max_depth else 1
        return "".join(self.node(depth) for _ in range(n))

    def loop_expr(self):
        it = self.r.choice(["items", "a", "b", "(1..3)", "(n..5)", "user.tags", "s", "x", "(1..n)", "user"])
        opts = ""
        if self.r.chance(25):
            opts += f" limit:{self.r.choice(['2', '0', 'n', '1', '10'])}"
        if self.r.chance(20):
            opts += f" offset:{self.r.choice(['1', '0', 'n', 'continue', '2'])}"
        if self.r.chance(15):
            opts += " reversed"
        return it, opts

    def node(self, depth):
        r = self.r
        deep = depth >= self.max_depth
        k = r.below(100)
        if deep or k < 22:
            return self.text() + self.output()
        if k < 30:
            return self.text()
        if k < 40:
            s = self.tag("if " + self.condition()) + self.block(depth + 1)
            for _ in range(r.choice([0, 0, 1, 2])):
                s += self.tag("elsif " + self.condition()) + self.block(depth + 1)
            if r.chance(50):
                s += self.tag("else") + self.block(depth + 1)
            return s + self.tag("endif")
        if k < 44:
            s = self.tag("unless " + self.condition()) + self.block(depth + 1)
            if r.chance(30):
                s += self.tag("elsif " + self.condition()) + self.block(depth + 1)
            if r.chance(40):
                s += self.tag("else") + self.block(depth + 1)
            return s + self.tag("endunless")
        if k < 49:
            s = self.tag("case " + self.primary())
            for _ in range(r.choice([1, 2, 3])):
                ws = [self.primary() for _ in range(r.choice([1, 1, 2]))]
                s += self.tag("when " + r.choice([", ", " or "]).join(ws)) + self.block(depth + 1)
            if r.chance(50):
                s += self.tag("else") + self.block(depth + 1)
            return s + self.tag("endcase")
        if k < 60:
            it, opts = self.loop_expr()
            var = r.choice(["i", "item", "x", "a"])
            self.loop_depth += 1
            body = self.block(depth + 1)
            if r.chance(20):
                body += self.tag("if " + self.condition()) + self.tag(r.choice(["break", "continue"])) + self.tag("endif") + self.output()
            self.loop_depth -= 1
            s = self.tag(f"for {var} in {it}{opts}") + "{{ " + var + " }}" + body
            if r.chance(30):
                s += self.tag("else") + self.block(depth + 1)
            return s + self.tag("endfor")
        if k < 64:
            it, opts = self.loop_expr()
            if r.chance(50):
                opts += f" cols:{r.choice(['2', '3', 'n', '0', '1'])}"
            opts = opts.replace("offset:continue", "offset:1")
            self.loop_depth += 1
            body = self.block(depth + 1)
            self.loop_depth -= 1
            return self.tag(f"tablerow i in {it}{opts}") + "{{ i }}" + body + self.tag("endtablerow")
        if k < 70:
            return self.tag(f"assign {r.choice(NAMES)} = {self.filtered()}")
        if k < 74:
            return self.tag(f"capture {r.choice(NAMES)}") + self.block(depth + 1) + self.tag("endcapture")
        if k < 77:
            return self.tag(r.choice(["increment", "decrement"]) + " " + r.choice(["n", "c", "a"]))
        if k < 80:
            grp = r.choice(["", "", "'g': ", "a: "])
            return self.tag("cycle " + grp + ", ".join(self.primary() for _ in range(r.choice([1, 2, 3]))))
        if k < 82:
            return self.tag("echo " + self.filtered())
        if k < 84:
            return self.tag("ifchanged") + self.block(depth + 1) + self.tag("endifchanged")
        if k < 86:
            return r.choice(
                [
                    self.tag("comment") + " hidden {{ a }} " + self.tag("endcomment"),
                    self.tag("# inline comment"),
                    self.tag("raw") + " {{ raw }} {% x %} " + self.tag("endraw"),
                    self.tag("doc") + " some doc {{ a }} " + self.tag("enddoc"),
                ]
            )
        if k < 89:
            lines = [f"assign {r.choice(NAMES)} = {self.filtered()}", f"echo {self.filtered()}", f"if {self.condition()}", f"echo {self.primary()}", "endif"]
            if r.chance(30):
                lines += [f"for q in {self.loop_expr()[0]}", "echo q", "endfor"]
            return "{% liquid\n" + "\n".join("  " + l for l in lines) + "\n%}"
        if k < 96 and self.allow_partials and self.partial_names:
            name = r.choice(self.partial_names)
            kind = r.choice(["include", "render"])
            form = r.below(6)
            q = f"'{name}'"
            if form == 0:
                return self.tag(f"{kind} {q}")
            if form == 1:
                return self.tag(f"{kind} {q} with {self.primary()}" + (f" as {r.choice(['p', 'a'])}" if r.chance(50) else ""))
            if form == 2:
                return self.tag(f"{kind} {q} for {r.choice(['items', 'a', 'user.tags', '(1..3)'])}" + (f" as {r.choice(['p', 'a'])}" if r.chance(50) else ""))
            if form == 3:
                return self.tag(f"{kind} {q}, {r.choice(NAMES)}: {self.primary()}, z: {self.primary()}")
            if form == 4 and kind == "include":
                return self.tag(f"include {r.choice(['t', 's', 'a'])}")
            return self.tag(f"{kind} {q}")
        if self.extra:
            j = r.below(4)
            if j == 0:
                args = ", ".join(f"{r.choice(['p', 'q', 'a'])}: {self.primary()}" for _ in range(r.choice([1, 2])))
                return self.tag("with " + args) + self.block(depth + 1) + self.tag("endwith")
            if j == 1:
                name = "m" + str(len(self.macros))
                self.macros.append(name)
                params = r.choice(["", "p", "p, q: 'dflt'", "a: 1, b"])
                return self.tag(f"macro {name} {params}".rstrip()) + "{{ p }}{{ q }}{{ args | size }}" + self.block(depth + 1) + self.tag("endmacro")
            if j == 2 and self.macros:
                args = r.choice(["", self.primary(), f"{self.primary()}, q: {self.primary()}", f"zz: {self.primary()}", f"{self.primary()}, {self.primary()}, {self.primary()}"])
                return self.tag(f"call {r.choice(self.macros)} {args}".rstrip())
            if j == 3:
                vs = r.choice(["", ", you: a", ", count: n", ", context: 'c', you: b"])
                body = r.choice(["Hello, {{ you }}!", "plain text", "{{ a }} thing"])
                s = self.tag("translate" + vs) + body
                if "count" in vs and r.chance(70):
                    s += self.tag("plural") + r.choice(["Hello, all {{ count }}!", "many {{ a }}"])
                return s + self.tag("endtranslate")
        return self.text() + self.output()


FLAG_NAMES = [
    "suppress_blank_control_flow_blocks", "shorthand_indexes", "string_sequences", "string_first_and_last",
    "logical_not_operator", "logical_parentheses", "ternary_expressions", "keyword_assignment",
]


def gen_flags(rng):
    return {f: rng.chance(70 if f == "suppress_blank_control_flow_blocks" else 35) for f in FLAG_NAMES}


def gen_program(rng, extra=None, max_depth=3, n_partials=None, inherit=None, autoescape=None):
    extra = rng.chance(50) if extra is None else extra
    flags = gen_flags(rng)
    n_partials = rng.choice([0, 1, 2, 3]) if n_partials is None else n_partials
    pnames = [f"p{i}" for i in range(n_partials)]
    if rng.chance(30) and pnames:
        pnames[0] = "dir/" + pnames[0]
    partials = {}
    for i, pn in enumerate(pnames):
        g = Gen(rng, extra, flags, pnames[i + 1 :], max_depth=2)
        body = g.block(1)
        if rng.chance(20):
            # a bare interrupt at the top level of a partial: only meaningful (or an error) through the caller's loop
            body = body + "{% " + rng.choice(["break", "continue"]) + " %}" + g.text() + g.output()
        partials[pn] = body
    g = Gen(rng, extra, flags, pnames, max_depth=max_depth)
    src = g.block(0)
    inherit = (extra and rng.chance(25)) if inherit is None else inherit
    if inherit and extra:
        base = "HEAD{% block top %}base-top {{ a }}{% endblock %}MID{% block body %}base-body{% block inner %}in{% endblock %}{% endblock %}TAIL"
        partials["base"] = base
        gb = Gen(rng, extra, flags, [], max_depth=2)
        child = "{% extends 'base' %}" + "".join(
            "{% block " + b + " %}" + gb.block(1) + (" {{ block.super }} " if rng.chance(50) else "") + "{% endblock %}" for b in rng.sample(["top", "body", "inner"], rng.range(1, 3))
        )
        src = child + src
    data = gen_data(rng)
    if rng.chance(30):
        data["t"] = rng.choice(pnames) if pnames else "nope"
    return {
        "source": src,
        "partials": partials,
        "data": data,
        "flags": flags,
        "extra": bool(extra),
        "autoescape": bool(rng.chance(20) if autoescape is None else autoescape),
    }


def malform(rng, src: str) -> str:
    """Damage a valid source: drop/duplicate/garble a piece of markup."""
    import re

    pieces = re.split(r"(\{%.*?%\}|\{\{.*?\}\})", src, flags=re.S)
    marks = [i for i, p in enumerate(pieces) if p.startswith("{%") or p.startswith("{{")]
    if not marks:
        return src + rng.choice(["{% if %}", "{{", "{% endfor %}", "{% for %}", "{{ | }}"])
    i = rng.choice(marks)
    k = rng.below(9)
    p = pieces[i]
    if k == 0:
        pieces[i] = ""
    elif k == 1:
        pieces[i] = p + p
    elif k == 2:
        pieces[i] = p[: max(2, len(p) // 2)]
    elif k == 3:
        pieces[i] = p.replace("%}", "").replace("}}", "")
    elif k == 4:
        pieces[i] = rng.choice(["{% else %}", "{% endif %}", "{% break %}", "{% when 1 %}", "{% endfor %}", "{% elsif a %}", "{% nosuchtag %}", "{% endblock %}"])
    elif k == 5:
        pieces[i] = re.sub(r"\w+", lambda m: rng.choice([m.group(0), "", "|", "==", ".."]), p, count=2)
    elif k == 6:
        pieces[i] = p[:2] + " " + rng.choice(["| |", "a..b", "a b c", "1 2", "'unterminated", "a[", "a.", ": :", "(", "a | nosuchfilter"]) + " " + p[-2:]
    elif k == 7:
        pieces.insert(i, rng.choice(["{{", "{%", "%}", "}}", "{% raw %}", "{% comment %}"]))
    else:
        j = rng.choice(marks)
        pieces[i], pieces[j] = pieces[j], pieces[i]
    return "".join(pieces)
