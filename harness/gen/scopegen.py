"""Random scope programs (see scopeprog.py for the AST): every binding construct, in every nesting order, over a small
name pool, with render arguments / front matter / template globals / environment globals populated independently,
and reads (paths of length 1..4) everywhere."""
from __future__ import annotations

NAMES = ["a", "b", "c"]
ODD_NAMES = ["now", "today", "partial", "forloop", "size", "args"]
KEYS = ["k", "m", "size", "first", "last", "x y", "0"]
PARTIALS = ["p0", "p1.x", "q"]


class G:
    def __init__(self, rng, names=None, allow=None, max_depth=4):
        self.rng = rng
        self.n = 0
        self.names = names or NAMES
        self.allow = allow
        self.max_depth = max_depth
        self.macros = []

    def marker(self, tag):
        self.n += 1
        return f"{tag}{self.n}"

    def name(self):
        r = self.rng
        if r.chance(12):
            return r.choice(ODD_NAMES)
        return r.choice(self.names)

    def leaf(self):
        r = self.rng
        k = r.below(10)
        if k < 4:
            return self.marker("v")
        if k < 6:
            return r.range(-9, 99)
        if k == 6:
            return r.choice([True, False])
        if k == 7:
            return None
        return r.choice(["", "hey", "0", "a b"])

    def data(self, depth=2):
        r = self.rng
        if depth == 0 or r.chance(35):
            return self.leaf()
        if r.chance(50):
            return [self.data(depth - 1) for _ in range(r.range(0, 3))]
        d = {}
        for k in r.sample(KEYS, r.range(0, 3)):
            d[k] = self.data(depth - 1)
        return d

    def layer(self, p=40):
        d = {}
        for n in self.names + ODD_NAMES[:3]:
            if self.rng.chance(p if n in self.names else 8):
                d[n] = self.data() if self.rng.chance(50) else self.marker("g")
        return d

    # -- expressions
    def seg(self, depth=1):
        r = self.rng
        k = r.below(100)
        if k < 45:
            return ["n", r.choice(KEYS)]
        if k < 75:
            return ["i", r.choice([0, 1, -1, 2, -2, 5, -7])]
        if depth > 0:
            p = self.path(depth - 1, maxlen=2)
            return ["p", p[1], p[2]]
        return ["n", "k"]

    def path(self, depth=1, maxlen=4):
        r = self.rng
        head = ["n", self.name()]
        if r.chance(4) and depth > 0:
            p = self.path(0, maxlen=1)
            head = ["p", p[1], p[2]]
        ln = r.choice([1, 1, 1, 2, 2, 3, 4])
        ln = min(ln, maxlen)
        tail = [self.seg(depth) for _ in range(ln - 1)]
        if r.chance(10) and head[0] == "n" and head[1] == "forloop" or r.chance(6):
            head = ["n", "forloop"]
            tail = [["n", r.choice(["index", "index0", "first", "last", "length", "rindex", "rindex0", "name", "size"])]]
            if r.chance(30):
                tail = [["n", "parentloop"]] + tail
        if r.chance(3):
            head = ["n", "tablerowloop"]
            tail = [["n", r.choice(["col", "col0", "col_first", "col_last", "row", "index", "length", "first", "last", "size"])]]
        # a bare ForLoop drop is never copied or printed (the model keeps it as a mapping)
        if head == ["n", "forloop"] and not tail:
            tail = [["n", "index"]]
        if tail and tail[-1] == ["n", "parentloop"]:
            tail = tail + [["n", "index"]]
        return ["path", head, tail]

    def expr(self):
        r = self.rng
        if r.chance(45):
            v = self.leaf()
            return ["lit", v]
        return self.path()

    def arg(self):
        """a primitive argument that does not start with a bracket (`call f [x]` is not accepted by the parser)"""
        e = self.expr()
        if e[0] == "path" and e[1][0] == "p":
            e = ["path", ["n", self.name()], e[2]]
            if e[1] == ["n", "forloop"] and not e[2]:
                e[2].append(["n", "index"])
        return e

    def read(self):
        e = self.path()
        # never print a bare forloop drop (the model keeps it as a mapping)
        if e[1] == ["n", "forloop"] and not e[2]:
            e = ["path", ["n", "forloop"], [["n", "index"]]]
        if e[2] and e[2][-1] == ["n", "parentloop"]:
            e[2].append(["n", "index"])
        return [["out", e, self.rng.below(3)], ["text", ";"]]

    def kwargs(self, lo=0, hi=2):
        return [[self.name(), self.expr()] for _ in range(self.rng.range(lo, hi))]

    def iterable(self):
        r = self.rng
        if r.chance(70):
            p = ["path", ["n", self.name()], [self.seg(0)] if r.chance(30) else []]
        else:
            p = self.path(0, maxlen=2)
        if p[1] == ["n", "forloop"] and not p[2]:
            p = ["path", ["n", "a"], []]
        return p

    # -- statements
    def block(self, depth, partials, lo=1, hi=4):
        out = []
        for _ in range(self.rng.range(lo, hi)):
            out += self.stmt(depth, partials)
        return out

    def stmt(self, depth, partials):
        from .scopeprog import path_label

        r = self.rng
        kinds = ["read"] * 5 + ["assign"] * 3 + ["capture", "incr", "decr", "text"]
        if depth < self.max_depth:
            kinds += ["for"] * 2 + ["with"] * 2 + ["if", "capture", "tablerow"]
            if partials:
                kinds += ["include"] * 2 + ["render"] * 2
            kinds += ["macro", "call", "call"]
        if self.allow is not None:
            kinds = [k for k in kinds if k in self.allow] or ["read"]
        k = r.choice(kinds)
        if k == "read":
            return self.read()
        if k == "text":
            return [["text", self.marker("t") + ";"]]
        if k == "assign":
            return [["assign", self.name(), self.expr()]]
        if k == "capture":
            return [["capture", self.name(), self.block(depth + 1, partials, 0, 2)]]
        if k == "incr":
            return [["incr", self.name()], ["text", ";"]]
        if k == "decr":
            return [["decr", self.name()], ["text", ";"]]
        if k == "if":
            return [["if", self.expr(), self.block(depth + 1, partials, 1, 2), self.block(depth + 1, partials, 0, 2)]]
        if k == "for":
            it = self.iterable()
            if r.chance(25):
                # a literal-like iterable through a with block keeps the loop non-empty
                var = self.name()
                return [["with", [["zz", ["lit", "s"]]], [["for", var, f"{var}-zz", ["path", ["n", "zz"], []], self.block(depth + 2, partials, 1, 3), []]]]]
            var = self.name()
            return [["for", var, var + "-" + path_label(it[1], it[2]), it, self.block(depth + 1, partials, 1, 3), self.block(depth + 1, partials, 0, 1)]]
        if k == "with":
            return [["with", self.kwargs(1, 3), self.block(depth + 1, partials, 1, 3)]]
        if k == "tablerow":
            return [["tablerow", self.name(), self.iterable(), self.block(depth + 1, partials, 1, 2)]]
        if k == "include":
            name = r.choice(partials)
            bind = None
            if r.chance(45):
                bind = [self.iterable(), r.choice([None, None, self.name()])]
            return [["include", name, bind, self.kwargs(0, 2)]]
        if k == "render":
            name = r.choice(partials)
            bind = None
            if r.chance(45):
                bind = [r.chance(60), self.iterable(), r.choice([None, None, self.name()])]
            return [["render", name, bind, self.kwargs(0, 2)]]
        if k == "macro":
            mname = r.choice(["m", "f"])
            ps = []
            for p in r.sample(self.names + ["args"], r.range(0, 2)):
                ps.append([p, self.expr() if r.chance(40) else None])
            return [["macro", mname, ps, self.block(depth + 2, partials, 1, 3)]]
        if k == "call":
            return [["call", r.choice(["m", "f"]), [self.arg() for _ in range(r.range(0, 2))], self.kwargs(0, 1)]]
        raise ValueError(k)


def gen_program(rng, strict_pct=15):
    g = G(rng)
    partials = {}
    # acyclic by default: p_i may use p_j for j > i; sometimes a cycle (ends in ContextDepthError)
    names = list(PARTIALS)
    for i in reversed(range(len(names))):
        usable = names[i + 1:]
        if rng.chance(4):
            usable = names
        partials[names[i]] = g.block(2, usable, 1, 4)
    prog = {
        "main": g.block(0, names, 3, 7),
        "partials": partials,
        "args": g.layer(45),
        "matter": g.layer(30),
        "tglobals": g.layer(30),
        "eglobals": g.layer(30),
        "strict": rng.chance(strict_pct),
        "sseq": rng.chance(30),
        "sfl": rng.chance(30),
        "depth": 30 if not rng.chance(10) else rng.range(5, 9),
        "async": rng.chance(30),
    }
    return prog


def walk(nodes):
    for n in nodes:
        yield n
        t = n[0]
        for sub in {"capture": [2], "if": [2, 3], "for": [4, 5], "with": [2], "macro": [3], "block": [2], "tablerow": [3]}.get(t, []):
            yield from walk(n[sub])


def kinds_of(prog):
    ks = set()
    for body in [prog["main"]] + list(prog.get("partials", {}).values()):
        for n in walk(body):
            ks.add(n[0])
    return ks


# ---- template inheritance: extends / block around the binding constructs ----------------------------------
BLOCKS = ["b1", "b2", "b3"]


def gen_inherit(rng):
    """A leaf template that extends a base (optionally through a middle template); blocks hold reads, assigns, render /
    call / include tags; the base assigns variables around its blocks.  The leaf is the main template or is itself
    included / rendered.  `block.super` and `required` are not generated."""
    g = G(rng, max_depth=3)
    inner = ["q"]
    partials = {"q": g.block(2, [], 1, 3) + [["out", ["path", ["n", "it"], []]], ["text", ";"]]}

    def body(depth=1):
        return g.block(depth, inner, 1, 3)

    def wrap(nodes):
        k = rng.below(6)
        if k == 0:
            return [["if", ["lit", True], nodes, []]]
        if k == 1:
            v = g.name()
            return [["for", v, v + "-zz", ["path", ["n", "zz"], []], nodes, []]]
        if k == 2:
            return [["with", g.kwargs(1, 2), nodes]]
        return nodes

    # base: statements around blocks, some blocks nested in other constructs or in each other
    base = []
    names = rng.sample(BLOCKS, rng.range(1, 3))
    for i, bn in enumerate(names):
        base += g.block(1, inner, 0, 2)
        blk = [["block", bn, body()]]
        if i == 0 and len(names) > 1 and rng.chance(25):
            blk = [["block", bn, body() + [["block", names[1], body()]]]]
            names = [names[0]] + names[2:] if False else names
            base += wrap(blk)
            base += g.block(1, inner, 0, 1)
            break
        base += wrap(blk)
    base += g.block(1, inner, 0, 2)
    partials["base"] = base

    def overrides(parent_blocks):
        out = []
        for bn in parent_blocks:
            if rng.chance(70):
                out.append(["block", bn, body()])
        if rng.chance(10):
            out.append(["block", "extra", body()])
        return out

    declared = [n[1] for n in find_blocks(base)]
    parent = "base"
    if rng.chance(40):
        partials["mid"] = [["extends", "base"]] + overrides(declared) + ([["text", "MID;"]] if rng.chance(30) else [])
        parent = "mid"
    ext = [["extends", parent]]
    if rng.chance(15):
        ext = wrap(ext) if rng.chance(70) else [["capture", g.name(), ext + [["text", "C;"]]]]
    leaf = g.block(1, inner, 0, 2) + ext + overrides(declared) + ([["text", "NEVER;"]] if rng.chance(50) else [])
    # defects of the inheritance chain itself (errors)
    k = rng.below(100)
    if k < 3:
        leaf = leaf + [["block", declared[0], []], ["block", declared[0], []]]
    elif k < 6:
        partials["base"] = [["extends", "mid" if "mid" in partials else "base"]] + base
    elif k < 8:
        leaf = [n if n[0] != "extends" else ["extends", "nope"] for n in leaf]
    elif k < 10:
        leaf = leaf + [["extends", parent]]
    how = rng.below(10)
    tail = []
    for nme in rng.sample(NAMES, 2):
        tail += [["out", ["path", ["n", nme], []]], ["text", ","]]
    if how < 5:
        main = leaf
    else:
        partials["leaf"] = leaf
        if how < 7:
            main = g.block(0, [], 0, 2) + [["include", "leaf", None, g.kwargs(0, 1)]] + tail
        else:
            bind = [rng.chance(50), g.iterable(), rng.choice([None, "it"])] if rng.chance(50) else None
            main = g.block(0, [], 0, 2) + [["render", "leaf", bind, g.kwargs(0, 1)]] + tail
    empty = rng.chance(20)
    return {
        "main": main,
        "partials": partials,
        "args": {} if empty else dict(g.layer(45), zz=[g.leaf()]),
        "matter": {} if empty else g.layer(25),
        "tglobals": {} if empty else g.layer(25),
        "eglobals": {} if empty else g.layer(25),
        "strict": rng.chance(8),
        "sseq": False,
        "sfl": False,
        "depth": 30,
        "async": rng.chance(30),
    }


def find_blocks(nodes):
    out = []
    for n in nodes:
        if n[0] == "block":
            out.append(n)
        for sub in {"capture": [2], "if": [2, 3], "for": [4, 5], "with": [2], "macro": [3], "block": [2], "tablerow": [3]}.get(n[0], []):
            out += find_blocks(n[sub])
    return out
