"""Piece-level view of templates for C11 / C20 (shared by harness/props/c11.py and c20.py).

A template is a list of pieces (the JSON form of `LiquidVerif.LexDelims.Piece`):
    ["text", s]
    ["out", lw, ws1, expr, ws2, rw]                     {{- ws1 expr ws2 -}}
    ["tag", lw, ws1, name, ws2, expr, ws3, rw]           {%- ws1 name ws2 expr ws3 -%}
    ["raw"|"doc", lw1, a1, a2, rw1, body, lw2, b1, b2, rw2]
    ["sc", body, rw]                                      {# body -#}
`assemble(d, pieces)` writes the template with the delimiter strings d = [ts, te, ss, se, cs, ce]
("rewriting a template with different delimiters").  The character MARK inside the expression of a
`liquid` tag stands for the inline-comment marker of the environment (comment_start_string without "{",
or "#").  `split_source` reads a well-formed default-delimiter source back into pieces;
`collides` is the non-collision condition of the property.
"""
from __future__ import annotations

import re

DEFAULT = ["{%", "%}", "{{", "}}", "", ""]
DEFAULT_COMMENTS = ["{%", "%}", "{{", "}}", "{#", "#}"]
MARK = "\ue000"
WS = " \t\n\r\x0b\x0c"


def marker_of(d) -> str:
    m = d[4].replace("{", "")
    return m or "#"


def dash(b) -> str:
    return "-" if b else ""


def render_piece(d, p, placements=None, pos=0, protected=None):
    """Text of one piece under d.  `placements` collects (offset, delimiter string) for every delimiter
    written; `protected` collects (start, end) of raw/doc bodies."""
    ts, te, ss, se, cs, ce = d
    k = p[0]
    out = []
    n = pos

    def put(s, delim=False):
        nonlocal n
        if delim and placements is not None:
            placements.append((n, s))
        out.append(s)
        n += len(s)

    if k == "text":
        put(p[1])
    elif k == "out":
        _, lw, w1, e, w2, rw = p
        put(ss, True), put(dash(lw) + w1 + e + w2 + dash(rw)), put(se, True)
    elif k == "tag":
        _, lw, w1, name, w2, e, w3, rw = p
        put(ts, True), put(dash(lw) + w1 + name + w2 + e.replace(MARK, marker_of(d)) + w3 + dash(rw)), put(te, True)
    elif k in ("raw", "doc"):
        _, l1, a1, a2, r1, body, l2, b1, b2, r2 = p
        put(ts, True), put(dash(l1) + a1 + k + a2 + dash(r1)), put(te, True)
        b0 = n
        put(body)
        if protected is not None:
            protected.append((b0, n))
        put(ts, True), put(dash(l2) + b1 + "end" + k + b2 + dash(r2)), put(te, True)
    elif k == "sc":
        _, body, rw = p
        put(cs, True), put(body + dash(rw)), put(ce, True)
    else:
        raise ValueError(p)
    return "".join(out)


def assemble(d, pieces, placements=None, protected=None) -> str:
    out = []
    pos = 0
    for p in pieces:
        s = render_piece(d, p, placements, pos, protected)
        out.append(s)
        pos += len(s)
    return "".join(out)


def for_driver(d, pieces):
    """Pieces as sent to the Lean driver: the liquid-comment marker substituted for this d."""
    m = marker_of(d)
    return [[*p[:5], p[5].replace(MARK, m), *p[6:]] if p[0] == "tag" else p for p in pieces]


def normalize(pieces):
    """Merge adjacent text pieces, drop empty ones (the lexer cannot tell them apart)."""
    out = []
    for p in pieces:
        if p[0] == "text":
            if not p[1]:
                continue
            if out and out[-1][0] == "text":
                out[-1] = ["text", out[-1][1] + p[1]]
                continue
        out.append(list(p))
    return out


# ---- reading a default-delimiter source back into pieces -----------------------------------------
_END = {"raw": re.compile(r"\{%(-?)(\s*)endraw(\s*)(-?)%\}"), "doc": re.compile(r"\{%(-?)(\s*)enddoc(\s*)(-?)%\}")}
_TAG_INNER = re.compile(r"(-?)(\s*)(#|\w*)(\s*)(.*?)(\s*)(-?)\Z", re.S)
_OUT_INNER = re.compile(r"(-?)(\s*)(.*?)(\s*)(-?)\Z", re.S)


def split_source(src: str):
    """Pieces of a well-formed source written with the default delimiters (no shorthand comments).
    Raises ValueError when the source is not of that form.  assemble(DEFAULT, split_source(s)) == s."""
    pieces = []
    i = 0
    n = len(src)
    while i < n:
        a, b = src.find("{%", i), src.find("{{", i)
        cand = [x for x in (a, b) if x >= 0]
        if not cand:
            pieces.append(["text", src[i:]])
            break
        j = min(cand)
        if j > i:
            pieces.append(["text", src[i:j]])
        if src.startswith("{{", j):
            e = src.find("}}", j + 2)
            if e < 0:
                raise ValueError("unterminated output")
            m = _OUT_INNER.match(src[j + 2 : e])
            lw, w1, ex, w2, rw = m.groups()
            pieces.append(["out", bool(lw), w1, ex, w2, bool(rw)])
            i = e + 2
        else:
            e = src.find("%}", j + 2)
            if e < 0:
                raise ValueError("unterminated tag")
            m = _TAG_INNER.match(src[j + 2 : e])
            lw, w1, name, w2, ex, w3, rw = m.groups()
            if name in ("raw", "doc") and not ex:
                me = _END[name].search(src, e + 2)
                if me is None:
                    raise ValueError("unterminated " + name)
                pieces.append([name, bool(lw), w1, w2 + w3, bool(rw), src[e + 2 : me.start()], bool(me.group(1)), me.group(2), me.group(3), bool(me.group(4))])
                i = me.end()
            else:
                pieces.append(["tag", bool(lw), w1, name, w2, ex, w3, bool(rw)])
                i = e + 2
    pieces = normalize(pieces)
    if assemble(DEFAULT, pieces) != src:
        raise ValueError("source is not in piece form")
    return pieces


# ---- well-formedness and collisions ---------------------------------------------------------------
def _is_ws(s):
    return all(c in WS for c in s)


def piece_wf(p) -> bool:
    """The fields are what the lexer's groups would be (no dash / white-space ambiguity)."""
    k = p[0]
    if k == "text":
        return bool(p[1])
    if k == "out":
        _, lw, w1, e, w2, rw = p
        if not (_is_ws(w1) and _is_ws(w2)) or (e and (e[0] in WS or e[-1] in WS)) or (not e and w2):
            return False
        if not lw and (w1 + e + w2 + dash(rw)).startswith("-"):
            return False
        if not rw and not w2 and (w1 + e).endswith("-"):
            return False
        return MARK not in e
    if k == "tag":
        _, lw, w1, name, w2, e, w3, rw = p
        if not (_is_ws(w1) and _is_ws(w2) and _is_ws(w3)) or not re.fullmatch(r"#|\w*", name):
            return False
        if e and (e[0] in WS or e[-1] in WS):
            return False
        if not e and w3:
            return False
        if name == "" and w2:
            return False  # `\s*` before an empty name takes all the white space
        if name != "#" and e and not w2 and (e[0] == "_" or e[0].isalnum()):
            return False  # the name would swallow the expression
        if name == "" and e and (e[0] == "#" or e[0] == "_" or e[0].isalnum()):
            return False
        if not lw and (w1 + name + w2 + e + w3 + dash(rw)).startswith("-"):
            return False
        if not rw and not w3 and (w1 + name + w2 + e).endswith("-"):
            return False
        if name in ("raw", "doc", "endraw", "enddoc") and not e:
            return False
        return True
    if k in ("raw", "doc"):
        _, l1, a1, a2, r1, body, l2, b1, b2, r2 = p
        return _is_ws(a1) and _is_ws(a2) and _is_ws(b1) and _is_ws(b2)
    if k == "sc":
        _, body, rw = p
        return rw or not body.endswith("-")
    return False


def occurrences(hay: str, needle: str):
    out = []
    i = hay.find(needle)
    while i >= 0:
        out.append(i)
        i = hay.find(needle, i + 1)
    return out


def delims_ok(d) -> bool:
    ts, te, ss, se, cs, ce = d
    if not (ts and te and ss and se) or bool(cs) != bool(ce):
        return False
    ne = [x for x in d if x]
    for i, x in enumerate(ne):
        if any(c in WS for c in x):
            return False
        for j, y in enumerate(ne):
            if i != j and x in y:
                return False
    return True


def _wordch(c) -> bool:
    return c == "_" or c.isalnum()


def word_end_adjacent(d, pieces) -> bool:
    """tag_end_string starts with a word character and some tag name is written directly in front of it:
    before the fix the lexer's greedy `\\w*` name group swallowed the delimiter's first character(s)
    (finding C11 lex|word-char-tag-end|adjacent-name, fixed; the zone is inside the regular streams again and
    this predicate only names the signature should it come back)."""
    te = d[1]
    if te and te[0] == "#":
        return any(p[0] == "tag" and p[3] == "" and not p[7] and not (p[4] + p[5] + p[6]) for p in pieces)
    if not te or not _wordch(te[0]):
        return False
    for p in pieces:
        if p[0] == "tag" and not p[7] and not (p[4] + p[5] + p[6]) and p[3] != "#":
            return True
        if p[0] in ("raw", "doc"):
            if (not p[4] and not p[3]) or (not p[9] and not p[8]):
                return True
    return False


def dash_end_adjacent(d, pieces) -> bool:
    """An end delimiter that starts with '-' written directly after its start delimiter ('{{' + '-}' for an
    empty output statement): the text look-ahead `(start)(?P<rstrip>-?)` reads the delimiter's own '-' as
    white-space control.  Such a delimiter collides with the '-' syntax itself; only empty markup (a syntax
    error anyway) is affected.  Kept out of the streams, stated in ASSUMPTIONS."""
    te, se, ce = d[1], d[3], d[5]
    for p in pieces:
        if p[0] == "sc" and ce.startswith("-") and not p[1] and not p[2]:
            return True
        if p[0] == "out" and se.startswith("-") and not p[1] and not (p[2] + p[3] + p[4]) and not p[5]:
            return True
        if p[0] == "tag" and te.startswith("-") and not p[1] and not (p[2] + p[3] + p[4] + p[5] + p[6]) and not p[7]:
            return True
    return False


def collides(d, pieces) -> bool:
    """True when d collides with itself or with the template text: some delimiter string occurs in the
    assembled source anywhere except where the rewriting wrote it (raw / doc bodies may contain anything but
    their own closing tag)."""
    if not delims_ok(d):
        return True
    placements, protected = [], []
    s = assemble(d, pieces, placements, protected)
    for x in {x for x in d if x}:
        placed = {pos for pos, y in placements if y == x}
        for pos in occurrences(s, x):
            if pos in placed:
                continue
            if any(a <= pos and pos + len(x) <= b for a, b in protected):
                continue
            return True
    if dash_end_adjacent(d, pieces):
        return True
    ts = d[0]
    for a, b in protected:
        if re.search(re.escape(ts) + r"-?\s*end(raw|doc)", s[a:b]):
            return True
    # the same template must also be a template under the default delimiters' rules for text:
    # literal text is never allowed to look like the *hard-coded* '{{' / '{%' (lex.py checks for them)
    return False


# ---- delimiter generator --------------------------------------------------------------------------
PUNCT = list("{}[]()<>%#@!$^&*+=|\\/?.,:;~`'\"-_")
META = list(".^$*+?{}[]\\|()")
LETTERS = list("abxyzQZ")


def gen_delim(rng) -> str:
    n = rng.choice([1, 2, 2, 2, 3, 3, 4])
    pool = rng.choice([PUNCT, PUNCT, META, META, PUNCT + LETTERS, LETTERS + META])
    return "".join(rng.choice(pool) for _ in range(n))


SAFE = [["<%", "%>", "<<", ">>", "<#", "#>"], ["[%", "%]", "[[", "]]", "[#", "#]"], ["(%", "%)", "((", "))", "(#", "#)"], ["@@t", "t@@", "@@o", "o@@", "@@c", "c@@"]]


def gen_delims(rng, pieces_list, comments: bool, tries: int = 60):
    """A random delimiter set that collides with none of the given piece lists (falls back to a safe set)."""
    for _ in range(tries):
        d = [gen_delim(rng) for _ in range(6)]
        if rng.chance(15):
            d[rng.below(4)] = DEFAULT[rng.below(4)]  # keep one default delimiter (maybe in another role)
        if not comments:
            d[4] = d[5] = ""
        if all(not collides(d, ps) for ps in pieces_list):
            return d
    for d in SAFE:
        d = list(d) if comments else d[:4] + ["", ""]
        if all(not collides(d, ps) for ps in pieces_list):
            return d
    return None


def unwrap(x):
    """Driver answers carry non-ASCII strings as {"u": [code points]}; turn them back into str."""
    if isinstance(x, dict):
        if set(x) == {"u"} and isinstance(x["u"], list):
            return "".join(chr(c) for c in x["u"])
        return {k: unwrap(v) for k, v in x.items()}
    if isinstance(x, list):
        return [unwrap(v) for v in x]
    return x
