"""C02 value classes: the finite lattice `Cls` of Model/PyPrim.lean and concrete members of each class.

A *member* is addressed by (class name, k): k = 0 is the canonical representative, k > 0 a random member derived
from SplitMix64(k, class name) — so stream cases stay JSON (class name + integer) and replay exactly.
Membership constraints are chosen so that behaviour of every modelled primitive is uniform inside a class
(that uniformity is the stated trust of C02; stream `prim` measures it).

Values that are not JSON (huge ints, inf/nan, range, undefined) are built here, never transported.
"""
from __future__ import annotations

from ..prng import Rng

UNDEF = object()  # sentinel: "leave the variable out of the render data" (Undefined at render time)

_LETTERS = "abcdefghijklmnopqrstuvwxyz"


def _word(r, n):
    return "".join(r.choice(_LETTERS) for _ in range(n))


def _digits(r, n):
    return r.choice("123456789") + "".join(r.choice("0123456789") for _ in range(n - 1))


def _other_word(r):
    # letters only, length = 1 (mod 4), at least one of g..z (so never a float/int/nan/inf literal),
    # never "now"/"today", never parses as a date (dateutil) because of the trailing "qx"
    n = r.choice([5, 9, 13])
    return _word(r, n - 2) + "qx"


# name -> (representative, random-member function)
CLASSES: dict = {
    "none": (None, lambda r: None),
    "true": (True, lambda r: True),
    "false": (False, lambda r: False),
    # ints
    "int_zero": (0, lambda r: 0),
    "int_pos": (3, lambda r: r.range(1, 1000)),
    "int_neg": (-2, lambda r: -r.range(1, 1000)),
    "int_ts": (10**12, lambda r: r.range(10**12, 10**15)),  # a timestamp beyond year 9999; NEVER used as an allocation size
    "int_large": (2**62, lambda r: r.range(2**60, 2**63 - 1)),  # fits ssize_t; too big for any allocation, any calendar
    "int_big": (2**70, lambda r: r.range(2**64, 2**100)),  # exceeds ssize_t / C long, still converts to float
    "int_huge": (10**400, lambda r: 10 ** r.range(320, 2000) + r.below(1000)),  # float(int) overflows; str() is fine
    "int_giant": (10**4400, lambda r: 10 ** r.range(4301, 6000) + r.below(1000)),  # str(int) exceeds the digit limit
    # floats
    "float_zero": (0.0, lambda r: 0.0),
    "float_pos": (1.5, lambda r: r.range(8, 100000) / 8 + 0.0625),  # >= 1: int() lands in int_pos
    "float_neg": (-2.25, lambda r: -(r.range(8, 100000) / 8 + 0.0625)),
    "float_inf": (float("inf"), lambda r: float("inf")),
    "float_ninf": (float("-inf"), lambda r: float("-inf")),
    "float_nan": (float("nan"), lambda r: float("nan")),
    # strings
    "str_empty": ("", lambda r: ""),
    "str_int": ("42", lambda r: _digits(r, r.choice([1, 2, 3, 5]))),  # decimal digits, < 10**6: a valid timestamp
    "str_zero": ("0", lambda r: "0" * r.range(1, 6)),  # isdigit, int() is zero
    "str_negint": ("-7", lambda r: "-" + _digits(r, r.choice([1, 2, 3]))),
    "str_ts": ("1000000000000", lambda r: _digits(r, r.range(13, 15))),  # isdigit, int() lands in int_ts
    "str_bigdigits": ("2000000000000000000", lambda r: r.choice("2345678") + "".join(r.choice("0123456789") for _ in range(18))),  # isdigit, int() lands in int_large
    "str_hugeint": ("7" * 4400, lambda r: _digits(r, r.range(4301, 5000))),  # longer than MAX_STR_INT
    "str_float": ("3.5", lambda r: f"{r.range(1, 999)}.{r.range(1, 9)}5"),
    "str_exp": ("1e999", lambda r: f"{r.range(1, 9)}e{r.range(400, 5000)}"),  # float() -> inf, Decimal finite
    "str_nan": ("nan", lambda r: r.choice(["nan", "NaN", "-nan", "NAN"])),
    "str_inf": ("inf", lambda r: r.choice(["inf", "Infinity", "+inf", "INF", "iNfinity"])),  # float() -> +inf
    "str_pct": ("100%", lambda r: f"{r.range(1, 100)}%" + r.choice(["", " z" + _other_word(r), " w", "%% %"])),  # a stray % (incomplete / unsupported conversion)
    "str_fmt_d": ("%(x)d", lambda r: f"{_other_word(r)} %({r.choice(['x', 'you', 'n'])})d"),  # %-format needing a number
    "str_fmt_s": ("hello %(you)s", lambda r: f"{_other_word(r)} %({r.choice(['x', 'you', 'n'])})s"),
    "str_b64": ("aGVsbG8=", None),  # valid base64 of valid UTF-8 (set below)
    "str_b64_nonutf8": ("/w==", None),  # valid base64 of bytes that are not UTF-8
    "str_nonascii": ("\u00fcn\u00ef", lambda r: _other_word(r) + r.choice(["\u00fc", "\u00e9", "\u4e2d", "\U0001f600"])),  # encodable, not ASCII
    "str_surrogate": ("\ud800", lambda r: _other_word(r)[: r.below(4)] + r.choice(["\ud800", "\udfff", "\udc80"])),  # lone surrogate: not encodable as UTF-8
    "str_key": ("k", lambda r: "k"),  # the key every dict of list_dict / dict has (and one item of list_dict_gap lacks)
    "str_other": ("hello", _other_word),  # letters, len = 1 mod 4: never a number, date, or base64
    # containers
    "list_empty": ([], lambda r: []),
    "list_int": ([3, 1, 2], lambda r: [r.range(-50, 50) for _ in range(r.range(1, 6))]),
    "list_str": (["b", "a", "hello"], lambda r: [_other_word(r) for _ in range(r.range(1, 5))]),
    "list_numstr": (["1", "2.5"], lambda r: [r.choice([_digits(r, 2), f"{r.range(1, 99)}.5"]) for _ in range(r.range(1, 5))]),
    "list_mixed": ([1, "a", None], lambda r: r.shuffle([r.range(1, 9), _other_word(r), None])),  # not mutually comparable
    "list_dict": ([{"k": 2, "title": "b"}, {"k": 1, "title": "a"}], lambda r: [{"k": r.range(1, 99), "title": _other_word(r)} for _ in range(r.range(1, 4))]),
    "list_dict_gap": ([{"k": 1}, {"j": 2}], lambda r: [{"k": r.range(1, 9)}, {"j": r.range(1, 9)}] + [{"k": 1} for _ in range(r.below(2))]),  # key k missing somewhere
    "list_infs": ([float("inf"), float("-inf")], lambda r: r.shuffle([float("inf"), float("-inf")])),
    "list_nested": ([[1, 2], [3]], lambda r: [[r.range(1, 9) for _ in range(r.range(1, 3))] for _ in range(r.range(1, 3))]),
    "dict_empty": ({}, lambda r: {}),
    "dict": ({"k": 1, "title": "x"}, lambda r: {"k": r.range(1, 99), "title": _other_word(r)}),
    "range": (range(1, 4), lambda r: range(r.range(-5, 2), r.range(3, 9))),
    "undefined": (UNDEF, lambda r: UNDEF),
}


def _b64(r):
    import base64

    return base64.b64encode(_other_word(r).encode()).decode()


def _b64_bad(r):
    import base64

    raw = bytes([r.choice([0xFF, 0xFE, 0xC0, 0x80, 0xF8])]) + _other_word(r).encode()[: r.below(3)]
    return base64.b64encode(raw).decode()


CLASSES["str_b64"] = (CLASSES["str_b64"][0], _b64)
CLASSES["str_b64_nonutf8"] = (CLASSES["str_b64_nonutf8"][0], _b64_bad)

CLASS_NAMES = list(CLASSES)


# Hand-picked nasty members of each class ("a class is only as good as its nastiest member"): boundaries of the class,
# the shortest / longest / oddest spelling that still belongs to it.  Index 0 is always the representative.
# member(cls, k): k < FIXED_SPAN cycles through these, larger k draws a random member.
NASTY: dict = {
    "int_pos": [1, 2, 255, 1000, 10**6],
    "int_neg": [-1, -255, -(10**6)],
    "int_ts": [10**12 + 1, 10**15],
    "int_large": [2**60, 2**63 - 1],
    "int_big": [2**64, 2**100],
    "int_huge": [10**320, 10**4299],  # 10**4299 has 4300 digits: the longest int str() still prints
    "int_giant": [10**4300, 10**6000],  # 4301 digits: the shortest int str() refuses
    "float_zero": [-0.0],
    "float_pos": [0.5, 5e-324, 1e-300, 999999.5, 1.0],
    "float_neg": [-0.5, -5e-324, -999999.5, -1.0],
    "str_int": ["7", "007", "99999", "1"],
    "str_zero": ["00", "000000"],
    "str_negint": ["-1", "-007", "-999"],
    "str_ts": ["9" * 15, "1000000000001"],
    "str_bigdigits": ["2" + "0" * 18, "8" + "9" * 18, "1" + "0" * 25, "9" * 400, "9" * 4300],  # 19 … 4300 digits
    "str_hugeint": ["1" + "0" * 4300, "9" * 4301],  # 4301 characters: one more than MAX_STR_INT
    "str_float": ["0.5", "1.0", "999.95", "3.", ".5", "1e3", "1E-3"],
    "str_exp": ["1e309", "9e99999", "1E999"],
    "str_nan": ["NaN", "-nan", "+nan", "nAn"],
    "str_inf": ["Infinity", "+inf", "INF", "infinity"],
    # percent strings: every run length of '%' in front of text, a non-conversion character, and the end of the string
    "str_pct": ["%", "%%%", "100%%%", "%%%!", "%%%%%", "50% off", "%s", "%d", "%(x", "%(x)", "% (x)s", "a%%b%", "%%% sure", "%\n", "%\u00e9"],
    "str_fmt_d": ["%(x)d", "%(x)5.2f", "%(x)r", "%(x)", "%(you)s %(x)d", "%%%(x)d", "%(x)d%%%", "%(x)i %(y)x"],
    "str_fmt_s": ["%(you)s", "%%%(you)s", "%(you)s%%%", "%%(you)s", "%(a)s%(b)s", "%(you)s%", "100%%% %(you)s", "%(\u00fcn\u00ef)s", "%(you)s" * 40],
    "str_b64": ["YQ==", "aGVsbG8gd29ybGQ="],
    "str_b64_nonutf8": ["gA==", "wMA=", "/v8="],
    "str_nonascii": ["\u00e9", "\u4e2d\u6587", "\U0001f600", "e\u0301", "\u0661\u0662x", "\u2028"],
    "str_surrogate": ["\udfff", "a\udc80b", "\udc00\ud800"],
    "str_other": ["a", "hello world!", "qxqxqxqxqxqxq", "Hello", "x y z", "hello\n"],
    "list_int": [[0], [1], [-1, 10**6], [2] * 50, [3, 3, 3]],
    "list_str": [["hello"], ["a", "a"], ["hello", "Hello"]],
    "list_numstr": [["0"], ["1", "2"], ["2.5"], ["-1", "1e3"]],
    "list_mixed": [[None, 1, "a"], ["a", 1, None]],
    "list_dict": [[{"k": 1, "title": "a"}], [{"k": 1, "title": "a"}, {"k": 1, "title": "b"}], [{"k": 0, "title": ""}, {"k": -1, "title": "x"}]],
    "list_dict_gap": [[{"j": 2}, {"k": 1}], [{"k": 1}, {}]],
    "list_infs": [[float("-inf"), float("inf")], [float("inf"), 1, float("-inf")]],
    "list_nested": [[[1], [2]], [[1, [2, [3]]]], [[], [1]]],
    "dict": [{"k": 0, "title": ""}, {"k": 1, "title": "x", "z": [1, 2]}],
    "range": [range(0, 1), range(-3, 3), range(1, 1025)],
}
FIXED_SPAN = 64


def fixed_members(cls: str) -> list:
    return [CLASSES[cls][0]] + NASTY.get(cls, [])


def member(cls: str, k: int = 0):
    rep, gen = CLASSES[cls]
    fixed = fixed_members(cls)
    if k < FIXED_SPAN or gen is None:
        return fixed[k % len(fixed)]
    return gen(Rng(k, "c02/" + cls))


def classify(v) -> str:
    """Total classification of a JSON-like value (the Python twin of `classify` in Model/PyPrim.lean is by construction:
    members are generated per class; this function is used by the prim stream to check membership is well-defined)."""
    import math

    if v is UNDEF:
        return "undefined"
    if v is None:
        return "none"
    if v is True:
        return "true"
    if v is False:
        return "false"
    if isinstance(v, int):
        if v == 0:
            return "int_zero"
        if v < 0:
            return "int_neg" if v >= -(10**6) else "int_other"
        if v <= 10**6:
            return "int_pos"
        if 10**12 <= v <= 10**15:
            return "int_ts"
        if 2**60 <= v < 2**63:
            return "int_large"
        if 2**64 <= v <= 2**100:
            return "int_big"
        if v >= 10**4300:
            return "int_giant"
        if v >= 10**320:
            return "int_huge"
        return "int_other"
    if isinstance(v, float):
        if math.isnan(v):
            return "float_nan"
        if math.isinf(v):
            return "float_inf" if v > 0 else "float_ninf"
        return "float_zero" if v == 0 else ("float_pos" if v > 0 else "float_neg")
    if isinstance(v, range):
        return "range"
    if isinstance(v, dict):
        return "dict" if v else "dict_empty"
    if isinstance(v, list):
        return "list_empty" if not v else "list"
    if isinstance(v, str):
        return "str"
    return "other"
