"""Scope programs for C14 / C15: a small statement language over the binding constructs of Liquid.

One AST (JSON lists, the wire format of Driver/C14.lean) is printed to Liquid source for the real engine
(`to_source`), sent as-is to the Lean model (`model_line`) and interpreted by the independent reference
(`harness/gen/scoperef.py`).

values  : None | bool | int | str | list | dict (str keys)          (plain Python data)
seg     : ["n", name] | ["i", int] | ["p", seg, [seg…]]
expr    : ["lit", value] | ["path", seg, [seg…]]
node    : ["text", s] ["out", e] ["assign", n, e] ["capture", n, body] ["if", e, body, else]
          ["for", var, label, e, body, else] ["with", [[n, e]…], body] ["incr", n] ["decr", n]
          ["include", name, None | [e, alias|None], [[n, e]…]]
          ["render", name, None | [loop, e, alias|None], [[n, e]…]]
          ["macro", name, [[p, e|None]…], body] ["call", name, [e…], [[n, e]…]]
          ["block", name, body] ["extends", name] ["tablerow", var, e, body]
"""
from __future__ import annotations

import re

IDENT = re.compile(r"[a-zA-Z_][a-zA-Z0-9_-]*\Z")


# ---- wire encoding of values ---------------------------------------------------------------------
def enc_val(v):
    if v is None or isinstance(v, bool):
        return v
    if isinstance(v, int):
        return v if abs(v) < 2**31 else str(v)
    if isinstance(v, str):
        return {"s": v}
    if isinstance(v, tuple):
        return {"t": [enc_val(x) for x in v]}
    if isinstance(v, list):
        return {"l": [enc_val(x) for x in v]}
    if isinstance(v, dict):
        return {"d": [[k, enc_val(x)] for k, x in v.items()]}
    raise TypeError(v)


def enc_seg(s):
    if s[0] == "p":
        return ["p", enc_seg(s[1]), [enc_seg(x) for x in s[2]]]
    return s


def enc_expr(e):
    if e[0] == "lit":
        return ["lit", enc_val(e[1])]
    return ["path", enc_seg(e[1]), [enc_seg(x) for x in e[2]]]


def enc_kw(kw):
    return [[k, enc_expr(e)] for k, e in kw]


def enc_node(n):
    t = n[0]
    if t == "text" or t in ("incr", "decr"):
        return n
    if t == "out":
        return ["out", enc_expr(n[1])]
    if t == "assign":
        return ["assign", n[1], enc_expr(n[2])]
    if t == "capture":
        return ["capture", n[1], enc_nodes(n[2])]
    if t == "if":
        return ["if", enc_expr(n[1]), enc_nodes(n[2]), enc_nodes(n[3])]
    if t == "for":
        return ["for", n[1], n[2], enc_expr(n[3]), enc_nodes(n[4]), enc_nodes(n[5])]
    if t == "with":
        return ["with", enc_kw(n[1]), enc_nodes(n[2])]
    if t == "include":
        b = None if n[2] is None else [enc_expr(n[2][0]), n[2][1]]
        return ["include", n[1], b, enc_kw(n[3])]
    if t == "render":
        b = None if n[2] is None else [bool(n[2][0]), enc_expr(n[2][1]), n[2][2]]
        return ["render", n[1], b, enc_kw(n[3])]
    if t == "macro":
        return ["macro", n[1], [[p, None if e is None else enc_expr(e)] for p, e in n[2]], enc_nodes(n[3])]
    if t == "call":
        return ["call", n[1], [enc_expr(e) for e in n[2]], enc_kw(n[3])]
    if t == "block":
        return ["block", n[1], enc_nodes(n[2])]
    if t == "extends":
        return ["extends", n[1]]
    if t == "tablerow":
        return ["tablerow", n[1], enc_expr(n[2]), enc_nodes(n[3])]
    raise ValueError(n)


def enc_nodes(ns):
    return [enc_node(n) for n in ns]


def model_cfg(prog):
    return {"depth": prog.get("depth", 30), "strict": bool(prog.get("strict")), "sseq": bool(prog.get("sseq")), "sfl": bool(prog.get("sfl"))}


def model_line(prog, mains=None):
    """["scope", cfg, templates, [args, matter, tglobals, eglobals], nodes] (or "scopes" with a list of mains)"""
    tpls = [[k, enc_nodes(v)] for k, v in prog.get("partials", {}).items()]
    gl = [enc_val(prog.get(k) or {}) for k in ("args", "matter", "tglobals", "eglobals")]
    if mains is None:
        return ["scope", model_cfg(prog), tpls, gl, enc_nodes(prog["main"])]
    return ["scopes", model_cfg(prog), tpls, gl, [enc_nodes(m) for m in mains]]


# ---- printing to Liquid source -------------------------------------------------------------------
def lit_src(v):
    if v is None:
        return "nil"
    if v is True:
        return "true"
    if v is False:
        return "false"
    if isinstance(v, int):
        return str(v)
    if isinstance(v, str):
        assert "'" not in v and "\\" not in v
        return "'" + v + "'"
    raise TypeError(v)


def seg_src(s, first, quote=0):
    if s[0] == "n":
        if first:
            assert IDENT.match(s[1]), s
            return s[1]
        if IDENT.match(s[1]) and quote == 0:
            return "." + s[1]
        q = "'" if quote != 2 else '"'
        return "[" + q + s[1] + q + "]"
    if s[0] == "i":
        return "[" + str(s[1]) + "]"
    return "[" + path_src(s[1], s[2]) + "]"


def path_src(h, t, quote=0):
    return seg_src(h, True) + "".join(seg_src(s, False, quote) for s in t)


def expr_src(e, quote=0):
    if e[0] == "lit":
        return lit_src(e[1])
    return path_src(e[1], e[2], quote)


def path_label(h, t):
    """`str(Path)` — what `ForLoop.name` embeds (`Path.__str__`)."""
    out = []
    for i, s in enumerate([h] + list(t)):
        if s[0] == "p":
            out.append("[" + path_label(s[1], s[2]) + "]")
        elif s[0] == "n":
            if IDENT.match(s[1]):
                out.append(s[1] if i == 0 else "." + s[1])
            else:
                out.append("['" + s[1] + "']")
        else:
            out.append("[" + str(s[1]) + "]")
    return "".join(out)


def kw_src(kw):
    return ", ".join(f"{k}: {expr_src(e)}" for k, e in kw)


def node_src(n):
    t = n[0]
    if t == "text":
        return n[1]
    if t == "out":
        return "{{ " + expr_src(n[1], n[2] if len(n) > 2 else 0) + " }}"
    if t == "assign":
        return "{% assign " + n[1] + " = " + expr_src(n[2]) + " %}"
    if t == "capture":
        return "{% capture " + n[1] + " %}" + to_source(n[2]) + "{% endcapture %}"
    if t == "if":
        return "{% if " + expr_src(n[1]) + " %}" + to_source(n[2]) + ("{% else %}" + to_source(n[3]) if n[3] else "") + "{% endif %}"
    if t == "for":
        return "{% for " + n[1] + " in " + expr_src(n[3]) + " %}" + to_source(n[4]) + ("{% else %}" + to_source(n[5]) if n[5] else "") + "{% endfor %}"
    if t == "with":
        return "{% with " + kw_src(n[1]) + " %}" + to_source(n[2]) + "{% endwith %}"
    if t == "incr":
        return "{% increment " + n[1] + " %}"
    if t == "decr":
        return "{% decrement " + n[1] + " %}"
    if t in ("include", "render"):
        s = "{% " + t + " '" + n[1] + "'"
        if n[2] is not None:
            if t == "include":
                e, alias = n[2]
                s += " with " + expr_src(e)
            else:
                loop, e, alias = n[2]
                s += (" for " if loop else " with ") + expr_src(e)
            if alias:
                s += " as " + alias
        if n[3]:
            s += ", " + kw_src(n[3])
        return s + " %}"
    if t == "macro":
        ps = ", ".join(p if e is None else f"{p}: {expr_src(e)}" for p, e in n[2])
        return "{% macro " + n[1] + (" " + ps if ps else "") + " %}" + to_source(n[3]) + "{% endmacro %}"
    if t == "call":
        a = [expr_src(e) for e in n[2]] + [f"{k}: {expr_src(e)}" for k, e in n[3]]
        return "{% call " + n[1] + (" " + ", ".join(a) if a else "") + " %}"
    if t == "block":
        return "{% block " + n[1] + " %}" + to_source(n[2]) + "{% endblock %}"
    if t == "extends":
        return "{% extends '" + n[1] + "' %}"
    if t == "tablerow":
        return "{% tablerow " + n[1] + " in " + expr_src(n[2]) + " %}" + to_source(n[3]) + "{% endtablerow %}"
    raise ValueError(n)


def to_source(nodes):
    return "".join(node_src(n) for n in nodes)


# ---- running the real engine ---------------------------------------------------------------------
def freeze_clock():
    """`builtin["now"]` / `builtin["today"]` call `datetime.datetime.now()` / `datetime.date.today()` through the module
    reference in liquid/context.py; the harness pins that clock (the model prints the same two instants)."""
    import datetime as _dt
    import types

    import liquid.context as lc

    if getattr(lc.datetime, "_verif_frozen", False):
        return

    class _DT(_dt.datetime):
        @classmethod
        def now(cls, tz=None):
            return _dt.datetime(2001, 2, 3, 4, 5, 6, 7)

    class _D(_dt.date):
        @classmethod
        def today(cls):
            return _dt.date(2001, 2, 3)

    lc.datetime = types.SimpleNamespace(datetime=_DT, date=_D, _verif_frozen=True)


def canon_text(s: str) -> str:
    return s


def make_env(prog):
    from liquid import DictLoader, Environment, StrictUndefined, Undefined

    attrs = {"string_sequences": bool(prog.get("sseq")), "string_first_and_last": bool(prog.get("sfl")),
             "context_depth_limit": prog.get("depth", 30)}
    cls = type("ScopeEnv", (Environment,), attrs)
    loader = DictLoader({k: to_source(v) for k, v in prog.get("partials", {}).items()})
    return cls(extra=True, loader=loader, globals=dict(prog.get("eglobals") or {}),
               undefined=StrictUndefined if prog.get("strict") else Undefined)


def run_impl(prog, main=None, env=None):
    """Render on the real engine -> {"ok": text} | {"err": class name}."""
    import warnings

    try:
        freeze_clock()
        env = env or make_env(prog)
        src = to_source(prog["main"] if main is None else main)
        with warnings.catch_warnings():
            warnings.simplefilter("ignore")
            t = env.from_string(src, globals=dict(prog.get("tglobals") or {}), matter=dict(prog.get("matter") or {}))
            if prog.get("async"):
                import asyncio

                loop = asyncio.new_event_loop()
                try:
                    return {"ok": canon_text(loop.run_until_complete(t.render_async(**dict(prog.get("args") or {}))))}
                finally:
                    loop.close()
            return {"ok": canon_text(t.render(**dict(prog.get("args") or {})))}
    except RecursionError:
        return {"err": "RecursionError"}
    except Exception as e:  # error class only
        return {"err": type(e).__name__}
