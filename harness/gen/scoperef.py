"""Reference statement of C14 / C15 scoping, independent of the Lean model (the direct oracle).

The rules, as the property states them:
  * a name resolves to its innermost binding: block scopes (loop variables, `with`, include arguments and bound
    variable, the template's own `partial` flag), then assigned / captured variables, then render arguments,
    front matter, template globals, environment globals, the built-in now/today, increment/decrement counters;
  * assign and capture write the template's top-level (local) scope wherever they occur; a block scope ends
    with its block; include shares the caller's scope; render / call start from nothing but their arguments,
    bound variable and the global data, and leave nothing behind; include is refused inside them;
  * paths: `.key`, `["key"]`, `[index]` (negative from the end), `[nested.path]`, with size / first / last;
    anything missing is the undefined value.
"""
from __future__ import annotations


class Undef:
    def __repr__(self):
        return "UNDEF"

    def __str__(self):
        return ""


UNDEF = Undef()


class Clock:
    def __init__(self, s):
        self.s = s

    def __str__(self):
        return self.s


class Stop(Exception):
    def __init__(self, cls):
        self.cls = cls


class StopRenderX(Exception):
    """what `extends` raises after the base template was rendered: the rest of the current template is skipped"""


class Drop:
    def __str__(self):
        return "BlockDrop"


KIDS = {"capture": [2], "if": [2, 3], "for": [4, 5], "with": [2], "macro": [3], "block": [2], "tablerow": [3]}


def find_nodes(nodes, kind):
    """the `extends` / `block` tags of a template, outer before inner, in source order (partials are not entered)"""
    out = []
    for n in nodes:
        if n[0] == kind:
            out.append(n)
        for sub in KIDS.get(n[0], []):
            out += find_nodes(n[sub], kind)
    return out


def stem(name):
    return name.split(".")[0]


def item(obj, key, flags):
    """One path step; returns UNDEF-like `None`-wrapper `MISSING` when there is nothing there."""
    if key is UNDEF:
        key = None
    if obj is UNDEF:
        return UNDEF  # the undefined value can be indexed without error: still undefined
    isidx = isinstance(key, int)  # bool counts: True is 1
    if isinstance(obj, dict):
        if isinstance(key, str) and key in obj:
            return obj[key]
        if key == "size":
            return len(obj)
        if key == "first" and obj:
            k = next(iter(obj))
            return (k, obj[k])
        return MISSING
    if isinstance(obj, (list, tuple)):
        if key == "size":
            return len(obj)
        if key == "first":
            return obj[0] if obj else MISSING
        if key == "last":
            return obj[-1] if obj else MISSING
        if isidx and not isinstance(key, str):
            i = int(key)
            if -len(obj) <= i < len(obj):
                return obj[i]
        return MISSING
    if isinstance(obj, str):
        if key == "size":
            return len(obj)
        if key in ("first", "last"):
            if flags["sfl"] and obj:
                return obj[0] if key == "first" else obj[-1]
            return MISSING
        if isidx and flags["sseq"]:
            i = int(key)
            if -len(obj) <= i < len(obj):
                return obj[i]
        return MISSING
    return MISSING


class Missing:
    pass


MISSING = Missing()


def show(v, strict):
    if v is UNDEF:
        if strict:
            raise Stop("UndefinedError")
        return ""
    if isinstance(v, str):
        return v
    if isinstance(v, bool):
        return "true" if v else "false"
    if v is None:
        return ""
    if isinstance(v, list):
        return "".join(str(x) for x in v)
    return str(v)


class Ctx:
    def __init__(self, layers, depth=0, no_include=False):
        self.blocks = []  # innermost last
        self.locals = {}
        self.layers = layers  # list of dicts: args, matter, tglobals, eglobals (and, in a copy, the namespace first)
        self.counters = {}
        self.macros = {}
        self.loops = []
        self.depth = depth
        self.no_include = no_include
        self.iso = layers  # what an isolated copy (render, call) starts from
        self.tnodes = []  # the nodes of the template this context belongs to
        self.stacks = {}  # block name -> definitions, most derived first

    def scope_layers(self):
        """this context's whole scope, innermost first, as an overriding block sees it behind its own names"""
        return list(reversed(self.blocks)) + [self.locals] + list(self.layers) + [
            {"now": Clock("2001-02-03 04:05:06.000007"), "today": Clock("2001-02-03")}, self.counters]

    def size(self):
        return 4 + len(self.blocks)

    def lookup(self, name):
        for ns in reversed(self.blocks):
            if name in ns:
                return ns[name]
        if name in self.locals:
            return self.locals[name]
        for ns in self.layers:
            if name in ns:
                return ns[name]
        if name == "now":
            return Clock("2001-02-03 04:05:06.000007")
        if name == "today":
            return Clock("2001-02-03")
        if name in self.counters:
            return self.counters[name]
        return MISSING


class Ref:
    def __init__(self, prog):
        self.prog = prog
        self.flags = {"sseq": bool(prog.get("sseq")), "sfl": bool(prog.get("sfl"))}
        self.strict = bool(prog.get("strict"))
        self.limit = prog.get("depth", 30)
        self.partials = prog.get("partials", {})

    # -- expressions
    def seg(self, c, s):
        if s[0] == "n":
            return s[1]
        if s[0] == "i":
            return s[1]
        return self.path(c, s[1], s[2])

    def path(self, c, h, t):
        vals = [self.seg(c, h)] + [self.seg(c, s) for s in t]
        root = vals[0]
        if not isinstance(root, str):
            if root is UNDEF and self.strict:
                raise Stop("UndefinedError")
            return UNDEF
        obj = c.lookup(root)
        if obj is MISSING:
            return UNDEF
        for k in vals[1:]:
            if self.strict and (obj is UNDEF or k is UNDEF):
                raise Stop("UndefinedError")
            obj = item(obj, k, self.flags)
            if obj is MISSING:
                return UNDEF
        return obj

    def ev(self, c, e):
        if e[0] == "lit":
            return e[1]
        return self.path(c, e[1], e[2])

    # -- blocks
    def push(self, c, ns):
        if c.size() > self.limit:
            raise Stop("ContextDepthError")
        c.blocks.append(ns)

    def block(self, c, nodes, out):
        for n in nodes:
            self.node(c, n, out)

    def partial(self, c, body, out):
        self.push(c, {"partial": True})
        try:
            self.block(c, body, out)
        except StopRenderX:
            pass
        finally:
            c.blocks.pop()

    def stack_blocks(self, c, nodes):
        ext = find_nodes(nodes, "extends")
        blocks = find_nodes(nodes, "block")
        if len(ext) > 1:
            raise Stop("TemplateInheritanceError")
        names = [b[1] for b in blocks]
        if len(set(names)) != len(names):
            raise Stop("TemplateInheritanceError")
        for b in blocks:
            c.stacks.setdefault(b[1], []).append(b[2])
        return ext[0][1] if ext else None

    def items_of(self, v):
        if isinstance(v, dict):
            return [(k, x) for k, x in v.items()]
        if isinstance(v, str):
            if self.flags["sseq"]:
                return list(v)
            return [v] if v else []
        if isinstance(v, (list, tuple)):
            return list(v)
        return []

    def drop(self, name, n, i, parent):
        return {"name": name, "length": n, "index": i + 1, "index0": i, "rindex": n - i, "rindex0": n - i - 1,
                "first": i == 0, "last": i == n - 1, "parentloop": parent}

    def node(self, c, n, out):
        t = n[0]
        if t == "text":
            out.append(n[1])
        elif t == "out":
            out.append(show(self.ev(c, n[1]), self.strict))
        elif t == "assign":
            c.locals[n[1]] = self.ev(c, n[2])
        elif t == "capture":
            buf = []
            self.block(c, n[2], buf)
            c.locals[n[1]] = "".join(buf)
        elif t == "if":
            v = self.ev(c, n[1])
            if v is UNDEF and self.strict:
                raise Stop("UndefinedError")
            self.block(c, n[2] if not (v is None or v is False or v is UNDEF) else n[3], out)
        elif t == "for":
            v = self.ev(c, n[3])
            if v is UNDEF and self.strict:
                raise Stop("UndefinedError")
            items = self.items_of(v)
            if not items:
                self.block(c, n[5], out)
                return
            parent = c.loops[-1] if c.loops else UNDEF
            ns = {}
            self.push(c, ns)
            c.loops.append(None)
            try:
                for i, it in enumerate(items):
                    d = self.drop(n[2], len(items), i, parent)
                    c.loops[-1] = d
                    ns.clear()
                    ns["forloop"] = d
                    ns[n[1]] = it
                    self.block(c, n[4], out)
            finally:
                c.loops.pop()
                c.blocks.pop()
        elif t == "with":
            ns = {}
            for k, e in n[1]:
                ns[k] = self.ev(c, e)
            self.push(c, ns)
            try:
                self.block(c, n[2], out)
            finally:
                c.blocks.pop()
        elif t == "incr":
            v = c.counters.get(n[1], 0)
            c.counters[n[1]] = v + 1
            out.append(str(v))
        elif t == "decr":
            v = c.counters.get(n[1], 0) - 1
            c.counters[n[1]] = v
            out.append(str(v))
        elif t == "include":
            if c.no_include:
                raise Stop("DisabledTagError")
            if n[1] not in self.partials:
                raise Stop("TemplateNotFoundError")
            body = self.partials[n[1]]
            ns = {}
            for k, e in n[3]:
                ns[k] = self.ev(c, e)
            self.push(c, ns)
            saved = c.tnodes
            c.tnodes = body
            try:
                if n[2] is None:
                    self.partial(c, body, out)
                else:
                    e, alias = n[2]
                    v = self.ev(c, e)
                    if v is UNDEF and self.strict:
                        raise Stop("UndefinedError")
                    key = alias or stem(n[1])
                    if isinstance(v, (list, tuple)):
                        for it in v:
                            ns[key] = it
                            self.partial(c, body, out)
                    else:
                        ns[key] = v
                        self.partial(c, body, out)
            finally:
                c.tnodes = saved
                c.blocks.pop()
        elif t == "render":
            if n[1] not in self.partials:
                raise Stop("TemplateNotFoundError")
            body = self.partials[n[1]]
            ns = {}
            for k, e in n[3]:
                ns[k] = self.ev(c, e)
            if c.depth > self.limit:
                raise Stop("ContextDepthError")
            # isolated: nothing of the caller but its global data
            c2 = Ctx([ns] + c.iso, c.depth + 1, True)
            c2.tnodes = body
            if n[2] is None:
                self.partial(c2, body, out)
            else:
                loop, e, alias = n[2]
                v = self.ev(c, e)
                if loop and v is UNDEF and self.strict:
                    raise Stop("UndefinedError")
                key = alias or stem(n[1])
                if loop and isinstance(v, (list, tuple)):
                    for i, it in enumerate(v):
                        ns["forloop"] = self.drop(key, len(v), i, UNDEF)
                        ns[key] = it
                        self.partial(c2, body, out)
                else:
                    ns[key] = v
                    self.partial(c2, body, out)
        elif t == "macro":
            ps = {}
            for p, e in n[2]:
                ps[p] = e
            c.macros[n[1]] = (ps, n[3])
        elif t == "call":
            m = c.macros.get(n[1])
            if m is None:
                if self.strict:
                    raise Stop("UndefinedError")
                return
            ps, body = m
            bound = dict(ps)
            names = list(ps)
            extra = []
            for i, e in enumerate(n[2]):
                if i < len(names):
                    bound[names[i]] = e
                else:
                    extra.append(e)
            xkw = {}
            for k, e in n[3]:
                if k in ps:
                    bound[k] = e
                else:
                    xkw[k] = e
            ns = {"args": [self.ev(c, e) for e in extra], "kwargs": {k: self.ev(c, e) for k, e in xkw.items()}}
            for k, e in bound.items():
                ns[k] = UNDEF if e is None else self.ev(c, e)
            if c.depth > self.limit:
                raise Stop("ContextDepthError")
            c2 = Ctx([ns] + c.iso, c.depth + 1, True)
            c2.tnodes = c.tnodes
            self.block(c2, body, out)
        elif t == "tablerow":
            v = self.ev(c, n[2])
            if v is UNDEF and self.strict:
                raise Stop("UndefinedError")
            items = self.items_of(v)
            ns = {}
            self.push(c, ns)
            out.append('<tr class="row1">\n')
            try:
                for i, it in enumerate(items):
                    k = len(items)
                    ns.clear()
                    ns["tablerowloop"] = {"length": k, "index": i + 1, "index0": i, "rindex": k - i, "rindex0": k - i - 1,
                                          "first": i == 0, "last": i == k - 1, "col": i + 1, "col0": i,
                                          "col_first": i == 0, "col_last": i + 1 == k, "row": 1}
                    ns[n[1]] = it
                    out.append(f'<td class="col{i + 1}">')
                    self.block(c, n[3], out)
                    out.append("</td>")
            finally:
                c.blocks.pop()
            out.append("</tr>\n")
        elif t == "block":
            stack = c.stacks.get(n[1])
            if stack:
                # the most derived definition, in a scope of its own that can read everything the base template can
                if c.depth > self.limit:
                    raise Stop("ContextDepthError")
                c2 = Ctx([{"block": Drop()}] + c.scope_layers(), c.depth + 1, c.no_include)
                c2.iso = c.iso
                c2.tnodes = c.tnodes
                c2.stacks = c.stacks
                self.block(c2, stack[0], out)
            else:
                self.push(c, {"block": Drop()})
                try:
                    self.block(c, n[2], out)
                finally:
                    c.blocks.pop()
        elif t == "extends":
            parent = self.stack_blocks(c, c.tnodes)
            if parent is None:
                raise Stop("AssertionError")
            seen = set()
            base = None
            while parent is not None:
                if parent in seen:
                    raise Stop("TemplateInheritanceError")
                seen.add(parent)
                if parent not in self.partials:
                    raise Stop("TemplateNotFoundError")
                base = self.partials[parent]
                parent = self.stack_blocks(c, base)
            self.push(c, {"partial": False})
            try:
                self.block(c, base, out)
            except StopRenderX:
                pass
            finally:
                c.blocks.pop()
            c.stacks.clear()
            raise StopRenderX()
        else:
            raise ValueError(n)

    def run(self, main=None):
        p = self.prog
        c = Ctx([dict(p.get("args") or {}), dict(p.get("matter") or {}), dict(p.get("tglobals") or {}), dict(p.get("eglobals") or {})])
        out = []
        c.tnodes = p["main"] if main is None else main
        try:
            self.push(c, {"partial": False})
            try:
                self.block(c, c.tnodes, out)
            except StopRenderX:
                pass
            return {"ok": "".join(out)}
        except Stop as s:
            return {"err": s.cls}
