"""C09 child process: runs parse / render jobs on the real code, isolated from the check process.

Started by harness/impl/c09_run.py as `python c09_child.py [hi]`; one JSON job per stdin line, one JSON
result per stdout line.  `hi` raises the Python recursion limit (the parent also raises RLIMIT_STACK) so
that the depth accounting of the code can be observed without the CPython stack getting in the way.

CPU-time limits are enforced inside the child with ITIMER_VIRTUAL (robust against a loaded machine);
the parent additionally enforces a generous wall-clock limit and kills the child when that is exceeded.
"""
from __future__ import annotations

import asyncio
import json
import signal
import sys
import time


class _CpuTimeout(BaseException):
    pass


def _on_timer(signum, frame):
    raise _CpuTimeout()


def _utime() -> float:
    """user CPU seconds of this process (what ITIMER_VIRTUAL counts); system time is excluded: on a loaded machine
    page faults and allocation make it erratic"""
    import resource

    return resource.getrusage(resource.RUSAGE_SELF).ru_utime


def _depth() -> int:
    f = sys._getframe(1)
    n = 0
    while f is not None:
        n += 1
        f = f.f_back
    return n


def _classify(e: BaseException) -> str:
    """Exception class; a RecursionError anywhere in the cause/context chain wins (from_string wraps it)."""
    seen = set()
    x = e
    while x is not None and id(x) not in seen:
        seen.add(id(x))
        if isinstance(x, RecursionError):
            return "RecursionError"
        x = x.__cause__ or x.__context__
    return type(e).__name__


def _is_liquid(e: BaseException) -> bool:
    from liquid.exceptions import LiquidError

    return isinstance(e, LiquidError)


def job_render(job):
    from liquid import DictLoader, Environment, Mode
    from liquid.filter import with_context

    events = []
    st = {"max": 0, "base": None}

    @with_context
    def probe(val, *, context):
        d = _depth()
        if st["base"] is None:
            st["base"] = d
        if d > st["max"]:
            st["max"] = d
        if len(events) < job.get("max_events", 200000):
            events.append([int(val), context._copy_depth, context.scope.size(), d - st["base"]])
        else:
            st["overflow"] = True
        return ""

    class Env(Environment):
        context_depth_limit = job.get("limit", 30)
        suppress_blank_control_flow_blocks = bool(job.get("suppress_blank", True))

    mode = {"strict": Mode.STRICT, "lax": Mode.LAX, "warn": Mode.WARN}[job.get("mode", "strict")]
    env = Env(loader=DictLoader(dict(job["templates"])), tolerance=mode, extra=True)
    env.add_filter("probe", probe)
    import warnings

    warnings.simplefilter("ignore")
    t0 = _utime()
    out = "ok"
    liquid = None
    try:
        if job.get("async"):

            async def go():
                t = await env.get_template_async(job["main"])
                return await t.render_async()

            asyncio.run(go())
        else:
            env.get_template(job["main"]).render()
    except _CpuTimeout:
        raise
    except BaseException as e:  # noqa: BLE001
        out = _classify(e)
        liquid = _is_liquid(e) and out != "RecursionError"
    return {
        "out": out,
        "liquid": liquid,
        "evs": events if job.get("full", True) else None,
        "n": len(events),
        "max_frames": (st["max"] - st["base"]) if st["base"] is not None else 0,
        "abs_base": st["base"],
        "cpu_s": round(_utime() - t0, 4),
    }


MODEL_TAGS = ("if", "unless", "case", "for", "capture", "liquid", "comment", "doc", "assign", "break")


def _model_tokens(env, tokens, depth=0):
    """Real tokens -> the token alphabet of Model/ParseLoops.lean. The text of an expression that follows a
    `liquid` tag is tokenized with the tag's own tokenizer (`inner`). Returns None when that tokenizer raises."""
    from liquid.token import TOKEN_CONTENT, TOKEN_DOC, TOKEN_EXPRESSION, TOKEN_OUTPUT, TOKEN_TAG

    out = []
    prev_liquid = False
    for t in tokens:
        k = t.kind
        if k == TOKEN_TAG:
            out.append(["tag", t.value])
        elif k == TOKEN_EXPRESSION:
            inner = []
            if prev_liquid and depth < 40:
                try:
                    inner_toks = list(env.tags["liquid"]._tokenize(t.value, token=t))
                except Exception:  # noqa: BLE001
                    return None
                inner = _model_tokens(env, inner_toks, depth + 1)
                if inner is None:
                    return None
            out.append(["expr", inner])
        elif k == TOKEN_CONTENT:
            out.append("content")
        elif k == TOKEN_OUTPUT:
            out.append("output")
        elif k == "COMMENT":
            out.append("comment")
        elif k == TOKEN_DOC:
            out.append("doc")
        else:
            return None
        prev_liquid = k == TOKEN_TAG and t.value == "liquid"
    return out


def _skeleton(nodes):
    out = []
    for n in nodes:
        cn = type(n).__name__
        if cn in ("IfNode", "UnlessNode"):
            out.append("if" if cn == "IfNode" else "unless")
            out += _blk(n.consequence)
            for alt in n.alternatives:
                out += _blk(alt.block)
            if n.default is not None:
                out += _blk(n.default)
        elif cn == "CaseNode":
            out.append("case")
            for b in n.blocks:
                out += _blk(b.block if type(b).__name__ == "MultiExpressionBlockNode" else b)
        elif cn == "ForNode":
            out.append("for")
            out += _blk(n.block)
            if n.default is not None:
                out += _blk(n.default)
        elif cn == "CaptureNode":
            out.append("capture")
            out += _blk(n.block)
        elif cn == "LiquidNode":
            out.append("liquid")
            out += _blk(n.block)
        else:
            out.append(
                {
                    "CommentNode": "comment",
                    "DocNode": "doc",
                    "AssignNode": "assign",
                    "OutputNode": "output",
                    "ContentNode": "content",
                    "BreakNode": "break",
                    "IllegalNode": "illegal",
                }.get(cn, "?" + cn)
            )
    return out


def _blk(b):
    return ["("] + _skeleton(b.nodes) + [")"]


def job_parse(job):
    """Parse one source text the way `Environment._parse` does (lexer -> TokenStream -> Parser.parse).
    Observation: outcome class, CPU time, and (when `model` is set) the token list in the model's alphabet,
    the final position of the template stream and the skeleton of the tree."""
    from liquid import Environment, Mode
    from liquid.parser import get_parser
    from liquid.stream import TokenStream

    mode = {"strict": Mode.STRICT, "lax": Mode.LAX, "warn": Mode.WARN}[job.get("mode", "strict")]

    class Env(Environment):
        block_nesting_limit = job.get("block_limit", 30)

    env = Env(tolerance=mode, extra=bool(job.get("extra", False)))
    import warnings

    warnings.simplefilter("ignore")
    src = job["source"]
    if job.get("repeat"):
        src = src * int(job["repeat"])
    res = {"len": len(src)}
    t0 = _utime()
    if not job.get("model"):
        out, liquid = "ok", None
        try:
            env.from_string(src)
        except _CpuTimeout:
            raise
        except BaseException as e:  # noqa: BLE001
            out = _classify(e)
            liquid = _is_liquid(e) and out != "RecursionError"
        res.update({"out": out, "liquid": liquid, "cpu_s": round(_utime() - t0, 4)})
        return res
    try:
        tokens = list(env.tokenizer()(src))
    except _CpuTimeout:
        raise
    except BaseException as e:  # noqa: BLE001
        res.update({"out": "lexer:" + _classify(e), "liquid": _is_liquid(e), "tokens": None, "cpu_s": round(_utime() - t0, 4)})
        return res
    mtoks = _model_tokens(env, tokens)
    stream = TokenStream(iter(tokens))
    out, liquid, skel = "ok", None, None
    try:
        nodes = get_parser(env).parse(stream)
        skel = _skeleton(nodes)
    except _CpuTimeout:
        raise
    except BaseException as e:  # noqa: BLE001
        out = _classify(e)
        liquid = _is_liquid(e) and out != "RecursionError"
    res.update(
        {
            "out": out,
            "liquid": liquid,
            "tokens": mtoks,
            "ntokens": len(tokens),
            "pos": min(stream.pos, len(tokens)),
            "skeleton": skel,
            "cpu_s": round(_utime() - t0, 4),
        }
    )
    return res


JOBS = {"render": job_render, "parse": job_parse}


def main():
    hi = len(sys.argv) > 1 and sys.argv[1] == "hi"
    if hi:
        sys.setrecursionlimit(150_000)
    signal.signal(signal.SIGVTALRM, _on_timer)
    # make sure liquid is imported before the first timed job
    import liquid  # noqa: F401

    sys.stdout.write(json.dumps({"ready": True, "recursionlimit": sys.getrecursionlimit()}) + "\n")
    sys.stdout.flush()
    for line in sys.stdin:
        line = line.strip()
        if not line:
            continue
        job = json.loads(line)
        cpu = float(job.get("cpu_limit", 20.0))
        try:
            signal.setitimer(signal.ITIMER_VIRTUAL, cpu)
            try:
                res = JOBS[job["kind"]](job)
            finally:
                signal.setitimer(signal.ITIMER_VIRTUAL, 0)
        except _CpuTimeout:
            res = {"out": "timeout", "liquid": None, "cpu_s": cpu, "evs": None, "n": None}
        except BaseException as e:  # noqa: BLE001  (the adapter itself failed)
            res = {"child_error": f"{type(e).__name__}: {e}"}
        sys.stdout.write(json.dumps(res) + "\n")
        sys.stdout.flush()


if __name__ == "__main__":
    main()
