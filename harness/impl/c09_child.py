"""C09 child process: runs parse / render jobs on the real code, isolated from the check process.

Started by harness/impl/c09_run.py as `python c09_child.py [hi]`; one JSON job per stdin line, one JSON
result per stdout line.  `hi` raises the Python recursion limit (the parent also raises RLIMIT_STACK) so
that the depth accounting of the code can be observed without the CPython stack getting in the way.

CPU-time limits are enforced inside the child with ITIMER_VIRTUAL (robust against a loaded machine);
the parent additionally enforces a generous wall-clock limit and kills the child when that is exceeded.
"""
from __future__ import annotations

import asyncio
import json
import signal
import sys
import time


class _CpuTimeout(BaseException):
    pass


def _on_timer(signum, frame):
    raise _CpuTimeout()


def _depth() -> int:
    f = sys._getframe(1)
    n = 0
    while f is not None:
        n += 1
        f = f.f_back
    return n


def _classify(e: BaseException) -> str:
    """Exception class; a RecursionError anywhere in the cause/context chain wins (from_string wraps it)."""
    seen = set()
    x = e
    while x is not None and id(x) not in seen:
        seen.add(id(x))
        if isinstance(x, RecursionError):
            return "RecursionError"
        x = x.__cause__ or x.__context__
    return type(e).__name__


def _is_liquid(e: BaseException) -> bool:
    from liquid.exceptions import LiquidError

    return isinstance(e, LiquidError)


def job_render(job):
    from liquid import DictLoader, Environment, Mode
    from liquid.filter import with_context

    events = []
    st = {"max": 0, "base": None}

    @with_context
    def probe(val, *, context):
        d = _depth()
        if st["base"] is None:
            st["base"] = d
        if d > st["max"]:
            st["max"] = d
        if len(events) < job.get("max_events", 200000):
            events.append([int(val), context._copy_depth, context.scope.size(), d - st["base"]])
        else:
            st["overflow"] = True
        return ""

    class Env(Environment):
        context_depth_limit = job.get("limit", 30)

    mode = {"strict": Mode.STRICT, "lax": Mode.LAX, "warn": Mode.WARN}[job.get("mode", "strict")]
    env = Env(loader=DictLoader(dict(job["templates"])), tolerance=mode, extra=True)
    env.add_filter("probe", probe)
    import warnings

    warnings.simplefilter("ignore")
    t0 = time.process_time()
    out = "ok"
    liquid = None
    try:
        if job.get("async"):

            async def go():
                t = await env.get_template_async(job["main"])
                return await t.render_async()

            asyncio.run(go())
        else:
            env.get_template(job["main"]).render()
    except _CpuTimeout:
        raise
    except BaseException as e:  # noqa: BLE001
        out = _classify(e)
        liquid = _is_liquid(e) and out != "RecursionError"
    return {
        "out": out,
        "liquid": liquid,
        "evs": events if job.get("full", True) else None,
        "n": len(events),
        "max_frames": (st["max"] - st["base"]) if st["base"] is not None else 0,
        "abs_base": st["base"],
        "cpu_s": round(time.process_time() - t0, 4),
    }


def job_parse(job):
    """Parse one source text. Observation: outcome class, CPU time, token count and the number of
    stream advances (`next`) made by the parser, plus the block skeleton of the tree."""
    from liquid import Environment, Mode
    from liquid import stream as stream_mod

    mode = {"strict": Mode.STRICT, "lax": Mode.LAX, "warn": Mode.WARN}[job.get("mode", "strict")]
    env = Environment(tolerance=mode, extra=bool(job.get("extra", False)))
    import warnings

    warnings.simplefilter("ignore")
    src = job["source"]
    counts = {"next": 0, "tokens": 0, "streams": 0}
    TS = stream_mod.TokenStream
    orig_init = TS.__init__
    orig_next = TS.next_token

    def init(self, tokens, block_depth_carry=0):
        orig_init(self, tokens, block_depth_carry)
        counts["streams"] += 1
        if job.get("count_all") or counts["streams"] == 1:
            pass

    def next_token(self):
        counts["next"] += 1
        return orig_next(self)

    out = "ok"
    liquid = None
    t0 = time.process_time()
    TS.__init__ = init
    TS.next_token = next_token
    TS.__next__ = lambda self: self.next_token()
    try:
        try:
            t = env.from_string(src)
            out = "ok"
            if job.get("skeleton"):
                pass
        except _CpuTimeout:
            raise
        except BaseException as e:  # noqa: BLE001
            out = _classify(e)
            liquid = _is_liquid(e) and out != "RecursionError"
    finally:
        TS.__init__ = orig_init
        TS.next_token = orig_next
        TS.__next__ = lambda self: self.next_token()
    return {"out": out, "liquid": liquid, "cpu_s": round(time.process_time() - t0, 4), "next": counts["next"], "len": len(src)}


JOBS = {"render": job_render, "parse": job_parse}


def main():
    hi = len(sys.argv) > 1 and sys.argv[1] == "hi"
    if hi:
        sys.setrecursionlimit(1_000_000)
    signal.signal(signal.SIGVTALRM, _on_timer)
    # make sure liquid is imported before the first timed job
    import liquid  # noqa: F401

    sys.stdout.write(json.dumps({"ready": True, "recursionlimit": sys.getrecursionlimit()}) + "\n")
    sys.stdout.flush()
    for line in sys.stdin:
        line = line.strip()
        if not line:
            continue
        job = json.loads(line)
        cpu = float(job.get("cpu_limit", 20.0))
        try:
            signal.setitimer(signal.ITIMER_VIRTUAL, cpu)
            try:
                res = JOBS[job["kind"]](job)
            finally:
                signal.setitimer(signal.ITIMER_VIRTUAL, 0)
        except _CpuTimeout:
            res = {"out": "timeout", "liquid": None, "cpu_s": cpu, "evs": None, "n": None}
        except BaseException as e:  # noqa: BLE001  (the adapter itself failed)
            res = {"child_error": f"{type(e).__name__}: {e}"}
        sys.stdout.write(json.dumps(res) + "\n")
        sys.stdout.flush()


if __name__ == "__main__":
    main()
