"""Adapters that run generated programs on the real liquid implementation."""
from __future__ import annotations

import asyncio
import warnings


def make_env(prog, loader=None, mode=None, undefined=None, limits=None, **kw):
    import liquid
    from liquid import DictLoader, Environment, Mode

    attrs = dict(prog.get("flags") or {})
    attrs.update(limits or {})
    cls = type("GenEnv", (Environment,), attrs)
    if loader is None:
        loader = DictLoader(dict(prog.get("partials") or {}))
    tol = {None: Mode.STRICT, "strict": Mode.STRICT, "warn": Mode.WARN, "lax": Mode.LAX}[mode]
    args = dict(extra=bool(prog.get("extra")), loader=loader, tolerance=tol, autoescape=bool(prog.get("autoescape")))
    if undefined is not None:
        args["undefined"] = undefined
    args.update(kw)
    env = cls(**args)
    if prog.get("snippet"):
        from liquid.extra.tags.snippet_tag import SnippetTag  # inline snippets are not registered by extra=True

        env.add_tag(SnippetTag)
    return env


def outcome(fn):
    """Run fn() -> {"ok": value} | {"err": class name, "liquid": is LiquidError subclass, "base": coarse class}."""
    from liquid.exceptions import LiquidError

    try:
        with warnings.catch_warnings():
            warnings.simplefilter("ignore")
            return {"ok": fn()}
    except RecursionError:
        return {"err": "RecursionError", "liquid": False}
    except LiquidError as e:
        return {"err": type(e).__name__, "liquid": True}
    except Exception as e:
        return {"err": type(e).__name__, "liquid": False}


def run_async(coro_fn):
    loop = asyncio.new_event_loop()
    try:
        return loop.run_until_complete(coro_fn())
    finally:
        loop.close()


def render_sync(prog, **envkw):
    def go():
        env = make_env(prog, **envkw)
        return env.from_string(prog["source"]).render(**prog["data"])

    return outcome(go)


def render_async(prog, **envkw):
    def go():
        env = make_env(prog, **envkw)
        t = env.from_string(prog["source"])
        return run_async(lambda: t.render_async(**prog["data"]))

    return outcome(go)
