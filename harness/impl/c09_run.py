"""Parent side of the C09 child-process isolation: a persistent child per (process, flavour); a job that
exceeds the wall-clock limit kills the child (observation `timeout`), a child that dies is observed as `crash`."""
from __future__ import annotations

import atexit
import json
import os
import select
import subprocess
import sys
from pathlib import Path

_CHILD = Path(__file__).with_name("c09_child.py")
_children: dict = {}


def _spawn(flavour: str):
    env = dict(os.environ)
    repo = env.get("LIQUID_REPO", "/repo")
    env["PYTHONPATH"] = repo + os.pathsep + env.get("PYTHONPATH", "")
    env.setdefault("LIQUID_VERIF", "1")

    def pre():
        if flavour == "hi":
            import resource

            soft, hard = resource.getrlimit(resource.RLIMIT_STACK)
            want = 2 << 30
            if hard != resource.RLIM_INFINITY:
                want = min(want, hard)
            resource.setrlimit(resource.RLIMIT_STACK, (want, hard))

    p = subprocess.Popen(
        [sys.executable, "-u", str(_CHILD)] + (["hi"] if flavour == "hi" else []),
        stdin=subprocess.PIPE,
        stdout=subprocess.PIPE,
        stderr=subprocess.DEVNULL,
        env=env,
        preexec_fn=pre,
        text=True,
        bufsize=1,
    )
    line = _readline(p, 600.0)  # importing liquid can take minutes on a badly overloaded machine
    if not line:
        _kill(p)
        raise RuntimeError("c09 child did not start")
    return p


def _readline(p, timeout: float):
    fd = p.stdout.fileno()
    buf = getattr(p, "_c09buf", b"")
    import time

    end = time.time() + timeout
    while b"\n" not in buf:
        left = end - time.time()
        if left <= 0:
            p._c09buf = buf
            return None
        r, _, _ = select.select([fd], [], [], min(left, 1.0))
        if r:
            chunk = os.read(fd, 1 << 16)
            if not chunk:
                p._c09buf = b""
                return ""  # EOF: the child died
            buf += chunk
    line, _, rest = buf.partition(b"\n")
    p._c09buf = rest
    return line.decode()


def _kill(p):
    try:
        p.kill()
        p.wait(5)
    except Exception:
        pass


def _cleanup():
    for p in list(_children.values()):
        _kill(p)
    _children.clear()


atexit.register(_cleanup)


def run_job(job: dict, flavour: str = "std", wall_limit: float = 90.0) -> dict:
    """Run one job in the persistent child of this process; never raises for what the job does."""
    key = (os.getpid(), flavour)
    for attempt in (0, 1):
        p = _children.get(key)
        if p is None or p.poll() is not None:
            try:
                p = _children[key] = _spawn(flavour)
            except RuntimeError:
                if attempt == 0:
                    continue
                raise
        try:
            p.stdin.write(json.dumps(job) + "\n")
            p.stdin.flush()
        except (BrokenPipeError, OSError):
            _kill(p)
            _children.pop(key, None)
            if attempt == 0:
                continue
            return {"out": "crash"}
        line = _readline(p, wall_limit)
        if line is None:
            _kill(p)
            _children.pop(key, None)
            return {"out": "timeout", "wall": True}
        if line == "":
            rc = p.poll()
            _kill(p)
            _children.pop(key, None)
            return {"out": "crash", "rc": rc}
        res = json.loads(line)
        if "child_error" in res:
            raise RuntimeError("c09 child adapter failed: " + res["child_error"])
        return res
    return {"out": "crash"}
