"""Pristine-process render server for C17 (run as a script; PYTHONPATH selects the repo under test).

The server imports liquid and never renders.  For every request line
    {"history": [render…], "probe": render}
it forks; the child performs the history renders, then the probe, and reports the probe's outcome.  So every request
starts from the state of a process that has never rendered anything — whatever process-wide state liquid keeps, known
to the inventory or not — and `history == []` is the fresh-process render the property compares with.

render = {"env": key, "prog": {flags, extra, autoescape, partials}, "source": str, "data": encoded, "via": "env"|"Template"}
Renders with the same "env" key share one Environment object inside a request.
Encoded values: JSON, plus {"$dt": [Y,M,D,h,m,offset_minutes]}, {"$markup": s}, {"$float": repr}, {"$dict": [[k,v]…]}.
"""
from __future__ import annotations

import json
import os
import signal
import sys


def decode(v):
    import datetime

    if isinstance(v, list):
        return [decode(x) for x in v]
    if isinstance(v, dict):
        if "$dt" in v:
            y, mo, d, h, mi, off = v["$dt"]
            return datetime.datetime(y, mo, d, h, mi, tzinfo=datetime.timezone(datetime.timedelta(minutes=off)))
        if "$markup" in v:
            from liquid import Markup

            return Markup(v["$markup"])
        if "$float" in v:
            return float(v["$float"])
        if "$dict" in v:
            return {decode(k): decode(x) for k, x in v["$dict"]}
        return {k: decode(x) for k, x in v.items()}
    return v


def make_env(prog):
    from liquid import DictLoader, Environment

    attrs = dict(prog.get("flags") or {})
    cls = type("GenEnv", (Environment,), attrs)
    return cls(extra=bool(prog.get("extra")), loader=DictLoader(dict(prog.get("partials") or {})), autoescape=bool(prog.get("autoescape")))


def do_render(r, envs):
    import warnings

    from liquid.exceptions import LiquidError

    try:
        with warnings.catch_warnings():
            warnings.simplefilter("ignore")
            data = decode(r.get("data") or {})
            if r.get("via") == "Template":
                from liquid import Template

                t = Template(decode(r["source"]), autoescape=bool(r["prog"].get("autoescape")), extra=bool(r["prog"].get("extra")))
            else:
                key = r.get("env", 0)
                if key not in envs:
                    envs[key] = make_env(r["prog"])
                t = envs[key].from_string(decode(r["source"]))
            return {"ok": t.render(**data)}
    except RecursionError:
        return {"err": "RecursionError"}
    except LiquidError as e:
        return {"err": type(e).__name__}
    except Exception as e:
        return {"err": type(e).__name__}


def serve():
    import liquid  # noqa: F401  (import everything a render can need, render nothing)
    import liquid.extra  # noqa: F401
    from liquid import Environment, Template  # noqa: F401

    for line in sys.stdin:
        line = line.strip()
        if not line:
            continue
        req = json.loads(line)
        rfd, wfd = os.pipe()
        pid = os.fork()
        if pid == 0:
            os.close(rfd)
            signal.alarm(60)
            try:
                envs: dict = {}
                for h in req.get("history", []):
                    do_render(h, envs)
                out = do_render(req["probe"], envs)
            except BaseException as e:  # noqa: BLE001
                out = {"err": "harness:" + type(e).__name__}
            os.write(wfd, json.dumps(out).encode())
            os._exit(0)
        os.close(wfd)
        chunks = []
        while True:
            b = os.read(rfd, 65536)
            if not b:
                break
            chunks.append(b)
        os.close(rfd)
        os.waitpid(pid, 0)
        raw = b"".join(chunks).decode() or json.dumps({"err": "harness:child-died"})
        sys.stdout.write(raw + "\n")
        sys.stdout.flush()


if __name__ == "__main__":
    serve()
