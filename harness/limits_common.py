"""Shared machinery of the C07 / C08 checks (resource limits).

* a structured generator of *modelled* programs: text / output / assign / capture / ifchanged / cycle / if-else /
  for-else / include / render, with 1-4-byte characters, partial pools (acyclic, plus a few self-recursive ones),
  render data of scalars and flat arrays.  A program is a JSON term that is (a) printed as real Liquid source for
  the engine and (b) sent as it is to the Lean driver (`Driver/C0708.lean`, model `Model/Limits.lean`);
* an instrumented render on the real engine: a `RenderContext` subclass records, after every completed
  `assign`, `get_size_of_locals()` *and* an independently computed size (own locals of every context on the
  parent chain), the products tested by `raise_for_loop_limit`, and the depths tested by `extend` / `copy`;
* the sweep planner: from the resources an unlimited render used, the limit values worth trying (0, 1, every
  boundary - 1 / boundary / boundary + 1, twice the maximum, `None`).

Imports `liquid` inside functions only.
"""
from __future__ import annotations

import sys

from .prng import Rng

LIMIT_ATTR = {
    "output": "output_stream_limit",
    "ns": "local_namespace_limit",
    "loop": "loop_iteration_limit",
    "depth": "context_depth_limit",
    "nesting": "block_nesting_limit",
}
DEFAULT_LIMITS = {"output": None, "ns": None, "loop": None, "depth": 30, "nesting": 30}
BIG = 10**9
LIMIT_ERRORS = {
    "output": "OutputStreamLimitError",
    "ns": "LocalNamespaceLimitError",
    "loop": "LoopIterationLimitError",
    "depth": "ContextDepthError",
    "nesting": "BlockNestingError",
}

# text atoms: 1-byte, 2-byte (Latin-1 kind and UCS-2 kind), 3-byte, 4-byte characters; blank atoms.
# No atom is a single Latin-1 (U+0080..U+00FF) character: CPython keeps those as shared singletons whose
# getsizeof depends on whether some earlier code cached their UTF-8 form (41/57/58/60-byte headers are otherwise
# a function of the value).
ATOMS = ["x", "ab", "Q-", "né", "été", "жы", "€", "a€", "\U0001F600", "b\U0001F600c", "0", "lorem ipsum"]
BLANKS = [" ", "  ", "\n", "　", " \t", "\r\n"]
LOCALS = ["a", "b", "c", "d"]
LOOPVARS = ["v", "u"]
GLOBALS = ["g", "s", "n", "arr", "arr2", "nums", "nil_", "zz"]
ARGNAMES = ["y", "k"]
PARTIALS = ["p0", "p1", "p2"]


# ---- generator -----------------------------------------------------------------------------------------------
def gen_globals(rng: Rng):
    g = []
    g.append(["g", rng.choice(ATOMS)])
    if rng.chance(80):
        g.append(["s", rng.choice(ATOMS) + rng.choice(ATOMS)])
    g.append(["n", rng.choice([0, 7, 42, 2**30, 2**31 + 5, 123456])])
    arr = [rng.choice([rng.choice(ATOMS), rng.choice(ATOMS), rng.below(100), None]) for _ in range(rng.below(5))]
    g.append(["arr", arr])
    if rng.chance(70):
        g.append(["arr2", [rng.choice(ATOMS) for _ in range(rng.range(1, 3))]])
    g.append(["nums", list(range(1, rng.range(1, 4) + 1))])
    g.append(["nil_", None])
    return g


class ProgGen:
    def __init__(self, rng: Rng, partials, max_depth=3, heavy=False):
        self.r = rng
        self.partials = partials  # names that may be referenced from here
        self.max_depth = max_depth
        self.heavy = heavy

    def scalar_expr(self):
        r = self.r
        k = r.below(10)
        if k < 3:
            return ["lit", r.choice(ATOMS)]
        if k == 3:
            return ["lit", r.choice([0, 5, 77, 2**30 + 1])]
        if k == 4:
            return ["var", r.choice(GLOBALS)]
        if k == 5:
            return ["var", r.choice(ARGNAMES + LOOPVARS)]
        if k == 6:
            return ["var", r.choice(["g", "s", "n"])]
        return ["var", r.choice(LOCALS)]

    def prim_expr(self):
        """A filter argument: a literal or a name (no nested filters)."""
        e = self.scalar_expr()
        return e

    def filtered_expr(self):
        """e | append: a | prepend: b | size …  (filters are modelled as functions on values)."""
        r = self.r
        e = self.scalar_expr()
        for _ in range(r.range(1, 2)):
            k = r.below(10)
            if k < 5:
                e = ["filt", "append", e, self.prim_expr()]
            elif k < 8:
                e = ["filt", "prepend", e, self.prim_expr()]
            else:
                e = ["filt", "size", e]
        return e

    def any_expr(self):
        if self.r.chance(15):
            return ["var", self.r.choice(["arr", "arr2", "nums"])]
        return self.scalar_expr()

    def iter_expr(self):
        r = self.r
        k = r.below(10)
        if k < 5:
            return ["var", r.choice(["arr", "arr2", "nums", "arr"])]
        if k < 7:
            n = r.range(1, 4)
            return ["lit", list(range(1, n + 1))]  # printed as the range literal (1..n)
        if k == 7:
            return ["var", r.choice(["g", "s", "zz", "nil_", "n"])]
        return ["var", r.choice(LOCALS)]

    def bind_expr(self):
        """The bound value of include/render must be a path (a literal is a syntax error)."""
        r = self.r
        if r.chance(55):
            return ["var", r.choice(["arr", "arr2", "nums", "arr"])]
        return ["var", r.choice(GLOBALS + LOCALS + LOOPVARS + ARGNAMES)]

    def args(self):
        r = self.r
        out = []
        for name in ARGNAMES:
            if r.chance(35):
                out.append([name, self.scalar_expr()])
        return out

    def block(self, depth, lo=0, hi=4):
        n = self.r.range(lo, hi if depth < self.max_depth else 2)
        return normalize([self.node(depth) for _ in range(n)])

    def blank_block(self, depth):
        """A block that the engine classifies as blank (rendered into a NullIO)."""
        r = self.r
        out = []
        for _ in range(r.range(0, 3)):
            k = r.below(4)
            if k == 0:
                out.append(["text", r.choice(BLANKS)])
            elif k == 1:
                out.append(["assign", r.choice(LOCALS), self.scalar_expr()])
            elif k == 2:
                out.append(["capture", r.choice(LOCALS), self.block(depth + 1, 0, 2)])
            else:
                out.append(["text", r.choice(BLANKS)])
        return normalize(out)

    def node(self, depth):
        r = self.r
        leaf = depth >= self.max_depth
        k = r.below(100)
        if k < 16:
            return ["text", r.choice(ATOMS + ["a\rb\r\n"]) if r.chance(80) else r.choice(BLANKS)]
        if k < 30:
            return ["output", self.filtered_expr() if r.chance(25) else self.any_expr()]
        if k < 42:
            return ["assign", r.choice(LOCALS), self.filtered_expr() if r.chance(40) else self.scalar_expr()]
        if k < 48:
            grp = r.choice(["", "", "g1", "g2"])
            return ["cycle", grp, [self.scalar_expr() for _ in range(r.range(1, 3))]]
        if leaf:
            return ["text", r.choice(ATOMS)]
        if k < 58:
            return ["capture", r.choice(LOCALS), self.block(depth + 1)]
        if k < 64:
            return ["ifchanged", self.block(depth + 1, 0, 3)]
        if k < 72:
            tag = "unless" if r.chance(30) else "if"
            if r.chance(25):
                return [tag, self.scalar_expr(), self.blank_block(depth + 1), self.blank_block(depth + 1) if r.chance(50) else []]
            return [tag, self.scalar_expr(), self.block(depth + 1), self.block(depth + 1, 0, 2) if r.chance(50) else []]
        if k < 75:
            args = [[n, self.scalar_expr()] for n in ARGNAMES if r.chance(70)] or [["y", self.scalar_expr()]]
            return ["with", args, self.blank_block(depth + 1) if r.chance(15) else self.block(depth + 1, 1, 3)]
        if k < 79:
            body = self.blank_block(depth + 1) if r.chance(15) else self.block(depth + 1, 0, 3)
            return ["tablerow", r.choice(LOOPVARS), self.iter_expr(), body]
        if k < 84:
            body = self.blank_block(depth + 1) if r.chance(15) else self.block(depth + 1, 1, 4)
            return ["for", r.choice(LOOPVARS), self.iter_expr(), body, self.block(depth + 1, 0, 2) if r.chance(30) else []]
        if not self.partials:
            return ["output", self.any_expr()]
        name = r.choice(self.partials) if r.chance(95) else "nope"
        if k < 92:
            bind = None
            if r.chance(55):
                e = self.bind_expr()
                bind = [e, r.choice(ARGNAMES) if r.chance(70) else name, r.choice(["with", "for"])]
            return ["include", name, bind, self.args()]
        bind = None
        if r.chance(60):
            e = self.bind_expr()
            bind = [r.chance(60), e, r.choice(ARGNAMES) if r.chance(70) else name]
        return ["render", name, bind, self.args()]


def normalize(nodes):
    """Merge adjacent text nodes (the lexer produces one content token for them)."""
    out = []
    for n in nodes:
        if n[0] == "text" and out and out[-1][0] == "text":
            out[-1] = ["text", out[-1][1] + n[1]]
        elif n[0] == "text" and n[1] == "":
            continue
        else:
            out.append(n)
    return out


def gen_prog(rng: Rng, max_depth=3, recursive_pct=10):
    """{"main": nodes, "templates": [[name, nodes]...], "globals": [[name, value]...]}"""
    npart = rng.choice([0, 1, 2, 2, 3, 3])
    names = PARTIALS[:npart]
    templates = []
    # acyclic pool: p_i may only reference p_j with j > i
    for i, name in enumerate(names):
        g = ProgGen(rng, names[i + 1 :], max_depth=max(1, max_depth - 1))
        body = g.block(0, 1, 4)
        if rng.chance(recursive_pct):
            rec = ["render", name, None, []] if rng.chance(50) else ["include", name, None, []]
            body = normalize(body + [rec])
        templates.append([name, body])
    main = ProgGen(rng, names, max_depth=max_depth).block(0, 2, 6)
    return {"main": main, "templates": templates, "globals": gen_globals(rng)}


# ---- printing as Liquid source ---------------------------------------------------------------------------------
def expr_src(e):
    if e[0] == "var":
        return e[1]
    if e[0] == "filt":
        return expr_src(e[2]) + " | " + e[1] + (": " + expr_src(e[3]) if len(e) > 3 else "")
    v = e[1]
    if isinstance(v, list):
        return f"({v[0]}..{v[-1]})" if v else "(1..0)"
    if isinstance(v, int):
        return str(v)
    if v is None:
        return "nil"
    return "'" + v + "'"


def args_src(args, lead):
    if not args:
        return ""
    return ("," if lead else "") + " " + ", ".join(f"{k}: {expr_src(e)}" for k, e in args)


def node_src(n):
    t = n[0]
    if t == "text":
        return n[1]
    if t == "output":
        return "{{ " + expr_src(n[1]) + " }}"
    if t == "assign":
        return "{% assign " + n[1] + " = " + expr_src(n[2]) + " %}"
    if t == "capture":
        return "{% capture " + n[1] + " %}" + nodes_src(n[2]) + "{% endcapture %}"
    if t == "ifchanged":
        return "{% ifchanged %}" + nodes_src(n[1]) + "{% endifchanged %}"
    if t == "cycle":
        grp = f"'{n[1]}': " if n[1] else ""
        return "{% cycle " + grp + ", ".join(expr_src(e) for e in n[2]) + " %}"
    if t == "if":
        els = "{% else %}" + nodes_src(n[3]) if n[3] else ""
        return "{% if " + expr_src(n[1]) + " %}" + nodes_src(n[2]) + els + "{% endif %}"
    if t == "unless":
        els = "{% else %}" + nodes_src(n[3]) if n[3] else ""
        return "{% unless " + expr_src(n[1]) + " %}" + nodes_src(n[2]) + els + "{% endunless %}"
    if t == "with":
        return "{% with " + ", ".join(f"{k}: {expr_src(e)}" for k, e in n[1]) + " %}" + nodes_src(n[2]) + "{% endwith %}"
    if t == "tablerow":
        return "{% tablerow " + n[1] + " in " + expr_src(n[2]) + " %}" + nodes_src(n[3]) + "{% endtablerow %}"
    if t == "for":
        els = "{% else %}" + nodes_src(n[4]) if n[4] else ""
        return "{% for " + n[1] + " in " + expr_src(n[2]) + " %}" + nodes_src(n[3]) + els + "{% endfor %}"
    if t == "include":
        s = "{% include '" + n[1] + "'"
        if n[2] is not None:
            e, key, kw = n[2]
            s += f" {kw} {expr_src(e)}" + (f" as {key}" if key != n[1] else "")
        return s + args_src(n[3], True) + " %}"
    if t == "render":
        s = "{% render '" + n[1] + "'"
        if n[2] is not None:
            is_for, e, key = n[2]
            s += f" {'for' if is_for else 'with'} {expr_src(e)}" + (f" as {key}" if key != n[1] else "")
        return s + args_src(n[3], True) + " %}"
    raise ValueError(n)


def nodes_src(nodes):
    return "".join(node_src(n) for n in nodes)


def prog_source(prog):
    return nodes_src(prog["main"]), {name: nodes_src(body) for name, body in prog["templates"]}


def model_prog(prog, lax=False):
    return {"templates": prog["templates"], "globals": prog["globals"], "lax": bool(lax)}


def nest_depth(nodes) -> int:
    d = 0
    for n in nodes:
        t = n[0]
        if t in ("capture",):
            d = max(d, 1 + nest_depth(n[2]))
        elif t == "ifchanged":
            d = max(d, 1 + nest_depth(n[1]))
        elif t in ("if", "unless"):
            d = max(d, 1 + max(nest_depth(n[2]), nest_depth(n[3])))
        elif t == "with":
            d = max(d, 1 + nest_depth(n[2]))
        elif t == "tablerow":
            d = max(d, 1 + nest_depth(n[3]))
        elif t == "for":
            d = max(d, 1 + max(nest_depth(n[3]), nest_depth(n[4])))
    return d


def node_kinds(nodes, acc=None):
    acc = set() if acc is None else acc
    for n in nodes:
        acc.add(n[0])
        for x in n[1:]:
            if isinstance(x, list) and x and isinstance(x[0], list) and x[0] and isinstance(x[0][0], str) and x[0][0] in (
                "text", "output", "assign", "capture", "ifchanged", "cycle", "if", "unless", "with", "for", "tablerow", "include", "render"):
                node_kinds(x, acc)
    return acc


# ---- running the real engine -----------------------------------------------------------------------------------
def full_limits(lim: dict) -> dict:
    d = dict(DEFAULT_LIMITS)
    d.update(lim)
    return d


def make_env(partials: dict, lim: dict, spy=None, mode=None, flags=None):
    """A fresh Environment subclass with the limits as class attributes (exactly how they are documented to be set)."""
    from liquid import DictLoader, Environment, Mode
    from liquid.context import RenderContext
    from liquid.template import BoundTemplate

    attrs = {LIMIT_ATTR[k]: v for k, v in full_limits(lim).items()}
    attrs.update(flags or {})
    if spy is not None:

        def own_size(ctx):
            return sum(sys.getsizeof(o, 1) for o in ctx.locals.values())

        class SpyContext(RenderContext):
            def assign(self, key, val):
                super().assign(key, val)
                true_total = 0
                c = self
                while c is not None:
                    true_total += own_size(c)
                    c = c.parent_context
                spy["sizes"].append([self.get_size_of_locals(), true_total])

            def raise_for_loop_limit(self, length=1):
                p = length * self.loop_iteration_carry
                for lp in self.loops:
                    p *= lp.length
                spy["products"].append(p)
                return super().raise_for_loop_limit(length)

            def extend(self, namespace, template=None):
                spy["depths"].append(self.scope.size())
                return super().extend(namespace, template)

            def copy(self, *a, **k):
                spy["depths"].append(self._copy_depth)
                return super().copy(*a, **k)

        class SpyTemplate(BoundTemplate):
            context_class = SpyContext

        attrs["template_class"] = SpyTemplate
    cls = type("LimEnv", (Environment,), attrs)
    tol = {None: Mode.STRICT, "strict": Mode.STRICT, "warn": Mode.WARN, "lax": Mode.LAX}[mode]
    return cls(loader=DictLoader(dict(partials)), tolerance=tol, extra=True)


def run_source(source: str, partials: dict, data: dict, lim: dict, spy=None, is_async=False, mode=None, flags=None):
    """-> {"ok": out} | {"err": class, "rle": is ResourceLimitError subclass, "liquid": is LiquidError subclass}"""
    import asyncio
    import warnings

    from liquid.exceptions import LiquidError, ResourceLimitError

    try:
        with warnings.catch_warnings():
            warnings.simplefilter("ignore")
            env = make_env(partials, lim, spy=spy, mode=mode, flags=flags)
            t = env.from_string(source)
            if is_async:
                loop = asyncio.new_event_loop()
                try:
                    out = loop.run_until_complete(t.render_async(**data))
                finally:
                    loop.close()
            else:
                out = t.render(**data)
        return {"ok": out}
    except RecursionError:
        return {"err": "RecursionError", "rle": False, "liquid": False}
    except Exception as e:  # noqa: BLE001 - the observation is the class
        return {"err": type(e).__name__, "rle": isinstance(e, ResourceLimitError), "liquid": isinstance(e, LiquidError)}


def run_prog(prog, lim, spy=None, is_async=False, mode=None):
    src, partials = prog_source(prog)
    # lists are rebuilt with their exact allocation (56 + 8n bytes): getsizeof of a list depends on how it grew
    data = {k: (list(tuple(v)) if isinstance(v, list) else v) for k, v in prog["globals"]}
    return run_source(src, partials, data, lim, spy=spy, is_async=is_async, mode=mode)


def new_spy():
    return {"sizes": [], "products": [], "depths": []}


def utf8_len(s: str) -> int:
    return len(s.encode("utf-8", "surrogatepass"))


# ---- sweep planning ------------------------------------------------------------------------------------------
def around(vals, top=None):
    out = {0, 1}
    for v in vals:
        for d in (-1, 0, 1):
            if v + d >= 0:
                out.add(v + d)
    if vals:
        m = max(vals)
        out.add(2 * m)
        out.add(2 * m + 1)
    if top is not None:
        out = {v for v in out if v <= top}
    return sorted(out)


def thin(vals, rng: Rng, cap: int, keep=()):
    vals = sorted(set(vals))
    if len(vals) <= cap:
        return vals
    keep = [v for v in vals if v in set(keep)]
    rest = [v for v in vals if v not in set(keep)]
    chosen = set(keep) | set(rng.sample(rest, max(0, cap - len(keep))))
    return sorted(chosen)


def canon_outcome(o, with_log=None):
    """Abstraction used for comparison with the model: ok + output (+ size log), or the error class."""
    if "ok" in o:
        return ["ok", o["ok"]] + ([with_log] if with_log is not None else [])
    return ["err", o["err"]]


def canon_model_outcome(m, want_log: bool):
    """want_log: include the size log when the model says the namespace limit is on (`nsOn`)."""
    if not isinstance(m, dict):
        return m
    if "ok" in m:
        return ["ok", m["ok"]] + ([m.get("log")] if (want_log and m.get("nsOn")) else [])
    return ["err", m.get("err")]
