"""SplitMix64: every random choice in a check derives from one state seeded by VERIF_SEED."""
from __future__ import annotations

MASK = (1 << 64) - 1


class Rng:
    def __init__(self, seed: int = 0, stream: str = ""):
        s = (seed * 0x9E3779B97F4A7C15 + 0x1234567) & MASK
        for ch in stream.encode():
            s = ((s ^ ch) * 0x100000001B3) & MASK
        self.s = s

    def next(self) -> int:
        self.s = (self.s + 0x9E3779B97F4A7C15) & MASK
        z = self.s
        z = ((z ^ (z >> 30)) * 0xBF58476D1CE4E5B9) & MASK
        z = ((z ^ (z >> 27)) * 0x94D049BB133111EB) & MASK
        return z ^ (z >> 31)

    def below(self, n: int) -> int:
        return self.next() % n if n > 0 else 0

    def range(self, lo: int, hi: int) -> int:
        """Inclusive."""
        return lo + self.below(hi - lo + 1)

    def chance(self, num: int, den: int = 100) -> bool:
        return self.below(den) < num

    def choice(self, xs):
        return xs[self.below(len(xs))]

    def sample(self, xs, k):
        xs = list(xs)
        out = []
        for _ in range(min(k, len(xs))):
            out.append(xs.pop(self.below(len(xs))))
        return out

    def shuffle(self, xs):
        xs = list(xs)
        for i in range(len(xs) - 1, 0, -1):
            j = self.below(i + 1)
            xs[i], xs[j] = xs[j], xs[i]
        return xs

    def fork(self, label: str) -> "Rng":
        return Rng(self.next() & 0xFFFFFFFF, label)
