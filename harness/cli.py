"""./check Cxx [--tier quick|thorough] [--replay FILE]   (VERIF_SEED, VERIF_TIER honoured)."""
from __future__ import annotations

import argparse
import importlib
import os
import sys


def main(argv=None) -> int:
    ap = argparse.ArgumentParser()
    ap.add_argument("prop")
    ap.add_argument("--tier", default=os.environ.get("VERIF_TIER") or "quick", choices=["quick", "thorough"])
    ap.add_argument("--replay", default=None)
    ap.add_argument("--seed", type=int, default=None)
    a = ap.parse_args(argv)
    seed = a.seed if a.seed is not None else int(os.environ.get("VERIF_SEED", "0") or 0)
    try:
        mod = importlib.import_module(f"harness.props.{a.prop.lower()}")
    except ModuleNotFoundError as e:
        print(f"no check for {a.prop}: {e}")
        return 2
    from .core import run_check

    return run_check(mod, a.tier, seed, a.replay)


if __name__ == "__main__":
    sys.exit(main())
