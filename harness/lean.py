"""Lean side: regenerate Gen/, build, audit axioms, talk to the compiled model driver."""
from __future__ import annotations

import fcntl
import json
import os
import re
import subprocess
import sys
import time
from pathlib import Path

ROOT = Path(__file__).resolve().parent.parent
LEAN_DIR = ROOT / "lean"
DRIVER = LEAN_DIR / ".lake" / "build" / "bin" / "driver"
ALLOWED_AXIOMS = {"propext", "Classical.choice", "Quot.sound"}
FORBIDDEN = re.compile(
    r"\bsorry\b|\badmit\b|^\s*axiom\s|native_decide|bv_decide|implemented_by|\bunsafe\s|maxHeartbeats\s+0\b"
)


class BuildResult:
    def __init__(self):
        self.ok = True
        self.errors: list[str] = []  # human readable lines
        self.broken: list[str] = []  # names of theorems / modules that no longer check
        self.log = ""
        self.wall_s = 0.0


def _lock():
    f = open(LEAN_DIR / ".build.lock", "w")
    fcntl.flock(f, fcntl.LOCK_EX)
    return f


def regenerate(log=None) -> tuple[bool, str]:
    """Run the translator: /repo source -> lean/LiquidVerif/Gen/*.lean (written only when changed)."""
    tr = ROOT / "tools" / "translate.py"
    if not tr.exists():
        return True, ""
    p = subprocess.run(
        [sys.executable, str(tr), "--repo", os.environ.get("LIQUID_REPO", "/repo"), "--out", str(LEAN_DIR / "LiquidVerif" / "Gen")],
        capture_output=True,
        text=True,
    )
    return p.returncode == 0, p.stdout + p.stderr


def build(targets: list[str], translate: bool = False) -> BuildResult:
    """`lake build <targets> driver` under a file lock. Never raises; reports what broke."""
    r = BuildResult()
    t0 = time.time()
    lock = _lock()
    try:
        if translate:
            ok, out = regenerate()
            r.log += out
            if not ok:
                r.ok = False
                r.errors.append("translator failed: " + out[-2000:])
                r.broken.append("tools/translate.py")
        # driver first: the correspondence needs it even when a proof is broken
        p = subprocess.run(["lake", "build", "driver"], cwd=LEAN_DIR, capture_output=True, text=True)
        r.log += p.stdout + p.stderr
        if p.returncode != 0:
            r.ok = False
            r.errors += _error_lines(p.stdout + p.stderr)
            r.broken.append("driver")
        for t in targets:
            p = subprocess.run(["lake", "build", t], cwd=LEAN_DIR, capture_output=True, text=True)
            r.log += p.stdout + p.stderr
            if p.returncode != 0:
                r.ok = False
                errs = _error_lines(p.stdout + p.stderr)
                r.errors += errs
                r.broken.append(t)
    finally:
        lock.close()
    r.wall_s = time.time() - t0
    return r


def _error_lines(out: str) -> list[str]:
    res = []
    for line in out.splitlines():
        if re.search(r"\berror\b", line) and "warning" not in line:
            res.append(line.strip()[:400])
    return res[:40]


def strip_comments(src: str) -> str:
    src = re.sub(r"/-.*?-/", lambda m: "\n" * m.group(0).count("\n"), src, flags=re.S)
    src = re.sub(r"--.*", "", src)
    return src


def theorems_in(path: Path, namespace: str) -> list[str]:
    """Names of all theorems declared in a Props file (namespace-qualified)."""
    src = strip_comments(path.read_text())
    names = re.findall(r"^\s*(?:private\s+|protected\s+)?theorem\s+([A-Za-z_][\w'.]*)", src, flags=re.M)
    return [f"{namespace}.{n}" for n in names]


def forbidden_scan(paths: list[Path]) -> list[str]:
    hits = []
    for p in paths:
        src = strip_comments(p.read_text())
        for i, line in enumerate(src.splitlines(), 1):
            if FORBIDDEN.search(line):
                hits.append(f"{p.relative_to(LEAN_DIR)}:{i}: {line.strip()[:120]}")
    return hits


def transitive_sources(module: str) -> list[Path]:
    """All project-local .lean files a module imports (transitively), for the forbidden-token scan."""
    seen: dict[str, Path] = {}

    def visit(m: str):
        if m in seen:
            return
        p = LEAN_DIR / (m.replace(".", "/") + ".lean")
        if not p.exists():
            return
        seen[m] = p
        for imp in re.findall(r"^\s*import\s+([\w.]+)", p.read_text(), flags=re.M):
            if imp.startswith("LiquidVerif") or imp.startswith("Driver"):
                visit(imp)

    visit(module)
    return list(seen.values())


def audit(module: str, theorems: list[str]) -> dict:
    """`#print axioms` for each theorem; returns {theorem: [axioms]} or {theorem: None} when it does not check."""
    if not theorems:
        return {}
    tmp = LEAN_DIR / ".lake" / f"audit_{module.replace('.', '_')}_{os.getpid()}.lean"
    tmp.parent.mkdir(exist_ok=True)
    body = f"import {module}\n" + "".join(f"#print axioms {t}\n" for t in theorems)
    tmp.write_text(body)
    try:
        p = subprocess.run(["lake", "env", "lean", str(tmp)], cwd=LEAN_DIR, capture_output=True, text=True)
    finally:
        try:
            tmp.unlink()
        except OSError:
            pass
    out = p.stdout + p.stderr
    res: dict = {t: None for t in theorems}
    # "'X' depends on axioms: [a, b]"  or "'X' does not depend on any axioms"
    for m in re.finditer(r"'([^']+)' depends on axioms: \[([^\]]*)\]", out, flags=re.S):
        res[m.group(1)] = [a.strip() for a in m.group(2).replace("\n", " ").split(",") if a.strip()]
    for m in re.finditer(r"'([^']+)' does not depend on any axioms", out):
        res[m.group(1)] = []
    return res


class Driver:
    """Line protocol to the compiled Lean model driver: one JSON array in, one JSON value out."""

    def __init__(self):
        self.p = None

    def available(self) -> bool:
        return DRIVER.exists()

    def start(self):
        if self.p is None:
            self.p = subprocess.Popen([str(DRIVER)], stdin=subprocess.PIPE, stdout=subprocess.PIPE, text=True, bufsize=1 << 20)

    def batch(self, lines: list) -> list:
        """Send all lines, read all answers (uses a fresh process so that pipes cannot deadlock)."""
        if not lines:
            return []
        inp = "".join(json.dumps(l, separators=(",", ":"), ensure_ascii=True) + "\n" for l in lines)
        p = subprocess.run([str(DRIVER)], input=inp, capture_output=True, text=True)
        outs = p.stdout.split("\n")  # not splitlines(): U+0085/U+2028/U+2029 may occur inside JSON strings
        res = []
        for i in range(len(lines)):
            if i < len(outs):
                try:
                    res.append(json.loads(outs[i]))
                except json.JSONDecodeError:
                    res.append({"error": "bad-json", "raw": outs[i][:200]})
            else:
                res.append({"error": "driver-died", "stderr": p.stderr[-300:]})
        return res
