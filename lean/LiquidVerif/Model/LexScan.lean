import LiquidVerif.Model.Lex
/-!
# A deterministic scanner for the template rules of `compile_liquid_rules` — on the source STRING

`scan d src` is what `rules.finditer(src)` yields for the alternation

    RAW | DOC | [COMMENT] | OUTPUT | TAG | CONTENT          (re.DOTALL)

tried in this order at the current position (leftmost match, first alternative that succeeds), resuming at
the end of each match.  Every quantifier of the patterns is resolved the way the backtracking engine resolves
it, which is deterministic here because

* `-?` and `\s*` are greedy and giving back what they took can never make the rest succeed (the next thing
  required is a keyword, a hyphen or the first character of a closing delimiter, none of which is whitespace or
  `-` — assumption `Delims.plain`: no delimiter starts with whitespace, `-` or a word character);
* the lazy `.*?` groups (`raw`, `doc`, `comment`, `stmt`, `expr`, content) stop at the first position where the
  rest of their pattern matches (`findFirst`).

`\w` is the ASCII class (the correspondence stream `scan` draws its strings from ASCII plus non-word Unicode
whitespace).  The result records are the `Match`es of `Model/Lex.lean`, so `scan (assemble d ps)` can be compared
with `matchesOf d 0 ps` field by field (done by the driver on every case of every piece stream), and `tokenize`
runs on either.  Core Lean only.
-/
namespace LiquidVerif.Lex

/-- drop `p` from the front of `t` -/
def stripPrefix? : Str → Str → Option Str
  | [], t => some t
  | _ :: _, [] => none
  | p :: ps, c :: cs => if p == c then stripPrefix? ps cs else none

/-- greedy `-?` : (hyphen taken?, rest) -/
def optHyphen : Str → Bool × Str
  | '-' :: r => (true, r)
  | t => (false, t)

/-- greedy `\s*` : (number of characters taken, rest) -/
def skipSpaces : Str → Nat × Str
  | [] => (0, [])
  | c :: cs => if isSpace c then let r := skipSpaces cs; (r.1 + 1, r.2) else (0, c :: cs)

/-- greedy `\w*` (ASCII) : (word, rest) -/
def takeWord : Str → Str × Str
  | [] => ([], [])
  | c :: cs => if isWord c then let r := takeWord cs; (c :: r.1, r.2) else ([], c :: cs)

/-- the `name` group `#|\w*` : (name, rest) -/
def nameGroup : Str → Str × Str
  | '#' :: u => (['#'], u)
  | u => takeWord u

/-- `\s*(-?)CLOSE` at the head of `t` : (hyphen?, total length consumed) -/
def closeAt? (close : Str) (t : Str) : Option (Bool × Nat) :=
  let sp := skipSpaces t
  let h := optHyphen sp.2
  match stripPrefix? close h.2 with
  | some _ => some (h.1, sp.1 + (if h.1 then 1 else 0) + close.length)
  | none =>
    -- `-?` gives the hyphen back: CLOSE itself must then start at the hyphen — impossible for plain delimiters,
    -- kept for fidelity
    if h.1 then
      match stripPrefix? close sp.2 with
      | some _ => some (false, sp.1 + close.length)
      | none => none
    else none

/-- `TAG_S -? \s* kw \s* (-?) TAG_E` at the head of `t` : (hyphen before TAG_E?, total length) -/
def kwTagAt? (d : Delims) (kw : Str) (t : Str) : Option (Bool × Nat) :=
  match stripPrefix? d.tagS t with
  | none => none
  | some t1 =>
    let h := optHyphen t1
    let sp := skipSpaces h.2
    match stripPrefix? kw sp.2 with
    | none => none
    | some t2 =>
      match closeAt? d.tagE t2 with
      | some (r, n) => some (r, d.tagS.length + (if h.1 then 1 else 0) + sp.1 + kw.length + n)
      | none => none

/-- lazy search: the least `k` such that `f (drop k t)` succeeds, with that result -/
def findFirst {α : Type} (f : Str → Option α) : Str → Option (Nat × α)
  | [] => (f []).map fun a => (0, a)
  | c :: cs =>
    match f (c :: cs) with
    | some a => some (0, a)
    | none => (findFirst f cs).map fun r => (r.1 + 1, r.2)

/-- RAW / DOC: `open body close` with the two keywords; result (body, flag of the opening tag, flag of the closing tag, length) -/
def blockAt? (d : Delims) (kwOpen kwClose : Str) (t : Str) : Option (Str × Bool × Bool × Nat) :=
  match kwTagAt? d kwOpen t with
  | none => none
  | some (ro, n1) =>
    let rest := t.drop n1
    match findFirst (kwTagAt? d kwClose) rest with
    | none => none
    | some (k, (rc, n2)) => some (rest.take k, ro, rc, n1 + k + n2)

/-- `(?P<rsc>-?)CMT_E` at the head of `u` : (hyphen?, length) -/
def shortCloseAt? (cmtE : Str) (u : Str) : Option (Bool × Nat) :=
  match u with
  | '-' :: u' => (match stripPrefix? cmtE u' with
                  | some _ => some (true, 1 + cmtE.length)
                  | none => (stripPrefix? cmtE u).map fun _ => (false, cmtE.length))
  | _ => (stripPrefix? cmtE u).map fun _ => (false, cmtE.length)

/-- does `t` start with an opening delimiter, and is it followed by a hyphen? (the content look-ahead) -/
def openerAt? (d : Delims) (t : Str) : Option Bool :=
  match stripPrefix? d.tagS t with
  | some r => some (optHyphen r).1
  | none =>
    match stripPrefix? d.stmtS t with
    | some r => some (optHyphen r).1
    | none =>
      if d.cmtS = [] then none
      else match stripPrefix? d.cmtS t with
        | some r => some (optHyphen r).1
        | none => none

/-- CONTENT `.+?(?=(OPENER(-?))|\Z)` on `c :: r`: (characters taken after the first, look-ahead hyphen) -/
def contentAfter (d : Delims) : Str → Nat × Bool
  | [] => (0, false)
  | c :: cs =>
    match openerAt? d (c :: cs) with
    | some h => (0, h)
    | none => let r := contentAfter d cs; (r.1 + 1, r.2)

/-- One `finditer` step at a non-empty position `c :: r` (absolute offset `pos`): the match found there. -/
def matchAt (d : Delims) (pos : Nat) (c : Char) (r : Str) : Match :=
  let t := c :: r
  match blockAt? d kwRaw kwEndraw t with
  | some (body, ro, rc, n) =>
    { kind := .RAW, start := pos, stop := pos + n, value := t.take n, raw := body, rsr := ro, rsr_e := rc }
  | none =>
  match blockAt? d kwDoc kwEnddoc t with
  | some (body, ro, rc, n) =>
    { kind := .DOC, start := pos, stop := pos + n, value := t.take n, doc := body, lsd := ro, rsd := rc }
  | none =>
  let shortc : Option (Str × Bool × Nat) :=
    if d.cmtS = [] then none
    else match stripPrefix? d.cmtS t with
      | none => none
      | some t1 =>
        -- `(?P<comment>.*?)(?P<rsc>-?)CMT_E`
        match findFirst (shortCloseAt? d.cmtE) t1 with
        | none => none
        | some (k, (rs, n2)) => some (t1.take k, rs, d.cmtS.length + k + n2)
  match shortc with
  | some (body, rs, n) =>
    { kind := .COMMENT, start := pos, stop := pos + n, value := t.take n, comment := body, rsc := rs }
  | none =>
  let outp : Option (Str × Nat × Bool × Nat) :=
    match stripPrefix? d.stmtS t with
    | none => none
    | some t1 =>
      let h := optHyphen t1
      let sp := skipSpaces h.2
      match findFirst (closeAt? d.stmtE) sp.2 with
      | none => none
      | some (k, (rs, n2)) =>
        let a := d.stmtS.length + (if h.1 then 1 else 0) + sp.1
        some (sp.2.take k, a, rs, a + k + n2)
  match outp with
  | some (stmt, a, rs, n) =>
    { kind := .OUTPUT, start := pos, stop := pos + n, value := t.take n, stmt := stmt, stmtStart := pos + a, rss := rs }
  | none =>
  let tagm : Option (Str × Nat × Str × Nat × Bool × Nat) :=
    match stripPrefix? d.tagS t with
    | none => none
    | some t1 =>
      let h := optHyphen t1
      let sp := skipSpaces h.2
      -- `(?P<name>#|\w*)`
      let nm : Str × Str := nameGroup sp.2
      let sp2 := skipSpaces nm.2
      match findFirst (closeAt? d.tagE) sp2.2 with
      | none => none
      | some (k, (rs, n2)) =>
        let a := d.tagS.length + (if h.1 then 1 else 0) + sp.1
        let b := a + nm.1.length + sp2.1
        some (nm.1, a, sp2.2.take k, b, rs, b + k + n2)
  match tagm with
  | some (name, a, expr, b, rs, n) =>
    { kind := .TAG, start := pos, stop := pos + n, value := t.take n, name := name, nameStart := pos + a,
      expr := expr, exprStart := pos + b, rst := rs }
  | none =>
    let ca := contentAfter d r
    { kind := .CONTENT, start := pos, stop := pos + (ca.1 + 1), value := t.take (ca.1 + 1), rstrip := ca.2 }

/-- `list(rules.finditer(src))` -/
def scanFrom (d : Delims) (pos : Nat) : Str → List Match
  | [] => []
  | c :: r =>
    let m := matchAt d pos c r
    m :: scanFrom d (pos + ((m.stop - pos - 1) + 1)) (r.drop (m.stop - pos - 1))
termination_by t => t.length
decreasing_by simp only [List.length_drop, List.length_cons]; omega

def scan (d : Delims) (src : Str) : List Match := scanFrom d 0 src

/-- the assumption under which the scanner is the regex: no delimiter is empty (comment pair excepted) or starts
with whitespace, a hyphen or a word character -/
def plainDelim (s : Str) : Bool :=
  match s with
  | [] => false
  | c :: _ => !isSpace c && c != '-' && !isWord c

def Delims.plain (d : Delims) : Bool :=
  plainDelim d.tagS && plainDelim d.tagE && plainDelim d.stmtS && plainDelim d.stmtE &&
  ((d.cmtS = [] && d.cmtE = []) || (plainDelim d.cmtS && plainDelim d.cmtE))

end LiquidVerif.Lex
