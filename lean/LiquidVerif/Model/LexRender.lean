import LiquidVerif.Model.Lex
import LiquidVerif.Model.LiquidLines
/-!
# From tokens to output for the constructs of C10

`parse` mirrors `Parser._parse` (liquid/parser.py) for the token kinds the template lexer produces, with the
`parse` methods of the anchored tags inlined:

* `content`  → `ContentNode(text)` (liquid/builtin/content.py) — `render_to_output` writes `text`;
* `output` + `expression` → an output statement (what it prints is a parameter, `Sem.out`);
* `doc` → `DocNode`, `COMMENT` → `CommentNode` (shorthand) — `render_to_output` returns 0;
* tag `comment` → `CommentTag.parse`: collect token values up to the tag `endcomment` → `CommentNode`;
* tag `#` → `InlineCommentNode` (a `CommentNode`);
* any other tag with its optional expression token → `Node.tag name e?` (what it prints and how it changes
  the render state is a parameter, `Sem.tag`; `liquid`, `echo`, `assign`, … are instances).

`render` folds `render_to_output` over the node list, threading an abstract render state.
Core Lean only.
-/
namespace LiquidVerif.Lex

inductive Node where
  | text (s : Str)
  | output (e : Str)
  | tag (name : Str) (e : Option Str)
  /-- block comment, inline comment or shorthand comment, with the text the node retains -/
  | comment (text : Str)
  | doc (text : Str)
  /-- a token the parser rejects (`comment tag was never closed`, a stray expression, an output without expression) -/
  | illegal
  deriving Repr, DecidableEq

/-- `Parser._parse`; `inC = some txt` while inside `CommentTag.parse`'s collecting loop. -/
def parseGo : Option Str → List Token → List Node
  | none, [] => []
  | some _, [] => [.illegal]
  | some txt, t :: ts =>
    if t.kind = .tag ∧ t.value = kwEndcomment then .comment txt :: parseGo none ts
    else parseGo (some (txt ++ t.value)) ts
  | none, t :: ts =>
    match t.kind, ts with
    | .output, e :: rest =>
      if e.kind = .expression then .output e.value :: parseGo none rest else .illegal :: parseGo none (e :: rest)
    | .output, [] => [.illegal]
    | .doc, ts => .doc t.value :: parseGo none ts
    | .shortComment, ts => .comment t.value :: parseGo none ts
    | .tag, ts =>
      if t.value = kwComment then parseGo (some []) ts
      else
        match ts with
        | e :: rest =>
          if e.kind = .expression then
            (if t.value = kwHash then .comment e.value else .tag t.value (some e.value)) :: parseGo none rest
          else (if t.value = kwHash then .comment kwHash else .tag t.value none) :: parseGo none (e :: rest)
        | [] => [if t.value = kwHash then .comment kwHash else .tag t.value none]
    | .content, ts => .text t.value :: parseGo none ts
    | .expression, ts => .illegal :: parseGo none ts
    | .comment, ts => .illegal :: parseGo none ts
termination_by _ ts => ts.length
decreasing_by all_goals (simp only [wfParam, List.length_cons]; omega)

def parse (ts : List Token) : List Node := parseGo none ts

/-- What output statements and ordinary tags do: print something and change the render state. -/
structure Sem (σ : Type) where
  out : σ → Str → σ × Str
  tag : σ → Str → Option Str → σ × Str

/-- `BoundTemplate.render_with_context` over the top-level nodes: final state and everything written. -/
def render {σ : Type} (sem : Sem σ) : σ → List Node → σ × Str
  | st, [] => (st, [])
  | st, .text s :: ns => let r := render sem st ns; (r.1, s ++ r.2)
  | st, .output e :: ns => let o := sem.out st e; let r := render sem o.1 ns; (r.1, o.2 ++ r.2)
  | st, .tag name e :: ns => let o := sem.tag st name e; let r := render sem o.1 ns; (r.1, o.2 ++ r.2)
  | st, .comment _ :: ns => render sem st ns
  | st, .doc _ :: ns => render sem st ns
  | st, .illegal :: ns => render sem st ns

/-- lex, parse: the node list of a template assembled from pieces, starting with `lstrip = lf` -/
def nodesFrom (d : Delims) (lf : Bool) (ps : List Piece) : Except LexError (List Node) :=
  match tokenize { lstrip := lf } (matchesOf d 0 ps) with
  | .error e => .error e
  | .ok ts => .ok (parse ts)

def nodesOf (d : Delims) (ps : List Piece) : Except LexError (List Node) := nodesFrom d false ps

/-! ## A small concrete `Sem` for the driver (stream `render`)

Output statements and `echo` print a quoted string literal or an integer literal, or the value of a variable
set by `assign`; `assign v = <literal>` stores; `liquid` runs the inner tokens of `LiquidLines.tokenizeLiquid`
(`echo`, `assign`; `#` lines are comments).
Anything else prints nothing. The state is the assignment list. -/

abbrev Env := List (Str × Str)

def lookupVar (env : Env) (k : Str) : Option Str :=
  match env with
  | [] => none
  | (a, b) :: r => if a = k then some b else lookupVar r k

def strip (s : Str) : Str := rstrip (lstrip s)

/-- value of a literal or variable expression (`'abc'`, `"abc"`, `123`, `name`) -/
def evalExpr (env : Env) (e : Str) : Str :=
  let e := strip e
  match e with
  | '\'' :: r => (r.takeWhile (· != '\''))
  | '"' :: r => (r.takeWhile (· != '"'))
  | _ =>
    if e.all Char.isDigit then e
    else match lookupVar env e with
      | some v => v
      | none => []

/-- split `name = value` -/
def splitAssign (e : Str) : Str × Str :=
  let k := e.takeWhile (· != '=')
  let v := (e.dropWhile (· != '=')).drop 1
  (strip k, strip v)

def kwEcho : Str := ['e', 'c', 'h', 'o']
def kwAssign : Str := ['a', 's', 's', 'i', 'g', 'n']
def kwLiquid : Str := ['l', 'i', 'q', 'u', 'i', 'd']

def simpleTag (env : Env) (name : Str) (e : Str) : Env × Str :=
  if name = kwEcho then (env, evalExpr env e)
  else if name = kwAssign then
    let kv := splitAssign e
    ((kv.1, evalExpr env kv.2) :: env, [])
  else (env, [])

/-- the inner tokens of a `liquid` tag (`_tokenize_liquid_expression`, model `LiquidLines.tokenizeLiquid` shared
with C20) run as tags: a `tag` token with the `expression` token that follows it, if any -/
def runInner (env : Env) : List LiquidLines.Token → Env × Str
  | [] => (env, [])
  | t :: rest =>
    if t.kind = "tag" then
      match rest with
      | e :: rest' =>
        if e.kind = "expression" then
          let o := simpleTag env t.value e.value
          let r := runInner o.1 rest'
          (r.1, o.2 ++ r.2)
        else
          let o := simpleTag env t.value []
          let r := runInner o.1 (e :: rest')
          (r.1, o.2 ++ r.2)
      | [] => simpleTag env t.value []
    else runInner env rest
termination_by ts => ts.length
decreasing_by all_goals (simp only [List.length_cons]; omega)

/-- `cmtS` = `env.comment_start_string` (decides which lines of a `liquid` tag are comments) -/
def concreteSem (cmtS : Str) : Sem Env where
  out := fun env e => (env, evalExpr env e)
  tag := fun env name e =>
    let ex := e.getD []
    if name = kwLiquid then
      let r := LiquidLines.tokenizeLiquid cmtS 0 ex
      -- an ILLEGAL line raises a syntax error in the implementation; the generators never produce one
      if r.2 then (env, []) else runInner env r.1
    else simpleTag env name ex

/-- `env.from_string(assemble d ps).render()` for the constructs above -/
def renderPieces (d : Delims) (ps : List Piece) : Except LexError Str :=
  match nodesOf d ps with
  | .error e => .error e
  | .ok ns => .ok (render (concreteSem d.cmtS) [] ns).2

end LiquidVerif.Lex
