/-!
# C19 — static analysis (`liquid/static_analysis.py`) and a render that emits an access trace

`_visit` of `liquid/static_analysis.py` is generic: it only uses a node's *analysis interface*
(`token`, `expressions()`, `template_scope()`, `block_scope()`, `partial_scope()`, `children()`).
The model therefore has two node shapes only:

* `Node.plain h cs` — any node without a `partial_scope()` (output, assign, capture, if, for, with,
  macro, call, the `BlockNode`/`ConditionalBlockNode` wrappers …) with header `h` and children `cs`;
* `Node.part h iso name argNames bound body` — `include` (`iso = false`, `PartialScope.SHARED`,
  `key = None`) and `render` (`iso = true`, `PartialScope.ISOLATED`,
  `key = hash((name, *argNames))`); `body` is what `children()` yields, i.e. the nodes of the loaded
  partial (templates are finite trees here: a recursive partial graph is outside the model).

`visitNode`/`visitNodes` mirror `_visit` statement by statement: the `seen` map (with its `None`
entries), `just_globals`, the static scope stack with `add` going to `stack[0]`, SHARED partials
pushed on the **root** scope (whatever the current scope is), ISOLATED partials getting a fresh
scope.

The dynamic side (`renderNode`) is choice driven: a list of booleans decides which nodes are rendered
and which `Path`s / filters of an evaluated expression are actually evaluated.  What it fixes is what
the real render fixes: a node evaluates only its `expressions()` and renders only its `children()`;
`include` is disabled (raises before evaluating anything) inside `render`ed partials and macro
bodies; an ISOLATED partial sees only its arguments.  Every `get` event carries the ghost flag `exc`:
the reference is textually inside a block binding the name, or preceded in source order by an
assignment to it (`A` = names assigned so far in source order, `K` = names bound by enclosing
blocks / partial arguments).
-/

namespace LiquidVerif.Analysis

abbrev Name := String

/-- One `Path` occurrence inside an expression: root segment and token start index. -/
structure PRef where
  root : Name
  pos : Nat
deriving DecidableEq, Repr

/-- An expression as the analysis sees it: every `Path` in it (`_analyze_variables` order) and every
filter name (`_extract_filters` order). -/
structure Expr where
  refs : List PRef
  filters : List Name
deriving DecidableEq, Repr

/-- A located reference: root, template name, token start index (`Variable` + `Span`). -/
structure Loc where
  root : Name
  tmpl : Name
  pos : Nat
deriving DecidableEq, Repr

/-- The analysis interface of a node. `tag = some (name, index)` iff `token.kind == TOKEN_TAG` and the
node is not a `BlockNode`/`ConditionalBlockNode`/`MultiExpressionBlockNode`.  `seals`: the children
are only ever rendered in a copied context with `include` disabled (macro bodies). -/
structure Hdr where
  tag : Option (Name × Nat)
  exprs : List Expr
  tscope : List Name
  bscope : List Name
  seals : Bool
deriving DecidableEq, Repr

mutual
inductive Node where
  | plain (h : Hdr) (cs : Nodes)
  | part (h : Hdr) (iso : Bool) (name : Name) (argNames : List Name) (bound : Option Name) (body : Nodes)
inductive Nodes where
  | nil
  | cons (n : Node) (ns : Nodes)
end

/-! ## The static side -/

/-- `_StaticScope`: `base` is `stack[0]`, `blocks` the pushed sets (head = top). -/
structure Scope where
  base : List Name
  blocks : List (List Name)
deriving Repr

def Scope.has (s : Scope) (n : Name) : Bool := s.base.contains n || s.blocks.any (·.contains n)
def Scope.push (s : Scope) (b : List Name) : Scope := { s with blocks := b :: s.blocks }
def Scope.pop (s : Scope) : Scope := { s with blocks := s.blocks.tail }
def Scope.add (s : Scope) (n : Name) : Scope := { s with base := n :: s.base }

abbrev Key := Option (List Name)

/-- Everything `_visit` reads and writes. `inIso` says which object the `scope` argument is:
the root scope or the innermost isolated scope `iso`. -/
structure St where
  root : Scope
  iso : Scope
  inIso : Bool
  seen : List (Name × Key)
  vars : List Loc
  globs : List Loc
  locs : List Name
  filters : List Name
  tags : List (Name × Name × Nat)
deriving Repr

def St.init : St := ⟨⟨[], []⟩, ⟨[], []⟩, false, [], [], [], [], [], []⟩

def St.cur (st : St) : Scope := if st.inIso then st.iso else st.root
def St.modCur (st : St) (f : Scope → Scope) : St :=
  if st.inIso then { st with iso := f st.iso } else { st with root := f st.root }

def mkLoc (tmpl : Name) (r : PRef) : Loc := ⟨r.root, tmpl, r.pos⟩

/-- `_analyze_variables` + `_extract_filters` for one expression of `node.expressions()`. -/
def exprStep (tmpl : Name) (jg : Bool) (st : St) (e : Expr) : St :=
  { st with
    vars := if jg then st.vars else st.vars ++ e.refs.map (mkLoc tmpl)
    globs := st.globs ++ (e.refs.filter fun r => !st.cur.has r.root).map (mkLoc tmpl)
    filters := if jg then st.filters else st.filters ++ e.filters }

def scopeAdd (st : St) (x : Name) : St :=
  { (st.modCur (·.add x)) with locs := st.locs ++ [x] }

/-- `if template_name and not just_globals: seen[template_name].add(None)` -/
def markSeen (tmpl : Name) (jg : Bool) (st : St) : St :=
  if tmpl ≠ "" ∧ jg = false then { st with seen := (tmpl, none) :: st.seen } else st

/-- `tags[node.token.value].append(Span(template_name, node.token.start_index))` -/
def addTag (h : Hdr) (tmpl : Name) (jg : Bool) (st : St) : St :=
  match h.tag with
  | some (t, p) => if jg then st else { st with tags := st.tags ++ [(t, tmpl, p)] }
  | none => st

/-- The part of `_visit` before the `partial_scope()` test. -/
def hdrStep (h : Hdr) (tmpl : Name) (jg : Bool) (st : St) : St :=
  h.tscope.foldl scopeAdd (h.exprs.foldl (exprStep tmpl jg) (addTag h tmpl jg (markSeen tmpl jg st)))

def partKey (iso : Bool) (name : Name) (argNames : List Name) : Key :=
  if iso then some (name :: argNames) else none

/-- `seen[partial_name].add(partial.key)` -/
def addSeen (st : St) (p : Name × Key) : St := { st with seen := p :: st.seen }
/-- `partial_scope = _StaticScope(set(partial.in_scope))`; children are visited with it. -/
def enterIso (st : St) (inScope : List Name) : St := { st with iso := ⟨inScope, []⟩, inIso := true }
/-- Back in the caller's activation: its `scope` argument is what it was. -/
def leaveIso (st old : St) : St := { st with iso := old.iso, inIso := old.inIso }
/-- `partial_scope = root_scope.push(set(partial.in_scope))`; children are visited with `root_scope`. -/
def enterShared (st : St) (inScope : List Name) : St := { st with root := st.root.push inScope, inIso := false }
/-- `partial_scope.pop()` on the root scope; back in the caller's activation. -/
def leaveShared (st old : St) : St := { st with root := st.root.pop, inIso := old.inIso }

mutual
def visitNode : Node → Name → Bool → St → St
  | .plain h cs, tmpl, jg, st =>
    let st := hdrStep h tmpl jg st
    let st := st.modCur (·.push h.bscope)
    let st := visitNodes cs tmpl jg st
    st.modCur (·.pop)
  | .part h iso name argNames bound body, tmpl, jg, st =>
    let st := hdrStep h tmpl jg st
    let key := partKey iso name argNames
    let jg' := st.seen.any (·.1 == name)
    if st.seen.contains (name, key) then st
    else
      let st1 := addSeen st (name, key)
      let tmpl' := if name = "" then tmpl else name
      let inScope := argNames ++ bound.toList
      if iso then leaveIso (visitNodes body tmpl' (jg || jg') (enterIso st1 inScope)) st1
      else leaveShared (visitNodes body tmpl' (jg || jg') (enterShared st1 inScope)) st1
def visitNodes : Nodes → Name → Bool → St → St
  | .nil, _, _, st => st
  | .cons n ns, tmpl, jg, st => visitNodes ns tmpl jg (visitNode n tmpl jg st)
end

/-- `analyze(template, include_partials=True)`. -/
def analyze (ns : Nodes) (tmpl : Name) : St := visitNodes ns tmpl false St.init

/-! ## The dynamic side -/

inductive Ev where
  | get (l : Loc) (exc : Bool)
  | filt (name : Name)
  | tag (name : Name)
deriving DecidableEq, Repr

mutual
/-- Names a node adds to the template scope shared with what follows it in source order. -/
def assignedNode : Node → List Name
  | .plain h cs => h.tscope ++ assignedNodes cs
  | .part h iso _ _ _ body => h.tscope ++ (if iso then [] else assignedNodes body)
def assignedNodes : Nodes → List Name
  | .nil => []
  | .cons n ns => assignedNode n ++ assignedNodes ns
end

def exprEvents (tmpl : Name) (A K : List Name) (e : Expr) : List Ev :=
  e.refs.map (fun r => Ev.get (mkLoc tmpl r) (A.contains r.root || K.contains r.root))
    ++ e.filters.map Ev.filt

def tagEvents (h : Hdr) : List Ev :=
  match h.tag with
  | some (t, _) => [Ev.tag t]
  | none => []

def hdrEvents (h : Hdr) (tmpl : Name) (A K : List Name) : List Ev :=
  tagEvents h ++ h.exprs.flatMap (exprEvents tmpl A K)

def pick : List Bool → Bool × List Bool
  | [] => (false, [])
  | b :: bs => (b, bs)

/-- Keep the events the choices select (an expression may be evaluated partly: short circuits,
ternaries, errors). -/
def choose : List Ev → List Bool → List Ev × List Bool
  | [], ch => ([], ch)
  | e :: es, ch =>
    let r := choose es (pick ch).2
    (if (pick ch).1 then e :: r.1 else r.1, r.2)

mutual
/-- `Node.render`: `A`/`K` are ghost (textual context), `dis` = `"include" ∈ context.disabled_tags`. -/
def renderNode : Node → Name → List Name → List Name → Bool → List Bool → List Ev × List Bool
  | .plain h cs, tmpl, A, K, dis, ch =>
    if (pick ch).1 then
      let r1 := choose (hdrEvents h tmpl A K) (pick ch).2
      let r2 := renderNodes cs tmpl (A ++ h.tscope) (K ++ h.bscope) (dis || h.seals) r1.2
      (r1.1 ++ r2.1, r2.2)
    else ([], (pick ch).2)
  | .part h iso name argNames bound body, tmpl, A, K, dis, ch =>
    if (pick ch).1 then
      if !iso && dis then ([], (pick ch).2)     -- DisabledTagError, raised before anything is evaluated
      else
        let r1 := choose (hdrEvents h tmpl A K) (pick ch).2
        let tmpl' := if name = "" then tmpl else name
        let inScope := argNames ++ bound.toList
        let r2 :=
          if iso then renderNodes body tmpl' [] inScope true r1.2
          else renderNodes body tmpl' (A ++ h.tscope) (K ++ inScope) dis r1.2
        (r1.1 ++ r2.1, r2.2)
    else ([], (pick ch).2)
def renderNodes : Nodes → Name → List Name → List Name → Bool → List Bool → List Ev × List Bool
  | .nil, _, _, _, _, ch => ([], ch)
  | .cons n ns, tmpl, A, K, dis, ch =>
    let r1 := renderNode n tmpl A K dis ch
    let r2 := renderNodes ns tmpl (A ++ assignedNode n) K dis r1.2
    (r1.1 ++ r2.1, r2.2)
end

/-- The access trace of one render of a template (`ch` stands for the data). -/
def render (ns : Nodes) (tmpl : Name) (ch : List Bool) : List Ev :=
  (renderNodes ns tmpl [] [] false ch).1

mutual
/-- Everything some render can emit (the trace of the render that takes every choice). -/
def reachNode : Node → Name → List Name → List Name → Bool → List Ev
  | .plain h cs, tmpl, A, K, dis =>
    hdrEvents h tmpl A K ++ reachNodes cs tmpl (A ++ h.tscope) (K ++ h.bscope) (dis || h.seals)
  | .part h iso name argNames bound body, tmpl, A, K, dis =>
    if !iso && dis then []
    else
      hdrEvents h tmpl A K ++
        (if iso then reachNodes body (if name = "" then tmpl else name) [] (argNames ++ bound.toList) true
         else reachNodes body (if name = "" then tmpl else name) (A ++ h.tscope)
                (K ++ (argNames ++ bound.toList)) dis)
def reachNodes : Nodes → Name → List Name → List Name → Bool → List Ev
  | .nil, _, _, _, _ => []
  | .cons n ns, tmpl, A, K, dis =>
    reachNode n tmpl A K dis ++ reachNodes ns tmpl (A ++ assignedNode n) K dis
end

def reach (ns : Nodes) (tmpl : Name) : List Ev := reachNodes ns tmpl [] [] false

/-! ## Hypotheses of the partial theorem -/

mutual
def partNamesNode : Node → List Name
  | .plain _ cs => partNamesNodes cs
  | .part _ _ name _ _ body => name :: partNamesNodes body
def partNamesNodes : Nodes → List Name
  | .nil => []
  | .cons n ns => partNamesNode n ++ partNamesNodes ns
end

mutual
/-- No SHARED partial (`include`) below an ISOLATED partial or a macro body (`d`). -/
def noDeadIncNode : Node → Bool → Bool
  | .plain h cs, d => noDeadIncNodes cs (d || h.seals)
  | .part _ iso _ _ _ body, d => (iso || !d) && noDeadIncNodes body (d || iso)
def noDeadIncNodes : Nodes → Bool → Bool
  | .nil, _ => true
  | .cons n ns, d => noDeadIncNode n d && noDeadIncNodes ns d
end

/-- What the property asks of one event, given the analysis result. -/
def evOk (st : St) : Ev → Bool
  | .get l exc => st.vars.contains l && (exc || st.globs.contains l)
  | .filt f => st.filters.contains f
  | .tag t => st.tags.any (·.1 == t)

/-- The first sentence of the property only (reported variables, filters, tags). -/
def evOk1 (st : St) : Ev → Bool
  | .get l _ => st.vars.contains l
  | .filt f => st.filters.contains f
  | .tag t => st.tags.any (·.1 == t)

/-! ## The hypothesis the `seen` de-duplication actually needs (sentence 2) -/

mutual
/-- Names of SHARED partials (`include`) in the expanded tree. -/
def inclNamesNode : Node → List Name
  | .plain _ cs => inclNamesNodes cs
  | .part _ iso name _ _ body => (if iso then [] else [name]) ++ inclNamesNodes body
def inclNamesNodes : Nodes → List Name
  | .nil => []
  | .cons n ns => inclNamesNode n ++ inclNamesNodes ns
end

mutual
/-- Names of ISOLATED partials (`render`) in the expanded tree. -/
def isoNamesNode : Node → List Name
  | .plain _ cs => isoNamesNodes cs
  | .part _ iso name _ _ body => (if iso then [name] else []) ++ isoNamesNodes body
def isoNamesNodes : Nodes → List Name
  | .nil => []
  | .cons n ns => isoNamesNode n ++ isoNamesNodes ns
end

mutual
/-- (name, argument names, bound variable) of every ISOLATED partial node. -/
def isoTriplesNode : Node → List (Name × List Name × Option Name)
  | .plain _ cs => isoTriplesNodes cs
  | .part _ iso name args bound body => (if iso then [(name, args, bound)] else []) ++ isoTriplesNodes body
def isoTriplesNodes : Nodes → List (Name × List Name × Option Name)
  | .nil => []
  | .cons n ns => isoTriplesNode n ++ isoTriplesNodes ns
end

/-- The bound variable the first rendered partial with this key has. -/
def bdOf (ts : List (Name × List Name × Option Name)) (name : Name) (args : List Name) : Option Name :=
  match ts.find? (fun t => t.1 == name && t.2.1 == args) with
  | some t => t.2.2
  | none => none

/-- Equal `render` keys (name, argument names) mean equal bound variables, i.e. equal static scopes. -/
def boundFunctional (ts : List (Name × List Name × Option Name)) : Bool :=
  ts.all fun t => bdOf ts t.1 t.2.1 == t.2.2

/-- Decidable part of the weaker hypothesis: no `include` below a `render`/macro, every `include`d name is
reached once and is not also rendered, the root is not a partial, equal render keys mean equal scopes.
(Rendered partials may be reached any number of times.) -/
def hyp2b (ns : Nodes) (tmpl : Name) : Bool :=
  noDeadIncNodes ns false && decide (inclNamesNodes ns).Nodup &&
  (inclNamesNodes ns).all (fun x => !(isoNamesNodes ns).contains x) &&
  !(partNamesNodes ns).contains tmpl && boundFunctional (isoTriplesNodes ns)

end LiquidVerif.Analysis
