import LiquidVerif.Model.Cond
import LiquidVerif.Gen.C12Tables
/-!
# Model of the Pratt parser of `liquid/builtin/expressions/logical.py`

`parse_boolean_primitive` (prefix position, then the `while True` loop), `parse_infix_expression`,
`LogicalNotExpression.parse`, `parse_grouped_expression`, `BooleanExpression.parse`, and the evaluation of the
parsed tree (`LogicalAnd/Or/NotExpression.evaluate`, the comparison nodes).

Tokens are abstracted to what the parser looks at: a primitive operand (`atom n`: literal, path or range
literal — each a single operand for this parser), the ten binary-operator kinds, `not`, `(`, `)`, and `junk`
(any other kind: `,` `:` `|` `else` …).  Precedences, the binary-operator set and the kind → node table are
**not written here**: they are the constants of `Gen/C12Tables.lean`, regenerated from the source on every run.

No fuel: recursion is on the length of the remaining token list.  The `else none` of the three
`if _ : r'.length … then … else none` tests is dead code (`parsePrim_consumes` in `Lemmas/CondParse.lean` proves
the test always holds); it only makes the termination argument local.
Core Lean only.
-/
namespace LiquidVerif.CondParse
open LiquidVerif.Value LiquidVerif.Cond
open LiquidVerif.Gen

inductive Op | eq | ne | lg | lt | gt | le | ge | contains | and | or
  deriving DecidableEq, Repr

inductive Tok
  | atom (n : Nat) | op (o : Op) | not | lp | rp | junk
  deriving DecidableEq, Repr

inductive E
  | atom (n : Nat)
  | and (l r : E)
  | or (l r : E)
  | not (e : E)
  | cmp (c : Cmp) (l r : E)
  deriving DecidableEq, Repr

/-- `Environment.logical_not_operator`, `Environment.logical_parentheses` (both default to False) -/
structure Flags where
  allowNot : Bool
  allowParens : Bool
  deriving DecidableEq, Repr

/-- `PRECEDENCES.get(token.kind, PRECEDENCE_LOWEST)` -/
def prec : Tok → Nat
  | .op .eq => C12Tables.precEq
  | .op .ne => C12Tables.precNe
  | .op .lg => C12Tables.precLg
  | .op .lt => C12Tables.precLt
  | .op .gt => C12Tables.precGt
  | .op .le => C12Tables.precLe
  | .op .ge => C12Tables.precGe
  | .op .contains => C12Tables.precContains
  | .op .and => C12Tables.precAnd
  | .op .or => C12Tables.precOr
  | .not => C12Tables.precNot
  | .lp => C12Tables.precLParen
  | .rp => C12Tables.precRParen
  | .atom _ => C12Tables.precOther
  | .junk => C12Tables.precOther

/-- `token.kind in BINARY_OPERATORS` -/
def isBin : Tok → Bool
  | .op .eq => C12Tables.binEq
  | .op .ne => C12Tables.binNe
  | .op .lg => C12Tables.binLg
  | .op .lt => C12Tables.binLt
  | .op .gt => C12Tables.binGt
  | .op .le => C12Tables.binLe
  | .op .ge => C12Tables.binGe
  | .op .contains => C12Tables.binContains
  | .op .and => C12Tables.binAnd
  | .op .or => C12Tables.binOr
  | .not => C12Tables.binNot
  | .lp => C12Tables.binLParen
  | .rp => C12Tables.binRParen
  | .atom _ => false
  | .junk => false

/-- the node class named in the `if token.kind == …: return XxExpression(token, left, …)` chain -/
def build (cls : String) (l r : E) : Option E :=
  if cls == "EqExpression" then some (.cmp .eq l r)
  else if cls == "NeExpression" then some (.cmp .ne l r)
  else if cls == "LtExpression" then some (.cmp .lt l r)
  else if cls == "GtExpression" then some (.cmp .gt l r)
  else if cls == "LeExpression" then some (.cmp .le l r)
  else if cls == "GeExpression" then some (.cmp .ge l r)
  else if cls == "ContainsExpression" then some (.cmp .contains l r)
  else if cls == "LogicalAndExpression" then some (.and l r)
  else if cls == "LogicalOrExpression" then some (.or l r)
  else none

/-- `parse_infix_expression`'s dispatch; `none` = "expected an infix expression" (LiquidSyntaxError) -/
def mkInfix : Tok → E → E → Option E
  | .op .eq, l, r => build C12Tables.nodeEq l r
  | .op .ne, l, r => build C12Tables.nodeNe l r
  | .op .lg, l, r => build C12Tables.nodeLg l r
  | .op .lt, l, r => build C12Tables.nodeLt l r
  | .op .gt, l, r => build C12Tables.nodeGt l r
  | .op .le, l, r => build C12Tables.nodeLe l r
  | .op .ge, l, r => build C12Tables.nodeGe l r
  | .op .contains, l, r => build C12Tables.nodeContains l r
  | .op .and, l, r => build C12Tables.nodeAnd l r
  | .op .or, l, r => build C12Tables.nodeOr l r
  | _, _, _ => none

/-- the loop's `break` test: `PRECEDENCES.get(kind, LOWEST) < precedence` -/
def stops (t : Tok) (p : Nat) : Bool :=
  if C12Tables.breakStrict then decide (prec t < p) else decide (prec t ≤ p)

mutual
/-- `parse_boolean_primitive(env, tokens, precedence)`; `none` = LiquidSyntaxError -/
def parsePrim (fl : Flags) (p : Nat) (ts : List Tok) : Option (E × List Tok) :=
  match ts with
  | [] => none                                            -- "expected a primitive expression, found eof"
  | .atom n :: r => loop fl p (.atom n) r
  | .lp :: r =>                                           -- parse_grouped_expression
    if !fl.allowParens then none else
    match parsePrim fl C12Tables.groupPrec r with
    | some (e, .rp :: r') => if _ : r'.length < r.length then loop fl p e r' else none
    | _ => none                                           -- "unbalanced parentheses" / "expected an infix expression"
  | .not :: r =>                                          -- LogicalNotExpression.parse
    if !fl.allowNot then none else
    match parsePrim fl C12Tables.notOperandPrec r with
    | some (e, r') => if _ : r'.length ≤ r.length then loop fl p (.not e) r' else none
    | none => none
  | .op _ :: _ => none                                    -- "expected a primitive expression, found …"
  | .rp :: _ => none
  | .junk :: _ => none
termination_by ts.length
decreasing_by all_goals simp_wf <;> omega
/-- the `while True:` loop of `parse_boolean_primitive`, `left` parsed so far -/
def loop (fl : Flags) (p : Nat) (left : E) (ts : List Tok) : Option (E × List Tok) :=
  match ts with
  | [] => some (left, [])                                  -- token == tokens.eof: break
  | t :: r =>
    if stops t p then some (left, t :: r)                  -- break
    else if !isBin t then some (left, t :: r)              -- return left
    else
      match parsePrim fl (prec t) r with                   -- parse_infix_expression
      | some (right, r') =>
        match mkInfix t left right with
        | some e => if _ : r'.length ≤ r.length then loop fl p e r' else none
        | none => none
      | none => none
termination_by ts.length
decreasing_by all_goals simp_wf <;> omega
end

/-- `BooleanExpression.parse(env, tokens)` (`inline=False`): the whole stream must be consumed -/
def parse (fl : Flags) (ts : List Tok) : Option E :=
  match parsePrim fl C12Tables.topPrec ts with
  | some (e, []) => some e
  | _ => none                                              -- tokens.eat(TOKEN_EOF) fails

/-- `BooleanExpression.parse(env, tokens, inline=True)` (ternary condition): stops at the first token that is
    neither an operand nor an operator and leaves it in the stream -/
def parseInline (fl : Flags) (ts : List Tok) : Option (E × List Tok) := parsePrim fl C12Tables.topPrec ts

/-! ## evaluation -/

/-- `Expression.evaluate` for the parsed tree. `env n` is the value of operand `n`, `hs n` its host `str()`.
    `and` / `or` short-circuit exactly as Python's do (a type error in an unevaluated operand is not raised);
    `GtExpression`/`GeExpression` evaluate the right operand first, which is invisible at error-class level. -/
def evalE (env : Nat → Val) (hs : Nat → String) : E → Res Val
  | .atom n => .ok (env n)
  | .and l r =>
    (evalE env hs l).bind fun a =>
      if !isTruthy a then .ok (.bool false) else (evalE env hs r).bind fun b => .ok (.bool (isTruthy b))
  | .or l r =>
    (evalE env hs l).bind fun a =>
      if isTruthy a then .ok (.bool true) else (evalE env hs r).bind fun b => .ok (.bool (isTruthy b))
  | .not e => (evalE env hs e).bind fun a => .ok (.bool (!isTruthy a))
  | .cmp c l r =>
    (evalE env hs l).bind fun a => (evalE env hs r).bind fun b =>
      (evalCmp (match r with | .atom n => hs n | _ => "") c a b).bind fun x => .ok (.bool x)

/-- `BooleanExpression.evaluate`: `is_truthy(self.expression.evaluate(context))` -/
def evalCond (env : Nat → Val) (hs : Nat → String) (e : E) : Res Bool :=
  (evalE env hs e).bind fun v => .ok (isTruthy v)

end LiquidVerif.CondParse
