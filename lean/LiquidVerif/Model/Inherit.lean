/-!
Model of `liquid/extra/tags/extends_tag.py` (template inheritance: `extends`, `block`, `block.super`).

What is mirrored, as written:

* `_find_inheritance_nodes`  : pre-order walk collecting every `BlockNode` (through blocks and loops) and
                               every `ExtendsNode` (`blocksOfItem`, `Template.exts`, `Template.blocks`);
* `_stack_blocks`            : `len(extends) > 1` → TemplateInheritanceError, then the `seen_block_names`
                               loop (duplicate → TemplateInheritanceError), then `_store_blocks`, result
                               `extends[0]` or `None` (`stackBlocks`);
* `_store_blocks`            : append a `_BlockStackItem` to the per-name stack (leaf first); the
                               `required = False if stack and not block.required else block.required` rule is
                               kept literally (`storeOne`); `stack[-2].parent = stack[-1]` makes the parent of
                               an entry the next entry of the list, which is how `parents` is passed around here;
* `_build_block_stacks`      : `_stack_template_blocks` + the `while next_template` loop with the `seen` set
                               (`buildFrom`); it terminates because every round adds a loader name that was not
                               in `seen` (measure: number of loader names not in `seen`);
* `ExtendsNode.render_to_output` : build the stacks from the leaf, render the base template, `StopRender`;
* `BlockNode.render_to_output`   : no stack → "rendered directly" path (required → RequiredBlockError, else own
                               body, `block.super` undefined); stack → `stack[0]`, its `required` flag →
                               RequiredBlockError, `context.copy` (ContextDepthError when `_copy_depth > limit`),
                               body of `stack[0]` with `parent = stack[0].parent`;
* `BlockDrop.__getitem__("super")` : no parent → undefined (renders as the empty string with the default
                               `Undefined`); else the parent's body rendered in the context in which the block
                               node was met (`outer`), with the grand-parent as the new parent.

Scopes: a block body sees the variables visible where the block node stands (`block_scope=True` chains the
copied context to `self.scope`).  `BlockDrop.context` is the context in which the block node was met; a
`block.super` body is rendered *there*: seen from the overriding definition (which runs in the copied context)
that is the scope at the block tag (`outer = some sc₀`, loop variables of the overriding definition are not
visible); a chained `block.super` inside a super body is already running in that context (`outer = none`) and
therefore sees the loop variables of the super body it is written in.

Not modelled: `assign`/`capture` (a block is its own local scope), the `scope.size()` check of
`RenderContext.extend`, autoescape, the asynchronous twin (C01), error messages and tokens.
`depth` is the number of `context.copy` calls on the call path; a block met inside a `block.super` body is
counted from the overriding block's context (one more than `_copy_depth`, only visible at the limit).
-/
namespace LiquidVerif.Inherit

inductive Err where
  | requiredBlock        -- RequiredBlockError
  | inheritance          -- TemplateInheritanceError
  | notFound             -- TemplateNotFoundError
  | contextDepth         -- ContextDepthError
  deriving DecidableEq, Repr

inductive Item where
  | text (s : String)
  | var (x : String)                                      -- `{{ x }}`
  | super                                                 -- `{{ block.super }}`
  | block (name : String) (required : Bool) (body : List Item)
  | loop (v : String) (n : Nat) (body : List Item)        -- `{% for v in (1..n) %}`
  deriving Repr

/-- top-level node of a template: an `extends` tag or any other node -/
inductive Top where
  | ext (parent : String)
  | node (i : Item)
  deriving Repr

structure Template where
  items : List Top
  deriving Repr

/-- `DictLoader`: first entry with the name -/
abbrev Loader := List (String × Template)

/-- a `BlockNode` as `_find_inheritance_nodes` returns it -/
structure Blk where
  name : String
  required : Bool
  body : List Item
  deriving Repr

/-- `_BlockStackItem` without its `parent` link (the link is the list successor) -/
structure Def where
  required : Bool
  body : List Item
  deriving Repr

abbrev Stacks := List (String × List Def)
abbrev Scope := List (String × String)

def lookup {α} (l : List (String × α)) (k : String) : Option α :=
  match l with
  | [] => none
  | (k', v) :: r => if k' == k then some v else lookup r k

@[simp] theorem lookup_nil {α} (k : String) : lookup ([] : List (String × α)) k = none := rfl
@[simp] theorem lookup_cons {α} (k' : String) (v : α) (r : List (String × α)) (k : String) :
    lookup ((k', v) :: r) k = if k' == k then some v else lookup r k := rfl

def lookupVar (sc : Scope) (x : String) : String := (lookup sc x).getD ""

/-! ### `_find_inheritance_nodes` -/
mutual
def blocksOfItem : Item → List Blk
  | .block name req body => ⟨name, req, body⟩ :: blocksOfItems body
  | .loop _ _ body => blocksOfItems body
  | _ => []
def blocksOfItems : List Item → List Blk
  | [] => []
  | i :: is => blocksOfItem i ++ blocksOfItems is
end

def Top.blocks : Top → List Blk
  | .ext _ => []
  | .node i => blocksOfItem i

def topsBlocks : List Top → List Blk
  | [] => []
  | t :: ts => t.blocks ++ topsBlocks ts

def topsExts : List Top → List String
  | [] => []
  | .ext p :: ts => p :: topsExts ts
  | .node _ :: ts => topsExts ts

def topsNodes : List Top → List Item
  | [] => []
  | .ext _ :: ts => topsNodes ts
  | .node i :: ts => i :: topsNodes ts

def Template.blocks (t : Template) : List Blk := topsBlocks t.items
def Template.exts (t : Template) : List String := topsExts t.items
def Template.nodes (t : Template) : List Item := topsNodes t.items

/-! ### `_stack_blocks` / `_store_blocks` -/

/-- the `seen_block_names` loop: `true` when some name occurs twice -/
def hasDupFrom (seen : List String) : List Blk → Bool
  | [] => false
  | b :: bs => if seen.contains b.name then true else hasDupFrom (b.name :: seen) bs

def hasDup (bs : List Blk) : Bool := hasDupFrom [] bs

/-- one round of the `for block in blocks` loop of `_store_blocks` -/
def storeOne (st : Stacks) (b : Blk) : Stacks :=
  match st with
  | [] => [(b.name, [⟨b.required, b.body⟩])]      -- `defaultdict`: fresh empty stack, `required = block.required`
  | (k, stack) :: r =>
    if k == b.name then
      let required := if !stack.isEmpty && !b.required then false else b.required
      (k, stack ++ [⟨required, b.body⟩]) :: r
    else (k, stack) :: storeOne r b

def storeBlocks (st : Stacks) : List Blk → Stacks
  | [] => st
  | b :: bs => storeBlocks (storeOne st b) bs

def stackBlocks (st : Stacks) (t : Template) : Except Err (Stacks × Option String) :=
  if t.exts.length > 1 then .error .inheritance            -- too many 'extends' tags
  else if hasDup t.blocks then .error .inheritance         -- duplicate block
  else .ok (storeBlocks st t.blocks, t.exts.head?)

/-! ### `_build_block_stacks` -/

def unseen (ld : Loader) (seen : List String) : List String :=
  (ld.map (·.1)).filter (fun k => !seen.contains k)

theorem lookup_mem_keys {α} {l : List (String × α)} {k : String} {v : α} (h : lookup l k = some v) :
    k ∈ l.map (·.1) := by
  induction l with
  | nil => simp [lookup] at h
  | cons p r ih =>
    obtain ⟨k', v'⟩ := p
    simp only [lookup] at h
    by_cases hk : (k' == k) = true
    · simp at hk; simp [hk]
    · simp [hk] at h; simp [ih h]

theorem filter_length_lt_of_mem (l : List String) (p q : String → Bool) (x : String)
    (hx : x ∈ l) (hp : p x = true) (hq : q x = false) (himp : ∀ y, q y = true → p y = true) :
    (l.filter q).length < (l.filter p).length := by
  induction l with
  | nil => cases hx
  | cons a r ih =>
    have hle : ∀ (r : List String), (r.filter q).length ≤ (r.filter p).length := by
      intro r
      induction r with
      | nil => simp
      | cons b r ih =>
        simp only [List.filter]
        cases hqb : q b with
        | true => simp [himp b hqb]; exact ih
        | false => cases hpb : p b <;> simp <;> omega
    simp only [List.filter]
    rcases List.mem_cons.mp hx with rfl | hmem
    · simp [hp, hq]; have := hle r; omega
    · have := ih hmem
      cases hqa : q a with
      | true => simp [himp a hqa]; exact this
      | false => cases hpa : p a <;> simp <;> omega

theorem unseen_lt (ld : Loader) (seen : List String) (p : String) (t : Template)
    (hseen : seen.contains p = false) (hfound : lookup ld p = some t) :
    (unseen ld (p :: seen)).length < (unseen ld seen).length := by
  unfold unseen
  apply filter_length_lt_of_mem _ _ _ p (lookup_mem_keys hfound)
  · simpa using hseen
  · simp
  · intro y hy
    simp at hy ⊢
    exact hy.2

/-- `_stack_template_blocks` iterated by the `while next_template` loop; returns the final stacks and the
base template (the first template of the walk without an `extends` tag). -/
def buildFrom (ld : Loader) (st : Stacks) (seen : List String) (t : Template) : Except Err (Stacks × Template) :=
  match stackBlocks st t with
  | .error e => .error e
  | .ok (st', none) => .ok (st', t)
  | .ok (st', some p) =>
    if _hseen : seen.contains p then .error .inheritance           -- circular extends
    else
      match _hfound : lookup ld p with
      | none => .error .notFound
      | some t' => buildFrom ld st' (p :: seen) t'
termination_by (unseen ld seen).length
decreasing_by exact unseen_lt ld seen p t' (by simpa using _hseen) _hfound

/-! ### rendering -/

/-- `context.tag_namespace["extends"].get(name)`; a missing entry and an empty stack are both "not block_stack" -/
def stackOf (st : Stacks) (name : String) : List Def := (lookup st name).getD []

mutual
def renderItem (lim : Nat) (res : String → List Def) (depth : Nat) (outer : Option Scope) (parents : List Def) (sc : Scope) :
    Item → Except Err String
  | .text s => .ok s
  | .var x => .ok (lookupVar sc x)
  | .super =>
    match parents with
    | [] => .ok ""                                                  -- `env.undefined("super")`
    | p :: ps => renderItems lim res depth none ps (outer.getD sc) p.body    -- parent body, in the drop's context
  | .loop v n body => renderLoop lim res depth outer parents sc v n body n
  | .block name req body =>
    match res name with                                             -- `tag_namespace["extends"].get(name)`
    | d :: ds =>
      if d.required then .error .requiredBlock
      else if h : depth > lim then .error .contextDepth             -- `context.copy`
      else renderItems lim res (depth + 1) (some sc) ds sc d.body
    | [] =>                                                         -- `if not block_stack`
      if req then .error .requiredBlock
      else renderItems lim res depth none [] sc body
termination_by i => (lim + 1 - depth, sizeOf i + sizeOf parents)
decreasing_by
  all_goals simp_wf
  all_goals first
    | (apply Prod.Lex.left; omega)
    | (apply Prod.Lex.right; omega)
    | (apply Prod.Lex.right; simp only [Def.mk.sizeOf_spec, List.cons.sizeOf_spec, List.nil.sizeOf_spec]; omega)
    | (apply Prod.Lex.right
       have hp : sizeOf p.body < sizeOf p := by cases p; simp only [Def.mk.sizeOf_spec]; omega
       omega)

def renderItems (lim : Nat) (res : String → List Def) (depth : Nat) (outer : Option Scope) (parents : List Def) (sc : Scope) :
    List Item → Except Err String
  | [] => .ok ""
  | i :: is =>
    match renderItem lim res depth outer parents sc i with
    | .error e => .error e
    | .ok a =>
      match renderItems lim res depth outer parents sc is with
      | .error e => .error e
      | .ok b => .ok (a ++ b)
termination_by is => (lim + 1 - depth, sizeOf is + sizeOf parents)
decreasing_by
  all_goals simp_wf
  all_goals (apply Prod.Lex.right; omega)

/-- iterations `n - k + 1 .. n` of `{% for v in (1..n) %}` -/
def renderLoop (lim : Nat) (res : String → List Def) (depth : Nat) (outer : Option Scope) (parents : List Def) (sc : Scope)
    (v : String) (n : Nat) (body : List Item) : Nat → Except Err String
  | 0 => .ok ""
  | k + 1 =>
    match renderItems lim res depth outer parents ((v, toString (n - k)) :: sc) body with
    | .error e => .error e
    | .ok a =>
      match renderLoop lim res depth outer parents sc v n body k with
      | .error e => .error e
      | .ok b => .ok (a ++ b)
termination_by k => (lim + 1 - depth, sizeOf body + sizeOf parents + k)
decreasing_by
  all_goals simp_wf
  all_goals (apply Prod.Lex.right; omega)
end

/-- top level of the template being rendered (`BoundTemplate.render_with_context` over `template.nodes`):
nodes before the first `extends` are rendered with no block stacks; the `extends` node builds the stacks
starting from this template, renders the base template and stops the render. -/
def renderTops (lim : Nat) (ld : Loader) (self : Template) (data : Scope) : List Top → Except Err String
  | [] => .ok ""
  | .node i :: ts =>
    match renderItem lim (stackOf []) 0 none [] data i with
    | .error e => .error e
    | .ok a =>
      match renderTops lim ld self data ts with
      | .error e => .error e
      | .ok b => .ok (a ++ b)
  | .ext _ :: _ =>
    match buildFrom ld [] [] self with
    | .error e => .error e
    | .ok (st, base) => renderItems lim (stackOf st) 0 none [] data base.nodes

/-- `env.get_template(name).render(**data)` -/
def renderTemplate (lim : Nat) (ld : Loader) (name : String) (data : Scope) : Except Err String :=
  match lookup ld name with
  | none => .error .notFound
  | some t => renderTops lim ld t data t.items

end LiquidVerif.Inherit
