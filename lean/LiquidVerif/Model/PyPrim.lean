import LiquidVerif.Gen.C02Tables
/-!
# C02 — value classes and the exception table of the Python primitives the anchored code calls

`Cls` is the finite lattice of value classes (the same names as `harness/gen/c02_values.py`).  Every primitive is a
*table*: for a class (or a pair of classes) the list of outcomes Python can produce on members of that class —
`ok c'` (a value of class `c'`) or `error e`.  Most entries are singletons; an entry with several outcomes says that
behaviour is not uniform inside the class (e.g. `"abc"[n]` depends on the length).  Nothing here is an axiom: these
are definitions, and stream `prim` of `./check C02` runs every primitive on the representative and on random members
of every class and requires the observed outcome to be in the table (and every error in the table to be observed).
-/
namespace LiquidVerif.C02
open LiquidVerif.Gen.C02

inductive Cls where
  | none_ | true_ | false_
  | int_zero | int_pos | int_neg | int_ts | int_large | int_big | int_huge | int_giant
  | float_zero | float_pos | float_neg | float_inf | float_ninf | float_nan
  | str_empty | str_int | str_zero | str_negint | str_ts | str_bigdigits | str_hugeint | str_float | str_exp | str_nan | str_inf
  | str_pct | str_fmt_d | str_fmt_s | str_b64 | str_b64_nonutf8 | str_nonascii | str_surrogate | str_key | str_other
  | str_repr      -- the text of a non-string value (`str(x)`); never a render datum itself
  | list_empty | list_int | list_str | list_numstr | list_mixed | list_dict | list_dict_gap | list_infs | list_nested
  | dict_empty | dict_ | range_ | undefined
  deriving DecidableEq, Repr, Inhabited

namespace Cls

def all : List Cls :=
  [none_, true_, false_, int_zero, int_pos, int_neg, int_ts, int_large, int_big, int_huge, int_giant,
   float_zero, float_pos, float_neg, float_inf, float_ninf, float_nan,
   str_empty, str_int, str_zero, str_negint, str_ts, str_bigdigits, str_hugeint, str_float, str_exp, str_nan, str_inf,
   str_pct, str_fmt_d, str_fmt_s, str_b64, str_b64_nonutf8, str_nonascii, str_surrogate, str_key, str_other, str_repr,
   list_empty, list_int, list_str, list_numstr, list_mixed, list_dict, list_dict_gap, list_infs, list_nested,
   dict_empty, dict_, range_, undefined]

def name : Cls → String
  | none_ => "none" | true_ => "true" | false_ => "false"
  | int_zero => "int_zero" | int_pos => "int_pos" | int_neg => "int_neg" | int_ts => "int_ts" | int_large => "int_large"
  | int_big => "int_big" | int_huge => "int_huge" | int_giant => "int_giant"
  | float_zero => "float_zero" | float_pos => "float_pos" | float_neg => "float_neg" | float_inf => "float_inf"
  | float_ninf => "float_ninf" | float_nan => "float_nan"
  | str_empty => "str_empty" | str_int => "str_int" | str_zero => "str_zero" | str_negint => "str_negint" | str_ts => "str_ts"
  | str_bigdigits => "str_bigdigits" | str_hugeint => "str_hugeint" | str_float => "str_float" | str_exp => "str_exp"
  | str_nan => "str_nan" | str_inf => "str_inf" | str_pct => "str_pct" | str_fmt_d => "str_fmt_d" | str_fmt_s => "str_fmt_s"
  | str_b64 => "str_b64" | str_b64_nonutf8 => "str_b64_nonutf8" | str_nonascii => "str_nonascii"
  | str_surrogate => "str_surrogate" | str_key => "str_key" | str_other => "str_other" | str_repr => "str_repr"
  | list_empty => "list_empty" | list_int => "list_int" | list_str => "list_str" | list_numstr => "list_numstr"
  | list_mixed => "list_mixed" | list_dict => "list_dict" | list_dict_gap => "list_dict_gap" | list_infs => "list_infs"
  | list_nested => "list_nested" | dict_empty => "dict_empty" | dict_ => "dict" | range_ => "range" | undefined => "undefined"

def idx : Cls → Nat
  | none_ => 0 | true_ => 1 | false_ => 2 | int_zero => 3 | int_pos => 4 | int_neg => 5 | int_ts => 6 | int_large => 7
  | int_big => 8 | int_huge => 9 | int_giant => 10 | float_zero => 11 | float_pos => 12 | float_neg => 13 | float_inf => 14
  | float_ninf => 15 | float_nan => 16 | str_empty => 17 | str_int => 18 | str_negint => 19 | str_ts => 20
  | str_bigdigits => 21 | str_hugeint => 22 | str_float => 23 | str_exp => 24 | str_nan => 25 | str_inf => 26
  | str_pct => 27 | str_fmt_d => 28 | str_fmt_s => 29 | str_b64 => 30 | str_b64_nonutf8 => 31 | str_nonascii => 32
  | str_surrogate => 33 | str_key => 34 | str_other => 35 | str_repr => 36 | list_empty => 37 | list_int => 38
  | list_str => 39 | list_numstr => 40 | list_mixed => 41 | list_dict => 42 | list_dict_gap => 43 | list_infs => 44
  | list_nested => 45 | dict_empty => 46 | dict_ => 47 | range_ => 48 | undefined => 49 | str_zero => 50

/-- comparison through the constructor index: cheap for the kernel -/
instance : BEq Cls := ⟨fun a b => Nat.beq a.idx b.idx⟩

def ofName? (s : String) : Option Cls := all.find? (fun c => c.name == s)

def isBool : Cls → Bool | true_ | false_ => true | _ => false
def isInt : Cls → Bool  -- `isinstance(v, int)` (bool included)
  | true_ | false_ | int_zero | int_pos | int_neg | int_ts | int_large | int_big | int_huge | int_giant => true | _ => false
def isFloat : Cls → Bool
  | float_zero | float_pos | float_neg | float_inf | float_ninf | float_nan => true | _ => false
def isNum (c : Cls) : Bool := c.isInt || c.isFloat
def isStr : Cls → Bool
  | str_empty | str_int | str_zero | str_negint | str_ts | str_bigdigits | str_hugeint | str_float | str_exp | str_nan | str_inf
  | str_pct | str_fmt_d | str_fmt_s | str_b64 | str_b64_nonutf8 | str_nonascii | str_surrogate | str_key | str_other
  | str_repr => true
  | _ => false
def isList : Cls → Bool
  | list_empty | list_int | list_str | list_numstr | list_mixed | list_dict | list_dict_gap | list_infs | list_nested => true
  | _ => false
def isDict : Cls → Bool | dict_empty | dict_ => true | _ => false
/-- `not v` in Python for a value of the class (used by `if key:` / `if indent` tests) -/
def pyFalsy : Cls → Bool
  | none_ | false_ | int_zero | float_zero | str_empty | list_empty | dict_empty | undefined => true | _ => false
def isInfinite : Cls → Bool | float_inf | float_ninf => true | _ => false
/-- numerically zero (`False` included) -/
def isZero : Cls → Bool | false_ | int_zero | float_zero => true | _ => false
/-- an int too large to convert to a float -/
def isHugeInt : Cls → Bool | int_huge | int_giant => true | _ => false

end Cls

/-! ## Outcome sets -/

/-- all outcomes an operation can have on members of the argument classes -/
def Res (α : Type) := List (Except Exc α)

instance : Membership (Except Exc α) (Res α) := inferInstanceAs (Membership (Except Exc α) (List (Except Exc α)))

namespace Res
def ret (a : α) : Res α := [.ok a]
def raise (e : Exc) : Res α := [.error e]
def bind (m : Res α) (f : α → Res β) : Res β :=
  List.flatMap (fun r => match r with | .ok a => f a | .error e => [.error e]) m
def alt (m n : Res α) : Res α := List.append m n
instance : Monad Res where
  pure := Res.ret
  bind := Res.bind
def excs (m : Res α) : List Exc := List.filterMap (fun r => match r with | .ok _ => none | .error e => some e) m
def oks (m : Res α) : List α := List.filterMap (fun r => match r with | .ok a => some a | .error _ => none) m
def unit (m : Res α) : Res Unit := List.map (fun r => match r with | .ok _ => .ok () | .error e => .error e) m
end Res

open Cls Res

/-! ## Exception classes -/

/-- `issubclass(a, b)` over the generated hierarchy (fuel = number of classes, so the walk is total) -/
def isSubFuel : Nat → Exc → Exc → Bool
  | 0, a, b => a == b
  | n + 1, a, b => a == b || (a.parents).any (fun p => isSubFuel n p b)

def isSub (a b : Exc) : Bool := isSubFuel Exc.all.length a b

def isLiquid (e : Exc) : Bool := isSub e .LiquidError

/-! ## Primitives -/

/-- `int(v)` (after the length guard of `to_int`) -/
def pyInt : Cls → Res Cls
  | none_ | str_repr => raise .TypeError   -- str_repr never reaches int(); TypeError keeps the table total
  | true_ => pure int_pos | false_ => pure int_zero
  | int_zero => pure int_zero | int_pos => pure int_pos | int_neg => pure int_neg | int_ts => pure int_ts
  | int_large => pure int_large | int_big => pure int_big | int_huge => pure int_huge | int_giant => pure int_giant
  | float_zero => pure int_zero
  | float_pos => [.ok int_pos, .ok int_zero]      -- 0 < x < 1 truncates to zero
  | float_neg => [.ok int_neg, .ok int_zero]
  | float_inf | float_ninf => raise .OverflowError
  | float_nan => raise .ValueError
  | str_int => pure int_pos | str_zero => pure int_zero | str_negint => pure int_neg | str_ts => pure int_ts
  | str_bigdigits => [.ok int_large, .ok int_big, .ok int_huge]    -- 19 … 4300 digits
  | str_hugeint => raise .ValueError    -- more digits than sys.get_int_max_str_digits()
  | str_empty | str_float | str_exp | str_nan | str_inf | str_pct | str_fmt_d | str_fmt_s | str_b64 | str_b64_nonutf8
  | str_nonascii | str_surrogate | str_key | str_other => raise .ValueError
  | list_empty | list_int | list_str | list_numstr | list_mixed | list_dict | list_dict_gap | list_infs | list_nested
  | dict_empty | dict_ | range_ => raise .TypeError
  | undefined => pure int_zero          -- Undefined.__int__

/-- `float(s)` for a string -/
def pyFloat : Cls → Res Cls
  | str_int => pure float_pos | str_zero => pure float_zero | str_negint => pure float_neg
  | str_ts => pure float_pos
  | str_bigdigits => [.ok float_pos, .ok float_inf]
  | str_hugeint => pure float_inf     -- more than 308 digits
  | str_float => pure float_pos | str_exp | str_inf => pure float_inf | str_nan => pure float_nan
  | _ => raise .ValueError

/-- `str(v)` / `soft_str(v)` / f-string conversion -/
def pyStr (c : Cls) : Res Cls :=
  if c.isStr then pure c
  else match c with
    | int_giant => raise .ValueError      -- int -> str digit limit
    | undefined => pure str_empty
    | _ => pure str_repr

/-- `Decimal(s)` for a string -/
def pyDecimalOfStr : Cls → Res Unit
  | str_int | str_zero | str_negint | str_ts | str_bigdigits | str_hugeint | str_float | str_exp | str_nan | str_inf => pure ()
  | _ => raise .decimal_InvalidOperation

/-- `Decimal(str(x))` for a number (bools print as `True`/`False`) -/
def pyDecimalOfNum (c : Cls) : Res Unit :=
  if c.isBool then raise .decimal_InvalidOperation
  else if c == int_giant then raise .ValueError
  else pure ()

/-- `math.ceil(x)`, `math.floor(x)`, `round(x)` for a number -/
def pyCeil : Cls → Res Unit
  | float_inf | float_ninf => raise .OverflowError
  | float_nan => raise .ValueError
  | _ => pure ()

inductive ArithOp | minus | plus | times | modulo deriving DecidableEq, Repr

/-- `Decimal(a) op Decimal(b)` followed by `float(...)`, both operands already converted -/
def pyDecArith (op : ArithOp) (a b : Cls) : Res Unit :=
  let nan := a == float_nan || b == float_nan
  match op with
  | .minus =>
    if !nan && ((a == float_inf && b == float_inf) || (a == float_ninf && b == float_ninf)) then raise .decimal_InvalidOperation else pure ()
  | .plus =>
    if !nan && ((a == float_inf && b == float_ninf) || (a == float_ninf && b == float_inf)) then raise .decimal_InvalidOperation else pure ()
  | .times =>
    if !nan && ((a.isInfinite && b.isZero) || (a.isZero && b.isInfinite)) then raise .decimal_InvalidOperation else pure ()
  | .modulo =>
    if nan then pure ()
    else if a.isInfinite || b.isZero then raise .decimal_InvalidOperation
    else if b.isInfinite || a.isZero then pure ()
    -- the integer quotient must fit the context precision (28 digits)
    else if a.isHugeInt then (if b.isHugeInt then [.ok (), .error .decimal_InvalidOperation] else raise .decimal_InvalidOperation)
    else if b == float_pos || b == float_neg then [.ok (), .error .decimal_InvalidOperation]    -- a tiny divisor
    else if a == int_big then (if b.isHugeInt || b == int_big then pure () else [.ok (), .error .decimal_InvalidOperation])
    else pure ()

/-- `a // b` for two ints / `a % b` for two ints -/
def pyIntDiv (_a b : Cls) : Res Unit := if b.isZero then raise .ZeroDivisionError else pure ()

/-- `a / b` with at least one float -/
def pyTrueDiv (a b : Cls) : Res Unit :=
  if a.isHugeInt || b.isHugeInt then raise .OverflowError       -- int too large to convert to float
  else if b.isZero then raise .ZeroDivisionError
  else pure ()

/-- `s.encode()` / `urllib.parse.quote_plus(s)` -/
def pyEncode : Cls → Res Unit
  | str_surrogate => raise .UnicodeEncodeError
  | _ => pure ()

/-- `base64.b64decode(s).decode()` and the url-safe variant (`s` a string) -/
def pyB64DecodeUtf8 : Cls → Res Unit
  | str_empty | str_b64 => pure ()
  | str_b64_nonutf8 => raise .UnicodeDecodeError
  | str_nonascii | str_surrogate => raise .ValueError      -- "string argument should contain only ASCII characters"
  | str_other | str_key => raise .binascii_Error
  -- remaining strings: depends on length mod 4 and on the decoded bytes
  | _ => [.ok (), .error .binascii_Error, .error .UnicodeDecodeError, .error .ValueError]

/-- `datetime.datetime.fromtimestamp(n)` for an int -/
def pyFromTimestamp : Cls → Res Unit
  | int_ts => raise .ValueError             -- year out of range
  | int_large => raise .OSError
  | int_big | int_huge | int_giant => raise .OverflowError
  | _ => pure ()

/-- `dateutil.parser.parse(s)` for a non-digit string that is not "now"/"today" -/
def pyDateParse : Cls → Res Unit
  | str_float | str_negint | str_repr => [.ok (), .error .dateutil_ParserError]
  | _ => raise .dateutil_ParserError

/-- `s.isdigit()` -/
def strIsDigit : Cls → Bool
  | str_int | str_zero | str_ts | str_bigdigits | str_hugeint => true
  | _ => false

/-- `" " * n` inside `json.dumps(obj, indent=n)` for a container / scalar that is pretty-printed -/
def pyJsonIndent : Cls → Res Unit
  | int_ts | int_large => raise .MemoryError
  | int_big | int_huge | int_giant => raise .OverflowError
  | _ => pure ()

/-- does `json.dumps(v, indent=n)` consult the indent at all (strings and undefined print flat) -/
def jsonUsesIndent (c : Cls) : Bool := !(c.isStr)

/-- kinds of the items a sequence filter iterates over, after `sequence_filter`'s coercion of the left value -/
inductive Elem | int | float | str | strEmpty | none | dictK | dictJ | inf | ninf
  deriving DecidableEq, Repr

def elems : Cls → List Elem
  | list_empty | undefined => []
  | list_int | list_nested | range_ => [.int]
  | list_str => [.str]
  | list_numstr => [.str]
  | list_mixed => [.int, .str, .none]
  | list_dict => [.dictK]
  | list_dict_gap => [.dictK, .dictJ]
  | list_infs => [.inf, .ninf]
  | dict_empty => [.dictJ]      -- a dict is wrapped `[d]`; the empty dict has no key at all
  | dict_ => [.dictK]
  | none_ => [.none]
  | str_empty => [.strEmpty]
  | c => if c.isStr then [.str] else if c.isFloat then [.float] else [.int]

/-- `item[key]` -/
def pyGetitem (e : Elem) (key : Cls) : Res Unit :=
  match e with
  | .int | .float | .inf | .ninf | .none => raise .TypeError
  | .strEmpty => if key.isInt then raise .IndexError else raise .TypeError
  | .str =>
    if key.isInt then
      (match key with
       | int_zero | false_ => pure ()
       | int_ts | int_large | int_big | int_huge | int_giant => raise .IndexError
       | _ => [.ok (), .error .IndexError])
    else raise .TypeError
  | .dictK =>
    if key == str_key then pure ()
    else if key.isList || key.isDict then raise .TypeError     -- unhashable
    else raise .KeyError
  | .dictJ =>
    if key.isList || key.isDict then raise .TypeError else raise .KeyError

/-- `item[key]` for every item of the (coerced) left value: any item may be the first to fail -/
def pyGetitemAll (l key : Cls) : Res Unit :=
  List.foldr (fun e acc => Res.alt ((pyGetitem e key).excs.map (fun x => Except.error x)) acc) (Res.ret ()) (elems l)

/-- `sorted(seq)` -/
def pySorted : Cls → Res Unit
  | list_mixed | list_dict_gap => raise .TypeError
  | list_dict => [.ok (), .error .TypeError]      -- a single dict sorts
  | _ => pure ()

/-- `sum(Decimal...)` over already converted items -/
def pySumDecimals : Cls → Res Unit
  | list_infs => raise .decimal_InvalidOperation
  | _ => pure ()

/-- `re_literal_percent.sub("%%", text) % vars` with every `%(name)s` supplied: after the escaping of every other
percent sign nothing is left that `%` could reject -/
def pyPercentFormatEscaped : Cls → Res Unit
  | _ => pure ()

end LiquidVerif.C02
