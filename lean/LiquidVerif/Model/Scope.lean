/-!
# Model of variable scoping and path resolution of python-liquid (properties C14 and C15)

Anchors (all under `liquid/`), mirrored **as written**:

* `context.py` `RenderContext.__init__`: `scope = ReadOnlyChainMap(locals, globals, builtin, counters)`;
  `utils/chain_map.py`: first mapping that has the key wins, `push` = `appendleft`, `pop` = `popleft`.
* `context.py` `extend(namespace)`: `if scope.size() > context_depth_limit: raise ContextDepthError`;
  `scope.push(namespace)`; body; `finally: scope.pop()`.  `loop(namespace, forloop)`: `loops.append(forloop)`,
  `extend`, body, `loops.pop()`.  Here the pushed namespaces and the loop stack are **part of the state**
  (`St.pushed`, innermost first, and `St.loops`, innermost first) and are pushed / popped literally
  (`LiquidVerif.C14.scope_balanced` is the theorem that they come back); only the *size* used by the depth test
  travels downwards (`Frame.sz` = `scope.size()`).
* `context.py` `assign`: `self.locals[key] = val` — whatever is pushed.  `increment` / `decrement` on `counters`.
* `context.py` `get(path)`: root looked up in the chain (`KeyError` → undefined), every further segment through
  `get_item`; `KeyError`/`TypeError`/`IndexError` → `env.undefined(...)` at once.
  `get_item`: `key.__liquid__()`; `size` / `first` / `last` try `obj[key]` first, then `len` / first item pair of a
  non-empty mapping / `obj[0]` / `obj[-1]` with the `string_first_and_last` test; then the `string_sequences`
  test; then `obj[key]`.
* `builtin/expressions/path.py` `Path.evaluate`: nested paths (`a[b.c]`) are evaluated first, then `context.get`.
* `template.py` `BoundTemplate.make_globals(render_args)` = `ReadOnlyChainMap(render_args, matter, globals)` and
  `environment.py` `Environment.make_globals(g)` = `{**self.globals, **g}`;
  `render_with_context`: `extend({**args, "partial": partial})` around the template's nodes.
* `context.py` `copy(namespace, disabled_tags)`: `_copy_depth > context_depth_limit` → `ContextDepthError`; a **new**
  context: empty locals, counters, loop stack, tag namespace (macros), a fresh four-map chain whose globals are
  `ReadOnlyChainMap(namespace, self.globals)`, the given `disabled_tags`.
* tags: `assign`, `capture`, `if`, `for` (+ `forloop`), `with`, `increment`, `decrement`, `include`
  (`[with|for] value [as alias]`, keyword arguments), `render` (same), `macro`, `call`; `ast.py` `Node.render`:
  `DisabledTagError` when the tag is in `context.disabled_tags`.

* `extra/tags/extends_tag.py`: `extends` (`_build_block_stacks`: the template's own blocks, then every parent's, the base
  template rendered in the same context, `extends.clear()`, `StopRender`) and `block` (no overriding definition: `extend`;
  otherwise `copy(block_scope=True)`: globals = `{"block": …}` ▹ the parent's whole scope, `_isolated_globals` inherited,
  `disabled_tags` inherited); `builtin/tags/tablerow_tag.py` without `cols`.  `block.super` and `required` are not
  modelled (C18 owns block resolution); a `StopRender` is the flag `St.stopped`.
* `Frame.sz` is asserted to be `scope.size()` at every `extend`: a mismatch is the model error `Err.sizeMismatch`, which
  the driver reports and no stream has ever produced (the theorem that it is unreachable is not done yet).

STRICT mode: the first error aborts the render.  Filters, `limit/offset/reversed`, `break/continue`, autoescape
and the loop-iteration / namespace / output limits are not in this model (C06, C07, C12, C13, C25 own them).
Core Lean only (the driver links this file).
-/
namespace LiquidVerif.Scope

/-! ## Values -/

inductive Val where
  | nil
  | bool (b : Bool)
  | int (i : Int)
  | str (s : String)
  | list (xs : List Val)
  | tuple (xs : List Val)                 -- an `(key, value)` item of a mapping
  | dict (kvs : List (String × Val))      -- insertion order, unique `str` keys
  | undef                                  -- `env.undefined(...)`
  | clock (today : Bool)                   -- what `builtin["now"]` / `builtin["today"]` return
  | drop                                   -- a `BlockDrop` (the `block` variable inside `{% block %}`); never read by the generators

abbrev NS := List (String × Val)

/-- `d.get(k)` on an insertion-ordered association list -/
def dictGet {α} (d : List (String × α)) (k : String) : Option α :=
  match d with
  | [] => none
  | (k', v) :: r => if k' = k then some v else dictGet r k

/-- `d[k] = v`: replace in place when present, append otherwise -/
def dictSet {α} (d : List (String × α)) (k : String) (v : α) : List (String × α) :=
  match d with
  | [] => [(k, v)]
  | (k', v') :: r => if k' = k then (k, v) :: r else (k', v') :: dictSet r k v

/-- `{k: v for k, v in pairs}` -/
def dictOf {α} (pairs : List (String × α)) : List (String × α) := pairs.foldl (fun d p => dictSet d p.1 p.2) []

/-- `{**a, **b}` -/
def dictMerge {α} (a b : List (String × α)) : List (String × α) := b.foldl (fun d p => dictSet d p.1 p.2) a

def Val.isUndef : Val → Bool | .undef => true | _ => false

/-! ## `obj[key]`, `get_item` -/

/-- Python sequence indexing with a negative index counting from the end; `none` = `IndexError` -/
def pyIndex {α} (xs : List α) (i : Int) : Option α :=
  let n : Int := xs.length
  let j := if i < 0 then i + n else i
  if j < 0 then none else xs[j.toNat]?

/-- the key read as a sequence index: `int`, and `bool` (a subclass of `int`) -/
def asIndex : Val → Option Int
  | .int i => some i
  | .bool b => some (if b then 1 else 0)
  | _ => none

/-- `obj[key]` (`__getitem__`) of the modelled classes; `none` = `KeyError` / `TypeError` / `IndexError` (the callers
never distinguish them).  `Undefined.__getitem__` returns the undefined itself. -/
def subscript (obj key : Val) : Option Val :=
  match obj with
  | .dict kvs => (match key with | .str s => dictGet kvs s | _ => none)
  | .list xs => (match asIndex key with | some i => pyIndex xs i | none => none)
  | .tuple xs => (match asIndex key with | some i => pyIndex xs i | none => none)
  | .str s => (match asIndex key with
      | some i => (pyIndex s.toList i).map fun c => .str (String.singleton c)
      | none => none)
  | .undef => some .undef
  | _ => none

/-- `isinstance(obj, Sized)` and `len(obj)` -/
def sizeOf? : Val → Option Nat
  | .str s => some s.length
  | .list xs => some xs.length
  | .tuple xs => some xs.length
  | .dict kvs => some kvs.length
  | .undef => some 0
  | _ => none

/-- the feature flags `get_item` reads, and the undefined type -/
structure Cfg where
  strictUndef : Bool      -- `undefined=StrictUndefined`
  stringSeq : Bool        -- `string_sequences`
  stringFL : Bool         -- `string_first_and_last`

/-- the fall-back of `first` when `obj["first"]` raised -/
def firstFallback (cfg : Cfg) : Val → Option Val
  | .dict ((k, v) :: _) => some (.tuple [.str k, v])      -- `isinstance(obj, Mapping) and obj`
  | .str s => if !cfg.stringFL then none else (pyIndex s.toList 0).map fun c => .str (String.singleton c)
  | .list xs => pyIndex xs 0
  | .tuple xs => pyIndex xs 0
  | _ => none

/-- the fall-back of `last` when `obj["last"]` raised -/
def lastFallback (cfg : Cfg) : Val → Option Val
  | .str s => if !cfg.stringFL then none else (pyIndex s.toList (-1)).map fun c => .str (String.singleton c)
  | .list xs => pyIndex xs (-1)
  | .tuple xs => pyIndex xs (-1)
  | _ => none

def isStr : Val → Bool | .str _ => true | _ => false

/-- `RenderContext.get_item(obj, key)`; `none` = it raised `KeyError`, `TypeError` or `IndexError` -/
def getItem (cfg : Cfg) (obj key : Val) : Option Val :=
  let key := match key with | .undef => Val.nil | k => k       -- `key.__liquid__()`
  match key with
  | .str s =>
    if s = "size" then
      match subscript obj key with
      | some v => some v
      | none => (sizeOf? obj).map fun n => .int n
    else if s = "first" then
      match subscript obj key with
      | some v => some v
      | none => firstFallback cfg obj
    else if s = "last" then
      match subscript obj key with
      | some v => some v
      | none => lastFallback cfg obj
    else subscript obj key
  | _ =>
    if !cfg.stringSeq && (asIndex key).isSome && isStr obj then none
    else subscript obj key

/-! ## Paths and expressions -/

inductive Seg where
  | name (s : String)                       -- `.name` / `["name"]` / the root word
  | idx (i : Int)                           -- `[i]`
  | sub (head : Seg) (tail : List Seg)      -- `[nested.path]`

inductive Expr where
  | lit (v : Val)
  | path (head : Seg) (tail : List Seg)

inductive Err where
  | contextDepth     -- ContextDepthError
  | notFound         -- TemplateNotFoundError
  | disabledTag      -- DisabledTagError
  | undefined        -- UndefinedError (StrictUndefined only)
  | inheritance      -- TemplateInheritanceError (two extends tags, duplicate block names, circular extends)
  | assertion        -- AssertionError (`assert base`: an extends tag rendered while `context.template` has none)
  | sizeMismatch     -- MODEL ASSERTION: `Frame.sz` ≠ `scope.size()` at an `extend` (never observed; see the header)
  deriving Repr, DecidableEq

/-- `ReadOnlyChainMap.__getitem__` -/
def lookupChain : List NS → String → Option Val
  | [], _ => none
  | ns :: rest, k =>
    match dictGet ns k with
    | some v => some v
    | none => lookupChain rest k

/-- `BuiltIn.__getitem__` -/
def builtinGet (k : String) : Option Val :=
  if k = "now" then some (.clock false) else if k = "today" then some (.clock true) else none

/-- what a path sees: the chain `pushed… ▹ locals ▹ globals…`, then `builtin`, then `counters` -/
structure View where
  chain : List NS
  counters : List (String × Int)

/-- `context.scope[root]` -/
def View.root (w : View) (k : String) : Option Val :=
  match lookupChain w.chain k with
  | some v => some v
  | none =>
    match builtinGet k with
    | some v => some v
    | none => (dictGet w.counters k).map Val.int

/-- the loop over the remaining segments in `RenderContext.get` -/
def walk (cfg : Cfg) (obj : Val) : List Val → Except Err Val
  | [] => .ok obj
  | k :: ks =>
    -- StrictUndefined raises from `hasattr(key, "__liquid__")` / `obj[key]`
    if cfg.strictUndef && (obj.isUndef || k.isUndef) then .error .undefined else
    match getItem cfg obj k with
    | none => .ok .undef
    | some v => walk cfg v ks

/-- `RenderContext.get([root, *segments])` on evaluated segments -/
def ctxGet (cfg : Cfg) (w : View) (root : Val) (segs : List Val) : Except Err Val :=
  match root with
  | .str name =>
    (match w.root name with
     | none => .ok .undef
     | some obj => walk cfg obj segs)
  | .undef => if cfg.strictUndef then .error .undefined else .ok .undef   -- `f"{root} is undefined"`
  | _ => .ok .undef

mutual
/-- a segment as `Path.evaluate` hands it to `context.get` -/
def evalSeg (cfg : Cfg) (w : View) : Seg → Except Err Val
  | .name s => .ok (.str s)
  | .idx i => .ok (.int i)
  | .sub h t =>
    match evalSeg cfg w h with
    | .error e => .error e
    | .ok r =>
      match evalSegs cfg w t with
      | .error e => .error e
      | .ok vs => ctxGet cfg w r vs
def evalSegs (cfg : Cfg) (w : View) : List Seg → Except Err (List Val)
  | [] => .ok []
  | s :: ss =>
    match evalSeg cfg w s with
    | .error e => .error e
    | .ok v =>
      match evalSegs cfg w ss with
      | .error e => .error e
      | .ok vs => .ok (v :: vs)
end

def evalPath (cfg : Cfg) (w : View) (h : Seg) (t : List Seg) : Except Err Val :=
  match evalSeg cfg w h with
  | .error e => .error e
  | .ok r =>
    match evalSegs cfg w t with
    | .error e => .error e
    | .ok vs => ctxGet cfg w r vs

def evalExpr (cfg : Cfg) (w : View) : Expr → Except Err Val
  | .lit v => .ok v
  | .path h t => evalPath cfg w h t

/-! ## Output -/

def joinSep (sep : String) : List String → String
  | [] => ""
  | [x] => x
  | x :: y :: r => x ++ sep ++ joinSep sep (y :: r)

mutual
/-- Python `repr` of the modelled classes (strings without quotes, backslashes or control characters) -/
def pyRepr : Val → String
  | .nil => "None"
  | .bool b => if b then "True" else "False"
  | .int i => toString i
  | .str s => "'" ++ s ++ "'"
  | .list xs => "[" ++ joinSep ", " (pyReprs xs) ++ "]"
  | .tuple xs => (match pyReprs xs with | [x] => "(" ++ x ++ ",)" | rs => "(" ++ joinSep ", " rs ++ ")")
  | .dict kvs => "{" ++ joinSep ", " (pyReprKvs kvs) ++ "}"
  | .undef => "Undefined"
  | .clock today => if today then "2001-02-03" else "2001-02-03 04:05:06.000007"    -- the harness freezes the clock
  | .drop => "BlockDrop"
def pyReprs : List Val → List String
  | [] => []
  | v :: vs => pyRepr v :: pyReprs vs
def pyReprKvs : List (String × Val) → List String
  | [] => []
  | (k, v) :: r => ("'" ++ k ++ "': " ++ pyRepr v) :: pyReprKvs r
end

/-- `str(x)` -/
def pyStr : Val → String
  | .str s => s
  | .undef => ""
  | v => pyRepr v

/-- `to_liquid_string(val, autoescape=False)`; a StrictUndefined raises from `__str__` -/
def showOut (cfg : Cfg) : Val → Except Err String
  | .str s => .ok s
  | .bool b => .ok (if b then "true" else "false")
  | .nil => .ok ""
  | .list xs => .ok (String.join (xs.map pyStr))
  | .undef => if cfg.strictUndef then .error .undefined else .ok ""
  | v => .ok (pyStr v)

/-- `is_truthy` -/
def isTruthy : Val → Bool
  | .nil => false
  | .bool false => false
  | .undef => false
  | _ => true

/-! ## Nodes, contexts -/

inductive Node where
  | text (s : String)
  | out (e : Expr)
  | assign (n : String) (e : Expr)
  | capture (n : String) (body : List Node)
  | ifB (c : Expr) (body els : List Node)
  /-- `{% for var in it %}`; `label` = `f"{var}-{it}"`, the loop's name -/
  | forB (var label : String) (it : Expr) (body els : List Node)
  | withB (args : List (String × Expr)) (body : List Node)
  | incr (n : String)
  | decr (n : String)
  /-- `{% include 'name' [with|for e [as alias]] [, k: v …] %}` (`with` and `for` are the same tag form) -/
  | include (name : String) (bind : Option (Expr × Option String)) (args : List (String × Expr))
  /-- `{% render 'name' [with|for e [as alias]] [, k: v …] %}`; the flag is `for` -/
  | render (name : String) (bind : Option (Bool × Expr × Option String)) (args : List (String × Expr))
  | macroDef (name : String) (params : List (String × Option Expr)) (body : List Node)
  | call (name : String) (pos : List Expr) (kw : List (String × Expr))
  /-- `{% block name %}…{% endblock %}` (`required` is not modelled) -/
  | block (name : String) (body : List Node)
  /-- `{% extends 'name' %}` -/
  | extends (name : String)
  /-- `{% tablerow var in it %}` without `cols`, `limit`, `offset` -/
  | tablerow (var : String) (it : Expr) (body : List Node)

structure Macro where
  params : List (String × Option Expr)      -- `macro.args`, a dict
  body : List Node

/-- `Environment` attributes and the loader's templates -/
structure Env where
  cfg : Cfg
  depth : Nat                               -- context_depth_limit
  templates : List (String × List Node)

/-- the mutable part of one `RenderContext` -/
structure St where
  pushed : List NS                          -- namespaces pushed in front of the chain, innermost first
  loops : List Val                          -- `context.loops`, innermost first (the `forloop` drops as they stand)
  locals : NS
  counters : List (String × Int)
  macros : List (String × Macro)            -- `tag_namespace["macros"]`
  stacks : List (String × List (List Node)) -- `tag_namespace["extends"]`: per block name, the definitions, most derived first
  stopped : Bool                            -- a `StopRender` is propagating (raised by `extends`)

/-- the part of a `RenderContext` fixed at construction, and the size of its chain -/
structure Frame where
  globals : List NS                         -- `self.globals`, a chain of mappings, flattened
  copyDepth : Nat                           -- `_copy_depth`
  noInclude : Bool                          -- `"include" in disabled_tags`
  sz : Nat                                  -- `scope.size()`
  iso : List NS                             -- `_isolated_globals`: what an isolated copy starts from
  tnodes : List Node                        -- the nodes of `context.template`

def view (G : Frame) (st : St) : View := { chain := st.pushed ++ st.locals :: G.globals, counters := st.counters }

def eval (E : Env) (G : Frame) (st : St) (e : Expr) : Except Err Val := evalExpr E.cfg (view G st) e

/-- `{a.name: a.value.evaluate(context) for a in args}` -/
def evalArgs (E : Env) (G : Frame) (st : St) : List (String × Expr) → Except Err NS
  | [] => .ok []
  | (k, e) :: r =>
    match eval E G st e with
    | .error x => .error x
    | .ok v =>
      match evalArgs E G st r with
      | .error x => .error x
      | .ok ns => .ok ((k, v) :: ns)

def evalList (E : Env) (G : Frame) (st : St) : List Expr → Except Err (List Val)
  | [] => .ok []
  | e :: r =>
    match eval E G st e with
    | .error x => .error x
    | .ok v =>
      match evalList E G st r with
      | .error x => .error x
      | .ok vs => .ok (v :: vs)

/-- `LoopExpression._to_iter` without limit/offset: the items a `for` visits -/
def iterItems (cfg : Cfg) : Val → List Val
  | .dict kvs => kvs.map fun p => .tuple [.str p.1, p.2]
  | .str s => if cfg.stringSeq then s.toList.map fun c => .str (String.singleton c)
              else if s.isEmpty then [] else [.str s]
  | .list xs => xs
  | .tuple xs => xs
  | _ => []

/-- `isinstance(val, (tuple, list, IterableDrop))` -/
def arrayLike : Val → Option (List Val)
  | .list xs => some xs
  | .tuple xs => some xs
  | _ => none

/-- the `ForLoop` drop at iteration `i` (0-based) of `n`, as the mapping it is -/
def forloopDrop (label : String) (n i : Nat) (parent : Val) : Val :=
  .dict [("name", .str label), ("length", .int n), ("index", .int (i + 1)), ("index0", .int i),
         ("rindex", .int ((n : Int) - i)), ("rindex0", .int ((n : Int) - i - 1)),
         ("first", .bool (i == 0)), ("last", .bool ((i : Int) == (n : Int) - 1)), ("parentloop", parent)]

/-- `template.name.split(".")[0]` -/
def stem (name : String) : String := String.ofList (name.toList.takeWhile (· != '.'))

def bindKey (name : String) (alias : Option String) : String :=
  match alias with | some a => a | none => stem name

def lookupT (ts : List (String × List Node)) (n : String) : Option (List Node) := dictGet ts n

/-! ### `CallNode.macro_args` (argument binding is C27's subject; repeated here over this model's `Expr`) -/

def bindPositional : List String → List Expr → List (String × Option Expr) → List Expr →
    List (String × Option Expr) × List Expr
  | n :: ns, e :: es, args, ex => bindPositional ns es (dictSet args n (some e)) ex
  | [], e :: es, args, ex => bindPositional [] es args (ex ++ [e])
  | _ :: _, [], args, ex => (args, ex)
  | [], [], args, ex => (args, ex)

def bindKeywords (paramNames : List String) : List (String × Expr) → List (String × Option Expr) →
    List (String × Expr) → List (String × Option Expr) × List (String × Expr)
  | [], args, ek => (args, ek)
  | (k, e) :: kws, args, ek =>
    if k ∈ paramNames then bindKeywords paramNames kws (dictSet args k (some e)) ek
    else bindKeywords paramNames kws args (dictSet ek k e)

/-- the value of every parameter, evaluated in the caller's scope (`None` → `env.undefined(name)`) -/
def evalParams (E : Env) (G : Frame) (st : St) : List (String × Option Expr) → Except Err NS
  | [] => .ok []
  | (k, none) :: r =>
    (match evalParams E G st r with
     | .error x => .error x
     | .ok ns => .ok ((k, .undef) :: ns))
  | (k, some e) :: r =>
    match eval E G st e with
    | .error x => .error x
    | .ok v =>
      match evalParams E G st r with
      | .error x => .error x
      | .ok ns => .ok ((k, v) :: ns)

/-- the namespace `CallNode.render_to_output` builds: `args`, `kwargs`, then every parameter -/
def callNamespace (E : Env) (G : Frame) (st : St) (m : Macro) (pos : List Expr) (kw : List (String × Expr)) :
    Except Err NS :=
  let names := m.params.map (·.1)
  let p := bindPositional names pos m.params []
  let k := bindKeywords names kw p.1 []
  match evalList E G st p.2 with
  | .error x => .error x
  | .ok exArgs =>
    match evalArgs E G st k.2 with
    | .error x => .error x
    | .ok exKw =>
      match evalParams E G st k.1 with
      | .error x => .error x
      | .ok ps => .ok (dictMerge [("args", .list exArgs), ("kwargs", .dict exKw)] ps)

/-- the context `RenderContext.copy(namespace, disabled_tags=[include…])` returns: its frame … -/
def Frame.copied (G : Frame) (ns : NS) (tn : List Node) : Frame :=
  { globals := ns :: G.iso, copyDepth := G.copyDepth + 1, noInclude := true, sz := 4, iso := ns :: G.iso, tnodes := tn }

/-- `BuiltIn` and a `counters` dict as the mappings they are -/
def builtinNS : NS := [("now", .clock false), ("today", .clock true)]
def countersNS (cs : List (String × Int)) : NS := cs.map fun p => (p.1, Val.int p.2)

/-- the caller's whole `scope` chain, as `copy(block_scope=True)` puts it behind the namespace -/
def scopeChain (G : Frame) (pushed : List NS) (locals : NS) (counters : List (String × Int)) : List NS :=
  pushed ++ locals :: G.globals ++ [builtinNS, countersNS counters]

/-- `RenderContext.copy(namespace, block_scope=True, disabled_tags=context.disabled_tags)`: globals = namespace ▹ the
parent's scope, `_isolated_globals` inherited -/
def Frame.blockCopied (G : Frame) (pushed : List NS) (locals : NS) (counters : List (String × Int)) : Frame :=
  { globals := [("block", Val.drop)] :: scopeChain G pushed locals counters, copyDepth := G.copyDepth + 1,
    noInclude := G.noInclude, sz := 4, iso := G.iso, tnodes := G.tnodes }

/-- … and its (empty) state -/
def St.fresh : St := { pushed := [], loops := [], locals := [], counters := [], macros := [], stacks := [], stopped := false }

abbrev Res := Except Err (St × String)

/-- `self.counters.get(name, 0)` -/
def counterGet (cs : List (String × Int)) (n : String) : Int := (dictGet cs n).getD 0

/-- `finally: self.scope.pop()` on the way out of `extend` (an error propagates; so does a `StopRender`, as the flag) -/
def popRes (r : Res) : Res :=
  match r with
  | .error x => .error x
  | .ok (st, o) => .ok ({ st with pushed := st.pushed.tail }, o)

/-- … and `self.loops.pop()` on the way out of `loop` -/
def popLoopRes (r : Res) : Res :=
  match r with
  | .error x => .error x
  | .ok (st, o) => .ok ({ st with pushed := st.pushed.tail, loops := st.loops.tail }, o)

/-- the way out of `render_with_context`: `extend`'s pop, and `except StopRender: break` -/
def popCatchRes (r : Res) : Res :=
  match r with
  | .error x => .error x
  | .ok (st, o) => .ok ({ st with pushed := st.pushed.tail, stopped := false }, o)

/-- the way out of `ExtendsNode.render_to_output` after the base template was rendered: `render_with_context`'s pop,
`tag_namespace["extends"].clear()`, `raise StopRender` -/
def extendsRes (r : Res) : Res :=
  match r with
  | .error x => .error x
  | .ok (st, o) => .ok ({ st with pushed := st.pushed.tail, stacks := [], stopped := true }, o)

/-- the way out of `tablerow`: the closing `</tr>` is written unless an exception is passing through -/
def rowRes (r : Res) : Res :=
  match r with
  | .error x => .error x
  | .ok (st, o) =>
    .ok ({ st with pushed := st.pushed.tail }, "<tr class=\"row1\">\n" ++ o ++ (if st.stopped then "" else "</tr>\n"))

/-- a copied context is thrown away after use: the caller's state `st` is what it was -/
def keepRes (st : St) (r : Res) : Res :=
  match r with
  | .error x => .error x
  | .ok (_, o) => .ok (st, o)

/-- the same where nothing catches a `StopRender` on the way (macro call, overriding block): it reaches the caller -/
def keepStopRes (st : St) (r : Res) : Res :=
  match r with
  | .error x => .error x
  | .ok (st1, o) => .ok ({ st with stopped := st1.stopped }, o)

/-- `G.sz` is `scope.size()` — asserted at every `extend` -/
def sizeBad (G : Frame) (st : St) : Bool := G.sz != 4 + st.pushed.length

/-! ### Template inheritance: what `_build_block_stacks` collects (`liquid/extra/tags/extends_tag.py`) -/

mutual
/-- `_find_inheritance_nodes`: the `extends` tags of a template, through `Node.children(include_partials=False)` -/
def findExt : Node → List String
  | .extends n => [n]
  | .capture _ b => findExtL b
  | .ifB _ b e => findExtL b ++ findExtL e
  | .forB _ _ _ b e => findExtL b ++ findExtL e
  | .withB _ b => findExtL b
  | .macroDef _ _ b => findExtL b
  | .block _ b => findExtL b
  | .tablerow _ _ b => findExtL b
  | _ => []
def findExtL : List Node → List String
  | [] => []
  | n :: ns => findExt n ++ findExtL ns
end

mutual
/-- … and its `block` tags, outer before inner, in source order -/
def findBlocks : Node → List (String × List Node)
  | .block n b => (n, b) :: findBlocksL b
  | .capture _ b => findBlocksL b
  | .ifB _ b e => findBlocksL b ++ findBlocksL e
  | .forB _ _ _ b e => findBlocksL b ++ findBlocksL e
  | .withB _ b => findBlocksL b
  | .macroDef _ _ b => findBlocksL b
  | .tablerow _ _ b => findBlocksL b
  | _ => []
def findBlocksL : List Node → List (String × List Node)
  | [] => []
  | n :: ns => findBlocks n ++ findBlocksL ns
end

abbrev Stacks := List (String × List (List Node))

def hasDup : List String → Bool
  | [] => false
  | x :: r => r.contains x || hasDup r

/-- `_store_blocks`: `block_stacks[block.name].append(item)` -/
def storeBlocks (stacks : Stacks) : List (String × List Node) → Stacks
  | [] => stacks
  | (n, b) :: r => storeBlocks (dictSet stacks n ((dictGet stacks n).getD [] ++ [b])) r

/-- `_stack_blocks(context, template)`: the name the template extends (if any) and the stacks with its blocks pushed -/
def stackBlocks (nodes : List Node) (stacks : Stacks) : Except Err (Option String × Stacks) :=
  if (findExtL nodes).length > 1 then .error .inheritance
  else if hasDup ((findBlocksL nodes).map (·.1)) then .error .inheritance
  else .ok ((findExtL nodes).head?, storeBlocks stacks (findBlocksL nodes))

def eraseKey {α} (l : List (String × α)) (k : String) : List (String × α) := l.filter fun p => p.1 != k

theorem length_eraseKey_lt {α} (l : List (String × α)) (k : String) (v : α) (h : dictGet l k = some v) :
    (eraseKey l k).length < l.length := by
  induction l with
  | nil => simp [dictGet] at h
  | cons p r ih =>
    obtain ⟨a, b⟩ := p
    by_cases hk : a = k
    · subst hk
      have : (eraseKey r a).length ≤ r.length := List.length_filter_le _ _
      simp only [eraseKey, List.filter_cons, bne_self_eq_false, Bool.false_eq_true, if_false, List.length_cons] at *
      omega
    · simp only [dictGet, hk, if_false] at h
      have := ih h
      have hne : (a != k) = true := by simpa using hk
      simp only [eraseKey, List.filter_cons, hne, if_true, List.length_cons] at *
      omega

/-- the loop of `_build_block_stacks` from the first parent on: load the parent (`seen` guards against a cycle: a
template already walked is no longer in `avail`), push its blocks, follow its own `extends`; the base template is the
last one loaded -/
def chainWalk (E : Env) (avail : List (String × List Node)) (name : String) (stacks : Stacks) :
    Except Err (List Node × Stacks) :=
  match h : dictGet avail name with
  | none => if (dictGet E.templates name).isSome then .error .inheritance else .error .notFound
  | some body =>
    match stackBlocks body stacks with
    | .error x => .error x
    | .ok (none, stk) => .ok (body, stk)
    | .ok (some nm, stk) => chainWalk E (eraseKey avail name) nm stk
termination_by avail.length
decreasing_by exact length_eraseKey_lt avail name body h

/-- the `TableRow` drop at item `i` of `n` when `cols` is not given (`ncols = length`: one row) -/
def rowDrop (n i : Nat) : Val :=
  .dict [("length", .int n), ("index", .int (i + 1)), ("index0", .int i), ("rindex", .int ((n : Int) - i)),
         ("rindex0", .int ((n : Int) - i - 1)), ("first", .bool (i == 0)), ("last", .bool ((i : Int) == (n : Int) - 1)),
         ("col", .int (i + 1)), ("col0", .int i), ("col_first", .bool (i == 0)), ("col_last", .bool (i + 1 == n)),
         ("row", .int 1)]

mutual
/-- `Node.render(context, buffer)` -/
def render (E : Env) (G : Frame) (st : St) : Node → Res
  | .text s => .ok (st, s)
  | .out e =>
    (match eval E G st e with
     | .error x => .error x
     | .ok v =>
       match showOut E.cfg v with
       | .error x => .error x
       | .ok s => .ok (st, s))
  | .assign n e =>
    (match eval E G st e with
     | .error x => .error x
     | .ok v => .ok ({ st with locals := dictSet st.locals n v }, ""))
  | .capture n body =>
    (match renderList E G st body with
     | .error x => .error x
     | .ok (st1, o) =>
       if st1.stopped then .ok (st1, "")          -- the exception passes `_assign`; the capture buffer is dropped
       else .ok ({ st1 with locals := dictSet st1.locals n (.str o) }, ""))
  | .ifB c body els =>
    (match eval E G st c with
     | .error x => .error x
     | .ok v =>
       if E.cfg.strictUndef && v.isUndef then .error .undefined
       else if isTruthy v then renderList E G st body else renderList E G st els)
  | .forB var label it body els =>
    (match eval E G st it with
     | .error x => .error x
     | .ok v =>
       if E.cfg.strictUndef && v.isUndef then .error .undefined else
       if (iterItems E.cfg v).isEmpty then renderList E G st els else
       if sizeBad G st then .error .sizeMismatch else
       if _h : G.sz > E.depth then .error .contextDepth else
       -- `context.loop`: loops.append(forloop); scope.push({"forloop": forloop, var: None})
       popLoopRes (iterFor E { G with sz := G.sz + 1 }
         { st with loops := forloopDrop label (iterItems E.cfg v).length 0 (st.loops.head?.getD .undef) :: st.loops,
                   pushed := dictSet [("forloop", forloopDrop label (iterItems E.cfg v).length 0 (st.loops.head?.getD .undef))] var .nil :: st.pushed }
         var label (iterItems E.cfg v).length (st.loops.head?.getD .undef) 0 (iterItems E.cfg v) body))
  | .tablerow var it body =>
    (match eval E G st it with
     | .error x => .error x
     | .ok v =>
       if E.cfg.strictUndef && v.isUndef then .error .undefined else
       if sizeBad G st then .error .sizeMismatch else
       if _h : G.sz > E.depth then .error .contextDepth else
       rowRes (iterRow E { G with sz := G.sz + 1 }
         { st with pushed := [("tablerowloop", rowDrop (iterItems E.cfg v).length 0)] :: st.pushed }
         var (iterItems E.cfg v).length 0 (iterItems E.cfg v) body))
  | .withB args body =>
    (match evalArgs E G st args with
     | .error x => .error x
     | .ok ns =>
       if sizeBad G st then .error .sizeMismatch else
       if _h : G.sz > E.depth then .error .contextDepth else
       popRes (renderList E { G with sz := G.sz + 1 } { st with pushed := dictOf ns :: st.pushed } body))
  | .incr n =>
    .ok ({ st with counters := dictSet st.counters n (counterGet st.counters n + 1) }, toString (counterGet st.counters n))
  | .decr n =>
    .ok ({ st with counters := dictSet st.counters n (counterGet st.counters n - 1) }, toString (counterGet st.counters n - 1))
  | .include name bind args =>
    if G.noInclude then .error .disabledTag else
    (match lookupT E.templates name with
     | none => .error .notFound
     | some body =>
       match evalArgs E G st args with
       | .error x => .error x
       | .ok ns =>
         if sizeBad G st then .error .sizeMismatch else
         if _h : G.sz > E.depth then .error .contextDepth else
         -- `context.extend(namespace, template=template)`
         popRes
           (match bind with
           | none => renderPartial E { G with sz := G.sz + 1, tnodes := body } { st with pushed := dictOf ns :: st.pushed } body
           | some (e, alias) =>
             match eval E { G with sz := G.sz + 1, tnodes := body } { st with pushed := dictOf ns :: st.pushed } e with
             | .error x => .error x
             | .ok v =>
               -- `isinstance(val, (tuple, list, IterableDrop))`: the ABC test reads `val.__class__`, which a StrictUndefined refuses
               if E.cfg.strictUndef && v.isUndef then .error .undefined else
               match arrayLike v with
               | some items =>
                 iterInc E { G with sz := G.sz + 1, tnodes := body } { st with pushed := dictOf ns :: st.pushed }
                   (bindKey name alias) items body
               | none =>
                 renderPartial E { G with sz := G.sz + 1, tnodes := body }
                   { st with pushed := dictSet (dictOf ns) (bindKey name alias) v :: st.pushed } body))
  | .render name bind args =>
    (match lookupT E.templates name with
     | none => .error .notFound
     | some body =>
       match evalArgs E G st args with
       | .error x => .error x
       | .ok ns =>
         if _h : G.copyDepth > E.depth then .error .contextDepth else
         -- the copied context is thrown away: the caller's state is what it was
         keepRes st
           (match bind with
           | none => renderPartial E (G.copied (dictOf ns) body) St.fresh body
           | some (loop, e, alias) =>
             match eval E G st e with
             | .error x => .error x
             | .ok v =>
               if loop && E.cfg.strictUndef && v.isUndef then .error .undefined else      -- `self.loop and isinstance(val, …)`
               match (if loop then arrayLike v else none) with
               | some items =>
                 iterRen E (G.copied (dictOf ns) body) St.fresh (bindKey name alias) items.length (dictOf ns) G.iso 0 items body
               | none => renderPartial E (G.copied (dictSet (dictOf ns) (bindKey name alias) v) body) St.fresh body))
  | .macroDef name params body =>
    .ok ({ st with macros := dictSet st.macros name { params := dictOf params, body := body } }, "")
  | .call name pos kw =>
    (match dictGet st.macros name with
     | none => if E.cfg.strictUndef then .error .undefined else .ok (st, "")      -- `buffer.write(str(macro))`
     | some m =>
       match callNamespace E G st m pos kw with
       | .error x => .error x
       | .ok ns =>
         if _h : G.copyDepth > E.depth then .error .contextDepth else
         keepStopRes st (renderList E (G.copied ns G.tnodes) St.fresh m.body))
  | .block name body =>
    (match dictGet st.stacks name with
     | some (item :: _) =>
       -- an overriding definition: `context.copy(namespace={"block": …}, block_scope=True, disabled_tags=…)`
       if _h : G.copyDepth > E.depth then .error .contextDepth else
       keepStopRes st (renderList E (G.blockCopied st.pushed st.locals st.counters) { St.fresh with stacks := st.stacks } item)
     | _ =>
       -- the base template rendered directly: `with context.extend({"block": BlockDrop(…)})`
       if sizeBad G st then .error .sizeMismatch else
       if _h : G.sz > E.depth then .error .contextDepth else
       popRes (renderList E { G with sz := G.sz + 1 } { st with pushed := [("block", Val.drop)] :: st.pushed } body))
  | .extends _ =>
    -- `_build_block_stacks(context, context.template, "extends")`
    (match stackBlocks G.tnodes st.stacks with
     | .error x => .error x
     | .ok (none, _) => .error .assertion
     | .ok (some nm, stk) =>
       match chainWalk E E.templates nm stk with
       | .error x => .error x
       | .ok (base, stk') =>
         -- `base_template.render_with_context(context, buffer)`; `extends.clear()`; `raise StopRender`
         if sizeBad G st then .error .sizeMismatch else
         if _h : G.sz > E.depth then .error .contextDepth else
         extendsRes (renderList E { G with sz := G.sz + 1 }
           { st with stacks := stk', pushed := [("partial", .bool false)] :: st.pushed } base))
termination_by n => (E.depth + 2 - G.copyDepth, E.depth + 2 - G.sz, sizeOf n, 0)
decreasing_by all_goals (simp_wf; simp only [Prod.lex_def, Frame.copied, Frame.blockCopied, true_and]; omega)

/-- a block: `for node in nodes: node.render(context, buffer)`; a `StopRender` ends it -/
def renderList (E : Env) (G : Frame) (st : St) : List Node → Res
  | [] => .ok (st, "")
  | n :: ns =>
    match render E G st n with
    | .error x => .error x
    | .ok (st1, o1) =>
      if st1.stopped then .ok (st1, o1) else
      match renderList E G st1 ns with
      | .error x => .error x
      | .ok (st2, o2) => .ok (st2, o1 ++ o2)
termination_by ns => (E.depth + 2 - G.copyDepth, E.depth + 2 - G.sz, sizeOf ns, 0)
decreasing_by all_goals (simp_wf; simp only [Prod.lex_def, true_and]; omega)

/-- `template.render_with_context(context, buffer, partial=True)`: `extend({"partial": True})`, then the nodes;
`StopRender` is caught here -/
def renderPartial (E : Env) (G : Frame) (st : St) (body : List Node) : Res :=
  if sizeBad G st then .error .sizeMismatch else
  if _h : G.sz > E.depth then .error .contextDepth else
  popCatchRes (renderList E { G with sz := G.sz + 1 } { st with pushed := [("partial", .bool true)] :: st.pushed } body)
termination_by (E.depth + 2 - G.copyDepth, E.depth + 2 - G.sz, sizeOf body + 1, 0)
decreasing_by all_goals (simp_wf; simp only [Prod.lex_def, true_and]; omega)

/-- the iterations of a `for` block from index `i` on: `namespace[var] = itm` (the namespace is the innermost pushed
one), the drop steps (it is the innermost entry of `loops` too), then the block -/
def iterFor (E : Env) (G : Frame) (st : St) (var label : String) (n : Nat) (parent : Val) (i : Nat) :
    List Val → List Node → Res
  | [], _ => .ok (st, "")
  | itm :: rest, body =>
    match renderList E G { st with pushed := dictSet [("forloop", forloopDrop label n i parent)] var itm :: st.pushed.tail,
                                   loops := forloopDrop label n i parent :: st.loops.tail } body with
    | .error x => .error x
    | .ok (st1, o1) =>
      if st1.stopped then .ok (st1, o1) else
      match iterFor E G st1 var label n parent (i + 1) rest body with
      | .error x => .error x
      | .ok (st2, o2) => .ok (st2, o1 ++ o2)
termination_by items body => (E.depth + 2 - G.copyDepth, E.depth + 2 - G.sz, sizeOf body + 1, items.length + 1)
decreasing_by all_goals (simp_wf; simp only [Prod.lex_def, true_and]; omega)

/-- the cells of a `tablerow` from item `i` on: `namespace[var] = item` on the namespace `tablerow` pushed, the drop
steps, `<td class="col…">`, the block, `</td>` (not written when an exception passes) -/
def iterRow (E : Env) (G : Frame) (st : St) (var : String) (n : Nat) (i : Nat) : List Val → List Node → Res
  | [], _ => .ok (st, "")
  | itm :: rest, body =>
    match renderList E G { st with pushed := dictSet [("tablerowloop", rowDrop n i)] var itm :: st.pushed.tail } body with
    | .error x => .error x
    | .ok (st1, o1) =>
      if st1.stopped then .ok (st1, "<td class=\"col" ++ toString (i + 1) ++ "\">" ++ o1) else
      match iterRow E G st1 var n (i + 1) rest body with
      | .error x => .error x
      | .ok (st2, o2) => .ok (st2, "<td class=\"col" ++ toString (i + 1) ++ "\">" ++ o1 ++ "</td>" ++ o2)
termination_by items body => (E.depth + 2 - G.copyDepth, E.depth + 2 - G.sz, sizeOf body + 1, items.length + 1)
decreasing_by all_goals (simp_wf; simp only [Prod.lex_def, true_and]; omega)

/-- `include … for`: `namespace[key] = itm` on the namespace `include` pushed, then `render_with_context` -/
def iterInc (E : Env) (G : Frame) (st : St) (key : String) : List Val → List Node → Res
  | [], _ => .ok (st, "")
  | itm :: rest, body =>
    match renderPartial E G { st with pushed := dictSet (st.pushed.headD []) key itm :: st.pushed.tail } body with
    | .error x => .error x
    | .ok (st1, o1) =>
      match iterInc E G st1 key rest body with
      | .error x => .error x
      | .ok (st2, o2) => .ok (st2, o1 ++ o2)
termination_by items body => (E.depth + 2 - G.copyDepth, E.depth + 2 - G.sz, sizeOf body + 1, items.length + 1)
decreasing_by all_goals (simp_wf; simp only [Prod.lex_def, true_and]; omega)

/-- `render … for`: `args["forloop"] = forloop; args[key] = itm` in the namespace in front of the copied context's
globals (`pg` = the caller's isolated globals); the copied context's state is threaded through the iterations -/
def iterRen (E : Env) (G : Frame) (st : St) (key : String) (n : Nat) (args : NS) (pg : List NS) (i : Nat) :
    List Val → List Node → Res
  | [], _ => .ok (st, "")
  | itm :: rest, body =>
    match renderPartial E { G with globals := dictSet (dictSet args "forloop" (forloopDrop key n i .undef)) key itm :: pg,
                                   iso := dictSet (dictSet args "forloop" (forloopDrop key n i .undef)) key itm :: pg } st body with
    | .error x => .error x
    | .ok (st1, o1) =>
      match iterRen E G st1 key n args pg (i + 1) rest body with
      | .error x => .error x
      | .ok (st2, o2) => .ok (st2, o1 ++ o2)
termination_by items body => (E.depth + 2 - G.copyDepth, E.depth + 2 - G.sz, sizeOf body + 1, items.length + 1)
decreasing_by all_goals (simp_wf; simp only [Prod.lex_def, true_and]; omega)
end

/-- `Environment.make_globals` then `BoundTemplate.make_globals`: `ChainMap(render_args, matter, {**env, **template})` -/
def topGlobals (renderArgs matter tglobals eglobals : NS) : List NS :=
  [renderArgs, matter, dictMerge eglobals tglobals]

/-- the context `BoundTemplate.render(**render_args)` creates -/
def topFrame (renderArgs matter tglobals eglobals : NS) (nodes : List Node) : Frame :=
  { globals := topGlobals renderArgs matter tglobals eglobals, copyDepth := 0, noInclude := false, sz := 4,
    iso := topGlobals renderArgs matter tglobals eglobals, tnodes := nodes }

/-- `BoundTemplate.render(**render_args)`: a new context, then `render_with_context` (not a partial) -/
def renderTemplate (E : Env) (renderArgs matter tglobals eglobals : NS) (nodes : List Node) : Except Err String :=
  let G := topFrame renderArgs matter tglobals eglobals nodes
  if G.sz > E.depth then .error .contextDepth else
  match renderList E { G with sz := G.sz + 1 } { St.fresh with pushed := [[("partial", .bool false)]] } nodes with
  | .error x => .error x
  | .ok (_, o) => .ok o

end LiquidVerif.Scope
