/-!
Render-with-limits model of python-liquid (properties C07 and C08): the five resource limits of
`liquid.Environment` as the code checks them, inside a render core that is concrete enough to produce the
output string.

Anchors (all under `liquid/`), *as the code is written now*:

* `output.py`  `LimitedStringIO.write(s)`: `if s: self.size += len(s.encode("utf-8", "surrogatepass"));
      if self.size > self.limit: raise OutputStreamLimitError`; then the write. `NullIO.write` writes nothing.
* `template.py` `BoundTemplate._get_buffer`: `StringIO()` when `output_stream_limit is None`, else
      `LimitedStringIO(limit)`;  `render`: fresh context, buffer, `render_with_context`;
      `render_with_context`: `context.extend(namespace)` then the template's nodes one by one (no blank-block
      suppression at template level); STRICT mode: the first `LiquidError` aborts the render.
* `context.py` `RenderContext.get_buffer(buf)`: `StringIO()` when the limit is `None`, else
      `LimitedStringIO(limit - carry)` with `carry = buf.size if isinstance(buf, LimitedStringIO) else 0`;
  `assign(key, val)`: `self.locals[key] = val`, then
      `if env.local_namespace_limit and self.get_size_of_locals() > env.local_namespace_limit: raise`;
  `get_size_of_locals()`: `sum(sys.getsizeof(v) for v in locals.values()) + local_namespace_size_carry`;
  `raise_for_loop_limit(length)`: `if env.loop_iteration_limit and reduce(mul, loop lengths, length * carry) > limit: raise`;
  `extend`: `if self.scope.size() > env.context_depth_limit: raise ContextDepthError`;
  `copy`: `if self._copy_depth > env.context_depth_limit: raise ContextDepthError`; fresh locals / tag namespace,
      `loop_iteration_carry = reduce(mul, loops, carry)`, `local_namespace_size_carry = get_size_of_locals()`;
  `loop`, `loop_carry`, `cycle`, `ifchanged`.
* `parser.py` `Parser.parse_block`: `stream.block_depth += 1; if stream.block_depth > env.block_nesting_limit: raise`.
* `ast.py` `BlockNode.render_to_output`: a *blank* block (under `suppress_blank_control_flow_blocks`, the default) is
      rendered into a `NullIO`; `Node.render`: disabled-tag check first.
* tags: `content`, `output`/`echo`, `assign`, `capture`, `ifchanged`, `cycle`, `if … else`, `for … else`,
      `include` (`with`/`for` value `as` alias, keyword arguments), `render` (`with` / `for` … `as`, keyword arguments).

Expressions are literals and variable names (resolution order: pushed namespaces innermost first, locals, globals);
values are nil / undefined / naturals / strings (lists of code points) / flat lists. `sys.getsizeof` is the
parameter `Prog.sz`.

**Ghost-exact fields.** `Buf.size` is kept for every real buffer, and `Cx.nsCarry` / `W.log` are computed whether
or not the corresponding limit is configured. The code stores nothing (a plain `StringIO`) or `0` there when the
limit is `None`/falsy and never reads it in that case, so no test of the model depends on the difference; it makes
the states of two renders under different limits literally equal.
-/
set_option linter.unusedSimpArgs false

namespace LiquidVerif.Limits

/-! ## Text and UTF-8 length -/

/-- a string as its list of code points -/
abbrev Text := List Nat

/-- number of UTF-8 bytes of one code point (`surrogatepass`: surrogates take three bytes like their neighbours) -/
def cpLen (c : Nat) : Nat :=
  if c < 0x80 then 1 else if c < 0x800 then 2 else if c < 0x10000 then 3 else 4

/-- `len(s.encode("utf-8", "surrogatepass"))` -/
def utf8Len : Text → Nat
  | [] => 0
  | c :: cs => cpLen c + utf8Len cs

/-- `str.isspace()` on one code point (the Unicode White_Space set plus the four ASCII separators Python adds) -/
def isSpaceCp (c : Nat) : Bool :=
  (9 ≤ c && c ≤ 13) || (28 ≤ c && c ≤ 32) || c == 0x85 || c == 0xA0 || c == 0x1680 ||
  (0x2000 ≤ c && c ≤ 0x200A) || c == 0x2028 || c == 0x2029 || c == 0x202F || c == 0x205F || c == 0x3000

/-- `not text or text.isspace()` -/
def blankText (s : Text) : Bool := s.all isSpaceCp

/-! ## Values and expressions -/

inductive Scalar where
  | nil
  | undef (name : String)   -- `Undefined(name)`: the name is part of its `repr`, hence of a cycle key built from arguments
  | int (n : Nat)
  | str (s : Text)
  deriving DecidableEq, Repr

inductive Val where
  | sc (s : Scalar)
  | list (xs : List Scalar)
  deriving DecidableEq, Repr

inductive Expr where
  | lit (v : Val)
  | var (name : String)
  /-- `e | name` -/
  | filt1 (name : String) (e : Expr)
  /-- `e | name: arg` -/
  | filt2 (name : String) (e : Expr) (arg : Expr)
  deriving Repr

/-- decimal digits of a natural number, as code points -/
def digits (n : Nat) : Text := (Nat.repr n).toList.map Char.toNat

/-- `str(x)` for the items of a list (`soft_str`): `None` prints as "None" -/
def pyStr : Scalar → Text
  | .nil => [78, 111, 110, 101]
  | .undef _ => []
  | .int n => digits n
  | .str s => s

/-- `to_liquid_string(val, autoescape=False)` -/
def toStr : Val → Text
  | .sc .nil => []
  | .sc (.undef _) => []
  | .sc (.int n) => digits n
  | .sc (.str s) => s
  | .list xs => xs.flatMap pyStr

/-- Liquid truthiness: only nil / undefined (and false, not modelled) are falsy -/
def truthy : Val → Bool
  | .sc .nil => false
  | .sc (.undef _) => false
  | _ => true

/-- `LoopExpression._to_iter` (with `string_sequences = False`): a list iterates its items, a non-empty string is a
single item, anything else is empty -/
def toIter : Val → List Scalar
  | .list xs => xs
  | .sc (.str []) => []
  | .sc (.str s) => [.str s]
  | _ => []

/-- `isinstance(val, (tuple, list, IterableDrop))` -/
def asArray : Val → Option (List Scalar)
  | .list xs => some xs
  | _ => none

/-! ## Templates -/

inductive Node where
  /-- template text -/
  | text (s : Text)
  /-- `{{ e }}` / `{% echo e %}` -/
  | output (e : Expr)
  /-- `{% assign name = e %}` -/
  | assign (name : String) (e : Expr)
  /-- `{% capture name %}body{% endcapture %}` -/
  | capture (name : String) (body : List Node)
  /-- `{% ifchanged %}body{% endifchanged %}` -/
  | ifchanged (body : List Node)
  /-- `{% cycle [group:] args %}`; the group is a string literal or absent -/
  | cycle (group : Text) (args : List Expr)
  /-- `{% if cond %}body{% else %}els{% endif %}` (truthiness test of one expression) -/
  | ifn (cond : Expr) (body : List Node) (els : List Node)
  /-- `{% unless cond %}body{% else %}els{% endunless %}` -/
  | unless (cond : Expr) (body : List Node) (els : List Node)
  /-- `{% with k: e … %}body{% endwith %}` (extra tag) -/
  | withn (args : List (String × Expr)) (body : List Node)
  /-- `{% for var in src %}body{% else %}dflt{% endfor %}` -/
  | forn (var : String) (src : Expr) (body : List Node) (dflt : List Node)
  /-- `{% tablerow var in src %}body{% endtablerow %}` (no `cols`: one row) -/
  | tablerow (var : String) (src : Expr) (body : List Node)
  /-- `{% include name [with|for e as key] [, k: e …] %}` -/
  | include (name : String) (bind : Option (Expr × String)) (args : List (String × Expr))
  /-- `{% render name [with|for e as key] [, k: e …] %}`; `isFor` distinguishes `for` from `with` -/
  | render (name : String) (bind : Option (Bool × Expr × String)) (args : List (String × Expr))

abbrev Tpls := List (String × List Node)

def lookupA {β : Type} (xs : List (String × β)) (k : String) : Option β :=
  match xs with
  | [] => none
  | (k', v) :: r => if k' == k then some v else lookupA r k

/-- `d[k] = v` on a dict kept as an association list (one entry per key, insertion order) -/
def setA {β : Type} (xs : List (String × β)) (k : String) (v : β) : List (String × β) :=
  match xs with
  | [] => [(k, v)]
  | (k', v') :: r => if k' == k then (k', v) :: r else (k', v') :: setA r k v

mutual
/-- maximal `stream.block_depth` reached while parsing the node (0 for a node without blocks) -/
def nestNode : Node → Nat
  | .capture _ body => nestList body + 1
  | .ifchanged body => nestList body + 1
  | .ifn _ body els => max (nestList body) (nestList els) + 1
  | .unless _ body els => max (nestList body) (nestList els) + 1
  | .withn _ body => nestList body + 1
  | .forn _ _ body dflt => max (nestList body) (nestList dflt) + 1
  | .tablerow _ _ body => nestList body + 1
  | _ => 0
def nestList : List Node → Nat
  | [] => 0
  | n :: ns => max (nestNode n) (nestList ns)
end

mutual
/-- `Node.blank` as the constructors of the node classes compute it -/
def blankNode : Node → Bool
  | .text s => blankText s
  | .output _ => false
  | .assign _ _ => true
  | .capture _ _ => true
  | .ifchanged body => blankList body
  | .cycle _ _ => false
  | .ifn _ body els => blankList body && blankList els
  | .unless _ body els => blankList body && blankList els
  | .withn _ body => blankList body
  | .forn _ _ body dflt => blankList body && blankList dflt
  | .tablerow _ _ _ => false
  | .include _ _ _ => false
  | .render _ _ _ => false
/-- `BlockNode.blank = all(node.blank for node in nodes)` -/
def blankList : List Node → Bool
  | [] => true
  | n :: ns => blankNode n && blankList ns
end

/-! ## Configuration, state, errors -/

/-- the five `Environment` class attributes -/
structure Limits where
  output : Option Nat      -- output_stream_limit   (None = no limit; 0 is a limit)
  ns : Option Nat          -- local_namespace_limit (None or 0 = no limit: `if limit and …`)
  loop : Option Nat        -- loop_iteration_limit  (None or 0 = no limit)
  depth : Nat              -- context_depth_limit
  nesting : Nat            -- block_nesting_limit
  deriving DecidableEq, Repr

/-- everything else a render depends on -/
structure Prog where
  templates : Tpls                    -- the loader's templates (parsed when first used)
  globals : List (String × Val)       -- render arguments
  sz : Val → Nat                      -- `sys.getsizeof`
  filt : String → Val → Option Val → Val   -- the filters, as functions on values (argument optional)
  lax : Bool                          -- `Mode.LAX` / `Mode.WARN`: `Environment.error` does not raise

inductive Err where
  | outputLimit     -- OutputStreamLimitError
  | nsLimit         -- LocalNamespaceLimitError
  | loopLimit       -- LoopIterationLimitError
  | contextDepth    -- ContextDepthError
  | blockNesting    -- BlockNestingError
  | notFound        -- TemplateNotFoundError
  | disabledTag     -- DisabledTagError
  deriving DecidableEq, Repr

/-- the class raised by each limit check is a resource-limit class -/
def Err.isLimit : Err → Bool
  | .notFound => false
  | .disabledTag => false
  | _ => true

/-- the exception class of the implementation that each model error stands for -/
def Err.pyName : Err → String
  | .outputLimit => "OutputStreamLimitError"
  | .nsLimit => "LocalNamespaceLimitError"
  | .loopLimit => "LoopIterationLimitError"
  | .contextDepth => "ContextDepthError"
  | .blockNesting => "BlockNestingError"
  | .notFound => "TemplateNotFoundError"
  | .disabledTag => "DisabledTagError"

/-- an output buffer: bytes counted so far (`LimitedStringIO.size`) and the text written -/
structure Buf where
  size : Nat
  text : Text
  deriving DecidableEq, Repr

/-- which class the current buffer is: `NullIO`, or a real buffer (`StringIO` = `real none`,
`LimitedStringIO(limit)` = `real (some limit)`) -/
inductive BK where
  | null
  | real (lim : Option Nat)
  deriving DecidableEq, Repr

inductive CycleKey where
  | named (g : Text)
  | byArgs (vs : List Val)
  deriving DecidableEq, Repr

/-- the part of a `RenderContext` that travels downwards only (restored by the context managers) -/
structure Cx where
  pushed : List (List (String × Val))   -- namespaces pushed by `extend`, innermost first
  globals : List (String × Val)
  loops : List Nat                      -- lengths of `RenderContext.loops`
  carry : Nat                           -- loop_iteration_carry
  copyDepth : Nat                       -- _copy_depth
  scope : Nat                           -- scope.size()
  noInclude : Bool                      -- "include" in disabled_tags
  nsCarry : Nat                         -- local_namespace_size_carry

/-- the state threaded through a render: locals and stateful-tag namespace of the current context, the current
buffer, and the log of `get_size_of_locals()` observed after every completed assignment (ghost) -/
structure W where
  locals : List (String × Val)
  cycles : List (CycleKey × Nat)
  ifch : Text
  buf : Buf
  log : List Nat
  /-- lengths left on `RenderContext.loops` by `RenderContext.loop` when its `extend` raised (`loops.append` comes
  before `with self.extend(...)`, the `finally: loops.pop()` after it); only observable when errors are suppressed -/
  leak : List Nat

/-- an error carries the state of the context at the moment it is raised (what a suppressing render loop goes on with) -/
abbrev Res := Except (Err × W) W

/-! ## The checks -/

/-- `functools.reduce(operator.mul, xs, init)` -/
def reduceMul (init : Nat) (xs : List Nat) : Nat := xs.foldl (· * ·) init

/-- `raise_for_loop_limit(len)` raises? -/
def loopOver (lim : Option Nat) (c : Cx) (w : W) (len : Nat) : Bool :=
  match lim with
  | none => false
  | some N => N != 0 && decide (reduceMul (len * c.carry) (w.leak ++ c.loops) > N)

/-- the test in `assign`: `limit and size > limit` -/
def nsOver (lim : Option Nat) (size : Nat) : Bool :=
  match lim with
  | none => false
  | some M => M != 0 && decide (size > M)

def sumSz (sz : Val → Nat) (xs : List (String × Val)) : Nat :=
  match xs with
  | [] => 0
  | (_, v) :: r => sz v + sumSz sz r

/-- `get_size_of_locals()` -/
def sizeOfLocals (P : Prog) (c : Cx) (w : W) : Nat := sumSz P.sz w.locals + c.nsCarry

/-- `buffer.write(s)` on the current buffer. `LimitedStringIO.write` adds to `size` *before* it tests the limit, so a
failed write leaves the count increased (and nothing written): the error carries that buffer. -/
def write (bk : BK) (b : Buf) (s : Text) : Except Buf Buf :=
  match bk with
  | .null => .ok b
  | .real lim =>
    if s = [] then .ok b else
    let size := b.size + utf8Len s
    match lim with
    | none => .ok ⟨size, b.text ++ s⟩
    | some l => if size > l then .error ⟨size, b.text⟩ else .ok ⟨size, b.text ++ s⟩

def writeW (bk : BK) (w : W) (s : Text) : Res :=
  match write bk w.buf s with
  | .error b => .error (.outputLimit, { w with buf := b })
  | .ok b => .ok { w with buf := b }

/-- `context.get_buffer(buffer)`: the class and limit of the new buffer -/
def subKind (L : Limits) (bk : BK) (b : Buf) : BK :=
  match L.output with
  | none => .real none
  | some l =>
    let carry := match bk with
      | .real (some _) => b.size
      | _ => 0
    .real (some (l - carry))

/-- `context.assign(name, v)` -/
def assignW (L : Limits) (P : Prog) (c : Cx) (w : W) (name : String) (v : Val) : Res :=
  let w1 := { w with locals := setA w.locals name v }
  let size := sizeOfLocals P c w1
  if nsOver L.ns size then .error (.nsLimit, w1) else .ok { w1 with log := w1.log ++ [size] }

/-! ## Name resolution -/

def lookupPushed (ps : List (List (String × Val))) (k : String) : Option Val :=
  match ps with
  | [] => none
  | ns :: r => match lookupA ns k with
    | some v => some v
    | none => lookupPushed r k

def evalVar (c : Cx) (w : W) (name : String) : Val :=
  match lookupPushed c.pushed name with
  | some v => v
  | none =>
    match lookupA w.locals name with
    | some v => v
    | none =>
      match lookupA c.globals name with
      | some v => v
      | none => .sc (.undef name)

def eval (P : Prog) (c : Cx) (w : W) : Expr → Val
  | .lit v => v
  | .var n => evalVar c w n
  | .filt1 f e => P.filt f (eval P c w e) none
  | .filt2 f e a => P.filt f (eval P c w e) (some (eval P c w a))

def evalArgs (P : Prog) (c : Cx) (w : W) (args : List (String × Expr)) : List (String × Val) :=
  args.map fun a => (a.1, eval P c w a.2)

/-- `context.cycle(key, length)`: returns the index and the updated table -/
def cycleStep (cs : List (CycleKey × Nat)) (key : CycleKey) (len : Nat) : Nat × List (CycleKey × Nat) :=
  let idx := match cs.find? (fun p => p.1 == key) with
    | some p => p.2
    | none => 0
  let nxt := (idx + 1) % (if len = 0 then 1 else len)
  (idx, (key, nxt) :: cs.filter (fun p => !(p.1 == key)))

/-- the `namespace[key] = value` of include (a pushed dict) and the `args[key] = value` of render (the copy's
globals) -/
def bindVar (inGlobals : Bool) (c : Cx) (key : String) (v : Val) : Cx :=
  if inGlobals then { c with globals := (key, v) :: c.globals }
  else { c with pushed := match c.pushed with
    | ns :: r => ((key, v) :: ns) :: r
    | [] => [[(key, v)]] }

@[simp] theorem bindVar_scope (g : Bool) (c : Cx) (k : String) (v : Val) : (bindVar g c k v).scope = c.scope := by
  unfold bindVar; split <;> rfl
@[simp] theorem bindVar_copyDepth (g : Bool) (c : Cx) (k : String) (v : Val) : (bindVar g c k v).copyDepth = c.copyDepth := by
  unfold bindVar; split <;> rfl

/-- `context.copy(namespace, disabled_tags=["include"], carry_loop_iterations=True)` (depth test at the call site) -/
def copied (P : Prog) (c : Cx) (w : W) (ns : List (String × Val)) : Cx :=
  { pushed := [], globals := ns ++ c.globals, loops := [], carry := reduceMul c.carry (w.leak ++ c.loops),
    copyDepth := c.copyDepth + 1, scope := 4, noInclude := true, nsCarry := sizeOfLocals P c w }

/-- the fresh locals / tag namespace of a copied context; buffer and log are the caller's -/
def freshW (w : W) : W := { locals := [], cycles := [], ifch := [], buf := w.buf, log := w.log, leak := [] }

/-- a copied context is thrown away after use: the caller keeps its own locals and tag namespace -/
def restoreW (w : W) (r : Res) : Res :=
  match r with
  | .error (e, w1) => .error (e, { w with buf := w1.buf, log := w1.log })
  | .ok w1 => .ok { w with buf := w1.buf, log := w1.log }

/-- what `include`/`render` bind: an array to iterate, or one value -/
inductive Bound where
  | none
  | one (key : String) (v : Val)
  | many (key : String) (items : List Scalar)

def boundInclude (P : Prog) (c : Cx) (w : W) (bind : Option (Expr × String)) : Bound :=
  match bind with
  | .none => .none
  | .some (e, key) =>
    match asArray (eval P c w e) with
    | some items => .many key items
    | none => .one key (eval P c w e)

def boundRender (P : Prog) (c : Cx) (w : W) (bind : Option (Bool × Expr × String)) : Bound :=
  match bind with
  | .none => .none
  | .some (isFor, e, key) =>
    match (if isFor then asArray (eval P c w e) else none) with
    | some items => .many key items
    | none => .one key (eval P c w e)

/-! ## Rendering (STRICT mode: the first error aborts) -/

/-- a check of the form `if measure > limit: raise e` in front of a computation; `w` is the state when it is made -/
@[macro_inline] def guardE (b : Bool) (e : Err) (w : W) (k : Res) : Res := if b then .error (e, w) else k

/-- sequencing: an error propagates (with its state), otherwise continue from the state reached -/
def bindR (a : Res) (f : W → Res) : Res :=
  match a with
  | .error e => .error e
  | .ok w => f w

/-- an error leaving a construct that had swapped part of the state (a sub-buffer): put the outer part back -/
def mapErr (g : W → W) (r : Res) : Res :=
  match r with
  | .error (e, w) => .error (e, g w)
  | .ok w => .ok w

/-- `except LiquidError as err: self.env.error(err)` in `render_with_context`: in LAX/WARN mode the error is dropped
and the loop goes on with the next node, from the state the failing node left behind -/
def catchR (lax : Bool) (r : Res) : Res :=
  match r with
  | .error (e, w) => if lax then .ok w else .error (e, w)
  | .ok w => .ok w

/-- `CycleNode.render_to_output`, the part that does not touch the buffer: evaluate the arguments,
`context.cycle(key, len(args))`; returns the updated state and the chosen argument (if the index is in range) -/
def cyclePick (P : Prog) (c : Cx) (w : W) (group : Text) (args : List Expr) : W × Option Val :=
  let vals := args.map (eval P c w)
  let key := if group ≠ [] then CycleKey.named group else CycleKey.byArgs vals
  let st := cycleStep w.cycles key vals.length
  ({ w with cycles := st.2 }, vals[st.1]?)

def cycleW (P : Prog) (c : Cx) (bk : BK) (w : W) (group : Text) (args : List Expr) : Res :=
  match (cyclePick P c w group args).2 with
  | none => .ok (cyclePick P c w group args).1
  | some v => writeW bk (cyclePick P c w group args).1 (toStr v)

/-- `<td class="colN">` -/
def tdOpen (col : Nat) : Text :=
  [60, 116, 100, 32, 99, 108, 97, 115, 115, 61, 34, 99, 111, 108] ++ digits col ++ [34, 62]
/-- `</td>` -/
def tdClose : Text := [60, 47, 116, 100, 62]
/-- `<tr class="row1">\n` -/
def trOpen : Text := [60, 116, 114, 32, 99, 108, 97, 115, 115, 61, 34, 114, 111, 119, 49, 34, 62, 10]
/-- `</tr>\n` -/
def trClose : Text := [60, 47, 116, 114, 62, 10]

/-- the cell tags of a tablerow item; nothing for a `for` item -/
def cellOpen (bk : BK) (w : W) (col : Option Nat) : Res :=
  match col with
  | none => .ok w
  | some k => writeW bk w (tdOpen k)
def cellClose (bk : BK) (w : W) (col : Option Nat) : Res :=
  match col with
  | none => .ok w
  | some _ => writeW bk w tdClose

mutual
/-- `Node.render(context, buffer)` -/
def render (L : Limits) (P : Prog) (c : Cx) (bk : BK) (w : W) : Node → Res
  | .text s => writeW bk w s
  | .output e => writeW bk w (toStr (eval P c w e))
  | .assign name e => assignW L P c w name (eval P c w e)
  | .capture name body =>
      bindR (mapErr (fun w1 => { w1 with buf := w.buf })
              (renderBlock L P c (subKind L bk w.buf) { w with buf := ⟨0, []⟩ } body (blankList body)))
        fun w1 => assignW L P c { w1 with buf := w.buf } name (.sc (.str w1.buf.text))
  | .ifchanged body =>
      bindR (mapErr (fun w1 => { w1 with buf := w.buf })
              (renderBlock L P c (subKind L bk w.buf) { w with buf := ⟨0, []⟩ } body (blankList body)))
        fun w1 =>
          if w1.buf.text ≠ w1.ifch then writeW bk { w1 with buf := w.buf, ifch := w1.buf.text } w1.buf.text
          else .ok { w1 with buf := w.buf }
  | .cycle group args => cycleW P c bk w group args
  | .ifn cond body els =>
      if truthy (eval P c w cond) then renderBlock L P c bk w body (blankList body && blankList els)
      else renderBlock L P c bk w els (blankList body && blankList els)
  | .unless cond body els =>
      if truthy (eval P c w cond) then renderBlock L P c bk w els (blankList body && blankList els)
      else renderBlock L P c bk w body (blankList body && blankList els)
  | .withn args body =>
      if _h : c.scope > L.depth then .error (.contextDepth, w) else
      renderBlock L P { c with pushed := evalArgs P c w args :: c.pushed, scope := c.scope + 1 } bk w body (blankList body)
  | .forn var src body dflt =>
      if (toIter (eval P c w src)).length ≠ 0 then
        -- context.loop: raise_for_loop_limit; loops.append; extend (whose failure leaves the appended length behind)
        guardE (loopOver L.loop c w (toIter (eval P c w src)).length) .loopLimit w
          (if _h : c.scope > L.depth then
             .error (.contextDepth, { w with leak := w.leak ++ [(toIter (eval P c w src)).length] }) else
            iter L P { c with loops := c.loops ++ [(toIter (eval P c w src)).length], scope := c.scope + 1 } bk w var body
              none (toIter (eval P c w src)))
      else renderBlock L P c bk w dflt (blankList dflt)
  | .tablerow var src body =>
      -- raise_for_loop_limit; write the row tag; extend; loop_carry; cells; closing tag
      guardE (loopOver L.loop c w (toIter (eval P c w src)).length) .loopLimit w
        (bindR (writeW bk w trOpen) fun w0 =>
          if _h : c.scope > L.depth then .error (.contextDepth, w0) else
          bindR (iter L P { c with carry := c.carry * (toIter (eval P c w src)).length, scope := c.scope + 1 } bk w0 var body
                  (some 1) (toIter (eval P c w src)))
            fun w1 => writeW bk w1 trClose)
  | .include name bind args =>
      guardE c.noInclude .disabledTag w
        (match lookupA P.templates name with
        | none => .error (.notFound, w)
        | some body =>
          guardE (decide (nestList body > L.nesting)) .blockNesting w
            (if _h : c.scope > L.depth then .error (.contextDepth, w) else
              match boundInclude P { c with pushed := evalArgs P c w args :: c.pushed, scope := c.scope + 1 } w bind with
              | .none => renderPartial L P { c with pushed := evalArgs P c w args :: c.pushed, scope := c.scope + 1 } bk w body
              | .one key v =>
                  renderPartial L P (bindVar false { c with pushed := evalArgs P c w args :: c.pushed, scope := c.scope + 1 } key v)
                    bk w body
              | .many key items =>
                  guardE (loopOver L.loop { c with pushed := evalArgs P c w args :: c.pushed, scope := c.scope + 1 } w items.length)
                    .loopLimit w
                    (iterPartial L P { c with pushed := evalArgs P c w args :: c.pushed, scope := c.scope + 1,
                                              carry := c.carry * items.length } bk w false key body items)))
  | .render name bind args =>
      match lookupA P.templates name with
      | none => .error (.notFound, w)
      | some body =>
        guardE (decide (nestList body > L.nesting)) .blockNesting w
          (if _h : c.copyDepth > L.depth then .error (.contextDepth, w) else
            match boundRender P c w bind with
            | .none => restoreW w (renderPartial L P (copied P c w (evalArgs P c w args)) bk (freshW w) body)
            | .one key v =>
                restoreW w (renderPartial L P (bindVar true (copied P c w (evalArgs P c w args)) key v) bk (freshW w) body)
            | .many key items =>
                guardE (loopOver L.loop (copied P c w (evalArgs P c w args)) (freshW w) items.length) .loopLimit w
                  (restoreW w (iterPartial L P { copied P c w (evalArgs P c w args) with
                      carry := (copied P c w (evalArgs P c w args)).carry * items.length } bk (freshW w) true key body items)))
termination_by n => (L.depth + 2 - c.copyDepth, L.depth + 2 - c.scope, sizeOf n, 0)
decreasing_by all_goals (simp_wf; simp only [Prod.lex_def, copied, bindVar_scope, bindVar_copyDepth, true_and]; omega)

/-- `BlockNode.render(context, buffer)`: a blank block goes to a `NullIO` -/
def renderBlock (L : Limits) (P : Prog) (c : Cx) (bk : BK) (w : W) (nodes : List Node) (blank : Bool) : Res :=
  renderList L P c (if blank then .null else bk) w nodes
termination_by (L.depth + 2 - c.copyDepth, L.depth + 2 - c.scope, sizeOf nodes, 1)
decreasing_by all_goals (simp_wf; simp only [Prod.lex_def, true_and]; omega)

/-- `for node in nodes: node.render(context, buffer)` inside a block: nothing is caught here -/
def renderList (L : Limits) (P : Prog) (c : Cx) (bk : BK) (w : W) : List Node → Res
  | [] => .ok w
  | n :: ns => bindR (render L P c bk w n) fun w1 => renderList L P c bk w1 ns
termination_by ns => (L.depth + 2 - c.copyDepth, L.depth + 2 - c.scope, sizeOf ns, 0)
decreasing_by all_goals (simp_wf; simp only [Prod.lex_def, true_and]; omega)

/-- the node loop of `render_with_context` (a template's or a partial's own nodes): each node's `LiquidError` goes to
`Environment.error`, which raises in STRICT mode and drops it in LAX/WARN mode -/
def renderTop (L : Limits) (P : Prog) (c : Cx) (bk : BK) (w : W) : List Node → Res
  | [] => .ok w
  | n :: ns => bindR (catchR P.lax (render L P c bk w n)) fun w1 => renderTop L P c bk w1 ns
termination_by ns => (L.depth + 2 - c.copyDepth, L.depth + 2 - c.scope, sizeOf ns, 0)
decreasing_by all_goals (simp_wf; simp only [Prod.lex_def, true_and]; omega)

/-- the iterations of a `for` body (`col = none`) or the cells of a `tablerow` (`col = some k`, the 1-based column):
`namespace[name] = itm`; [cell tag]; `block.render(context, buffer)`; [closing cell tag] -/
def iter (L : Limits) (P : Prog) (c : Cx) (bk : BK) (w : W) (var : String) (body : List Node) (col : Option Nat) :
    List Scalar → Res
  | [] => .ok w
  | itm :: rest =>
      bindR (cellOpen bk w col) fun w0 =>
      bindR (renderBlock L P { c with pushed := [(var, .sc itm)] :: c.pushed } bk w0 body (blankList body)) fun w1 =>
      bindR (cellClose bk w1 col) fun w2 =>
      iter L P c bk w2 var body (col.map (· + 1)) rest
termination_by items => (L.depth + 2 - c.copyDepth, L.depth + 2 - c.scope, sizeOf body, items.length + 2)
decreasing_by all_goals (simp_wf; simp only [Prod.lex_def, true_and]; omega)

/-- `template.render_with_context(context, buffer, partial=True)`: `extend`, then the template's nodes -/
def renderPartial (L : Limits) (P : Prog) (c : Cx) (bk : BK) (w : W) (body : List Node) : Res :=
  if _h : c.scope > L.depth then .error (.contextDepth, w) else
  renderTop L P { c with pushed := [] :: c.pushed, scope := c.scope + 1 } bk w body
termination_by (L.depth + 2 - c.copyDepth, L.depth + 2 - c.scope, sizeOf body + 1, 0)
decreasing_by all_goals (simp_wf; simp only [Prod.lex_def, true_and]; omega)

/-- one rendering of the partial per item of the bound array -/
def iterPartial (L : Limits) (P : Prog) (c : Cx) (bk : BK) (w : W) (inGlobals : Bool) (key : String)
    (body : List Node) : List Scalar → Res
  | [] => .ok w
  | itm :: rest =>
      bindR (renderPartial L P (bindVar inGlobals c key (.sc itm)) bk w body)
        fun w1 => iterPartial L P c bk w1 inGlobals key body rest
termination_by items => (L.depth + 2 - c.copyDepth, L.depth + 2 - c.scope, sizeOf body + 1, items.length + 1)
decreasing_by all_goals (simp_wf; simp only [Prod.lex_def, bindVar_scope, bindVar_copyDepth, true_and]; omega)
end

/-- the state a render starts from -/
def initW : W := { locals := [], cycles := [], ifch := [], buf := ⟨0, []⟩, log := [], leak := [] }

/-- `Environment.from_string(source)` (parse: block nesting) followed by `BoundTemplate.render(**globals)`.
The `extend` of the top-level `render_with_context` is outside the node loop: its error is raised in every mode. -/
def renderTemplate (L : Limits) (P : Prog) (nodes : List Node) : Res :=
  guardE (decide (nestList nodes > L.nesting)) .blockNesting initW <|
  let c : Cx := { pushed := [], globals := P.globals, loops := [], carry := 1, copyDepth := 0, scope := 4,
                  noInclude := false, nsCarry := 0 }
  if c.scope > L.depth then .error (.contextDepth, initW) else
  renderTop L P { c with pushed := [] :: c.pushed, scope := c.scope + 1 } (.real L.output) initW nodes

/-- the observable outcome: the returned string, or the error class -/
def outcome (r : Res) : Except Err Text :=
  match r with
  | .error (e, _) => .error e
  | .ok w => .ok w.buf.text

/-! ## `sys.getsizeof` of CPython 3.12 (64-bit) for the value classes the correspondence uses

A primitive of the interpreter, not of liquid: modelled as a definition and sampled by the `sizes` stream. The
theorems hold for every `sz`. -/

/-- number of 30-bit digits of a natural number (at least one) -/
def intDigits (n : Nat) : Nat := if n < 2 ^ 30 then 1 else if n < 2 ^ 60 then 2 else if n < 2 ^ 90 then 3 else 4

def maxCp : Text → Nat
  | [] => 0
  | c :: cs => max c (maxCp cs)

/-- compact `str` objects: ASCII 41+n, Latin-1 57+n, UCS-2 58+2n, UCS-4 60+4n -/
def strSize (s : Text) : Nat :=
  let m := maxCp s
  if m < 128 then 41 + s.length else if m < 256 then 57 + s.length
  else if m < 65536 then 58 + 2 * s.length else 60 + 4 * s.length

def pySizeof : Val → Nat
  | .sc .nil => 16
  | .sc (.undef _) => 64
  | .sc (.int n) => 24 + 4 * intDigits n
  | .sc (.str s) => strSize s
  | .list xs => 56 + 8 * (xs.length + xs.length % 2)   -- `list(tuple)`: exact preallocation, rounded up to an even count

/-! ## The filters the correspondence uses (`append`, `prepend`, `size`), as functions on values

`string_filter` turns the left value into a string (`None` → "", other non-strings through `str`), `append` /
`prepend` turn the argument into one with `str`. The theorems hold for every `filt`. -/

/-- `repr` of a list item (the generators keep quotes, backslashes and control characters out of array items) -/
def pyReprScalar : Scalar → Text
  | .nil => [78, 111, 110, 101]
  | .undef _ => []
  | .int n => digits n
  | .str s => [39] ++ s ++ [39]

def pyReprList (xs : List Scalar) : Text :=
  [91] ++ (match xs with
    | [] => []
    | x :: r => pyReprScalar x ++ r.flatMap (fun y => [44, 32] ++ pyReprScalar y)) ++ [93]

/-- `str(v)` -/
def pyStrVal : Val → Text
  | .sc s => pyStr s
  | .list xs => pyReprList xs

/-- the left operand after `string_filter` -/
def leftStr : Val → Text
  | .sc .nil => []
  | v => pyStrVal v

def pyFilt (name : String) (v : Val) (arg : Option Val) : Val :=
  match name, arg with
  | "append", some a => .sc (.str (leftStr v ++ pyStrVal a))
  | "prepend", some a => .sc (.str (pyStrVal a ++ leftStr v))
  | "size", none =>
    (match v with
     | .sc (.str s) => .sc (.int s.length)
     | .list xs => .sc (.int xs.length)
     | _ => .sc (.int 0))
  | _, _ => v

end LiquidVerif.Limits
