import LiquidVerif.Model.InheritSpec
/-!
Purely syntactic flattening of an inheritance chain.

`Plain` is a template language **without** `extends`, `block` and `block.super`: text, output of a variable,
`for` over a literal range, a node that raises (a required block that nobody overrode; the context-depth guard),
and one scope annotation: `scope save body` renders `body` and remembers (`save = true`) or forgets the scope at
its position, `outer body` renders `body` in the remembered scope.  The annotation is what is left of "a
`block.super` body runs in the context in which the block tag was met"; when no `block.super` sits under a `for`
of an overriding definition the annotation changes nothing (`eraseScope`, theorem `erase_scope_render`).

`flatItems lim res depth parents items` replaces, in `items`, every block tag by the most-derived definition of
its name (`res name`, head first), every `block.super` by the next definition up (`parents`), and resolves the
block tags inside the inlined bodies again.  The transformation does not look at any render data.  "Resolve
again" need not terminate (see `flatten_unbounded_example`), so it spends the same depth budget as the
renderer and leaves a `raise contextDepth` node where the budget runs out; a chain *has a finite flattening
within `lim`* when no such node is produced (`finiteWithin`).
-/
namespace LiquidVerif.Inherit

inductive Plain where
  | text (s : String)
  | var (x : String)
  | loop (v : String) (n : Nat) (body : List Plain)
  | scope (save : Bool) (body : List Plain)
  | outer (body : List Plain)
  | raise (e : Err)
  deriving Repr

mutual
def renderPlain (saved : Option Scope) (sc : Scope) : Plain → Except Err String
  | .text s => .ok s
  | .var x => .ok (lookupVar sc x)
  | .loop v n body => renderPlainLoop saved sc v n body n
  | .scope save body => renderPlains (if save then some sc else none) sc body
  | .outer body => renderPlains none (saved.getD sc) body
  | .raise e => .error e
termination_by p => (sizeOf p, 0)
def renderPlains (saved : Option Scope) (sc : Scope) : List Plain → Except Err String
  | [] => .ok ""
  | p :: ps =>
    match renderPlain saved sc p with
    | .error e => .error e
    | .ok a =>
      match renderPlains saved sc ps with
      | .error e => .error e
      | .ok b => .ok (a ++ b)
termination_by ps => (sizeOf ps, 0)
def renderPlainLoop (saved : Option Scope) (sc : Scope) (v : String) (n : Nat) (body : List Plain) :
    Nat → Except Err String
  | 0 => .ok ""
  | k + 1 =>
    match renderPlains saved ((v, toString (n - k)) :: sc) body with
    | .error e => .error e
    | .ok a =>
      match renderPlainLoop saved sc v n body k with
      | .error e => .error e
      | .ok b => .ok (a ++ b)
termination_by k => (sizeOf body, k + 1)
end

mutual
def flatItem (lim : Nat) (res : String → List Def) (depth : Nat) (parents : List Def) : Item → Plain
  | .text s => .text s
  | .var x => .var x
  | .super =>
    match parents with
    | [] => .text ""
    | p :: ps => .outer (flatItems lim res depth ps p.body)
  | .loop v n body => .loop v n (flatItems lim res depth parents body)
  | .block name req body =>
    match res name with
    | d :: ds =>
      if d.required then .raise .requiredBlock
      else if h : depth > lim then .raise .contextDepth
      else .scope true (flatItems lim res (depth + 1) ds d.body)
    | [] =>
      if req then .raise .requiredBlock
      else .scope false (flatItems lim res depth [] body)
termination_by i => (lim + 1 - depth, sizeOf i + sizeOf parents)
decreasing_by
  all_goals simp_wf
  all_goals first
    | (apply Prod.Lex.left; omega)
    | (apply Prod.Lex.right; omega)
    | (apply Prod.Lex.right; simp only [Def.mk.sizeOf_spec, List.cons.sizeOf_spec, List.nil.sizeOf_spec]; omega)
    | (apply Prod.Lex.right
       have hp : sizeOf p.body < sizeOf p := by cases p; simp only [Def.mk.sizeOf_spec]; omega
       omega)

def flatItems (lim : Nat) (res : String → List Def) (depth : Nat) (parents : List Def) : List Item → List Plain
  | [] => []
  | i :: is => flatItem lim res depth parents i :: flatItems lim res depth parents is
termination_by is => (lim + 1 - depth, sizeOf is + sizeOf parents)
decreasing_by
  all_goals simp_wf
  all_goals (apply Prod.Lex.right; omega)
end

/-- the flattened template of a chain (leaf first): the root with every block replaced -/
def flattenSyn (lim : Nat) (chain : List Template) : List Plain :=
  flatItems lim (defsOf chain) 0 [] (rootOf chain)

mutual
def depthRaise : Plain → Bool
  | .raise .contextDepth => true
  | .loop _ _ body => depthRaises body
  | .scope _ body => depthRaises body
  | .outer body => depthRaises body
  | _ => false
def depthRaises : List Plain → Bool
  | [] => false
  | p :: ps => depthRaise p || depthRaises ps
end

/-- the chain has a finite flattening within depth budget `lim` -/
def finiteWithin (lim : Nat) (chain : List Template) : Bool := !depthRaises (flattenSyn lim chain)

mutual
/-- drop the scope annotations: what remains is text / variable / for / raise only -/
def eraseScope : Plain → List Plain
  | .loop v n body => [.loop v n (eraseScopes body)]
  | .scope _ body => eraseScopes body
  | .outer body => eraseScopes body
  | p => [p]
def eraseScopes : List Plain → List Plain
  | [] => []
  | p :: ps => eraseScope p ++ eraseScopes ps
end

mutual
/-- no `outer` node reachable without crossing a `scope` node -/
def noOuter : Plain → Bool
  | .loop _ _ body => noOuters body
  | .outer _ => false
  | _ => true
def noOuters : List Plain → Bool
  | [] => true
  | p :: ps => noOuter p && noOuters ps
end

mutual
/-- hygiene: no `outer` (a first-level `block.super` body) directly under a `for` of the definition that calls
it, i.e. no `{{ block.super }}` written under a `{% for %}` inside the same block definition -/
def hygienic : Plain → Bool
  | .loop _ _ body => noOuters body && hygienics body
  | .scope _ body => hygienics body
  | .outer body => hygienics body
  | _ => true
def hygienics : List Plain → Bool
  | [] => true
  | p :: ps => hygienic p && hygienics ps
end

end LiquidVerif.Inherit
