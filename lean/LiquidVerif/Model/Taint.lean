import LiquidVerif.Model.Escape
import LiquidVerif.Model.PyStr
/-!
Model of the safe/unsafe ("taint") discipline of python-liquid under `autoescape` (property C05).

A string value is `TStr = {chars, safe}`; `safe` means "is a `markupsafe.Markup`". The model mirrors, as the
code is written,

* `liquid/stringify.py` `to_liquid_string` (`outVal`): `escape(val)` leaves a `Markup` unchanged and escapes a `str`;
  a list is `Markup("").join(soft_str(itm) …)`; an object with `__html__` is output as its `__html__()`;
* `liquid/builtin/expressions/primitive.py` `StringLiteral.evaluate`: `Markup(value)` under autoescape (`evalArg`);
* `liquid/builtin/tags/capture_tag.py`: the captured buffer is stored as `Markup` (`Node.capture`);
* `liquid/builtin/filters/string.py`, `array.py`, `extra.py`, `misc.py`: every filter, with its `environment.autoescape`
  branch and the `markupsafe.Markup` operator semantics of the `str` methods it calls (markupsafe 3.0:
  `__add__/__radd__/join/replace(new)/%` escape unsafe operands and return `Markup`; `upper/lower/capitalize/strip/
  __getitem__/split/rpartition` return `Markup`; `unescape`, f-strings, `str.join`, `re.sub`, `urllib.parse.unquote` on a
  string with `%`, `bytes.decode` return plain `str`; iterating a `Markup` yields plain `str` characters);
* `liquid/filter.py` `string_filter` / `sequence_filter` / `liquid_filter` coercions of the left value;
* the tags `output/echo`, `assign`, `capture`, `cycle`, `for`, `if` (`unless`, `case`, `elsif` are desugared by the
  harness), `include`, `render` (partials inlined: every terminating render unrolls to a finite tree), `translate`.

The three shapes of DESIGN §6 C05 appear as `keepSafe`, plain results (`⟨_, false⟩`) and `mixAdd`/`escT`.

Opaque text functions (`html.unescape`, the `HTMLParser` of `strip_tags`, `urllib.parse.unquote`, base64, `str(list)`)
are **parameters** (`Prims`): theorems quantify over all of them; the driver instantiates them with the results the real
functions gave on the same inputs. Each is used only where the result is a plain `str` (no obligation), or behind the
guard the code has (`strip_tags` returns its argument unless it contains both `<` and `>`).

`auto = false` is the same code with `environment.autoescape` off.
-/
namespace LiquidVerif.Taint
open LiquidVerif.Escape
open LiquidVerif.Filters (isSpace upcase downcase capitalize lstrip rstrip strip splitWs splitOn joinStr hasPrefix
  truncateChars truncateWords MAX_TRUNC_WORDS parseIntStr)

structure TStr where
  chars : Str
  safe : Bool
  deriving Repr, DecidableEq, Inhabited

inductive Val where
  | str (s : TStr)
  | arr (xs : List TStr)
  | num (n : Int)
  | nil
  | undef
  | bool (b : Bool)
  /-- an object with `__html__` (not a `str`): `__html__()` text and `__str__()` text -/
  | obj (html : Str) (text : Str)
  /-- any other Python object taken from the render data (dict, float, list with non-string items): only its `str()`
      is modelled — it is used as a filter argument that the filter stringifies, as the left value of a `string_filter`,
      or written to the output. -/
  | other (text : Str)
  deriving Repr, DecidableEq, Inhabited

inductive Err where
  | filter        -- FilterArgumentError / FilterError / FilterValueError / a leaked Python error: the render aborts
  | unmodelled    -- outside the modelled fragment (the harness skips the comparison)
  deriving Repr, DecidableEq

/-- opaque text functions, see the header -/
structure Prims where
  unescape : Str → Str
  stripParse : Str → Str
  unquote : Str → Str
  b64 : Nat → Str → Option Str
  listStr : List TStr → Str

/-! ## text helpers -/

def natDigits : Nat → Str
  | n => if h : n < 10 then [Char.ofNat (48 + n)] else natDigits (n / 10) ++ [Char.ofNat (48 + n % 10)]
decreasing_by omega

def intStr (i : Int) : Str := if i < 0 then '-' :: natDigits i.natAbs else natDigits i.natAbs

def hexDigit (n : Nat) : Char :=
  match n % 16 with
  | 0 => '0' | 1 => '1' | 2 => '2' | 3 => '3' | 4 => '4' | 5 => '5' | 6 => '6' | 7 => '7'
  | 8 => '8' | 9 => '9' | 10 => 'A' | 11 => 'B' | 12 => 'C' | 13 => 'D' | 14 => 'E' | _ => 'F'

/-- UTF-8 bytes of a code point -/
def utf8 (c : Char) : List Nat :=
  let n := c.toNat
  if n < 0x80 then [n]
  else if n < 0x800 then [0xC0 + n / 64, 0x80 + n % 64]
  else if n < 0x10000 then [0xE0 + n / 4096, 0x80 + n / 64 % 64, 0x80 + n % 64]
  else [0xF0 + n / 262144, 0x80 + n / 4096 % 64, 0x80 + n / 64 % 64, 0x80 + n % 64]

def isUnreserved (c : Char) : Bool :=
  let n := c.toNat
  (48 ≤ n && n ≤ 57) || (65 ≤ n && n ≤ 90) || (97 ≤ n && n ≤ 122) || c == '_' || c == '.' || c == '-' || c == '~'

def pctByte (b : Nat) : Str := ['%', hexDigit (b / 16), hexDigit b]

def quoteChar (c : Char) : Str :=
  if isUnreserved c then [c] else if c == ' ' then ['+'] else (utf8 c).flatMap pctByte

/-- `urllib.parse.quote_plus(s)` -/
def quotePlus (s : Str) : Str := s.flatMap quoteChar

def jsMapped (c : Char) : Bool :=
  c == '\\' || c == '\'' || c == '"' || c == '>' || c == '<' || c == '&' || c == '=' || c == '-' || c == ';' || c == '`'
    || c.toNat == 0x2028 || c.toNat == 0x2029 || c.toNat < 32

def jsChar (c : Char) : Str :=
  if jsMapped c then
    ['\\', 'u', hexDigit (c.toNat / 4096), hexDigit (c.toNat / 256), hexDigit (c.toNat / 16), hexDigit c.toNat]
  else [c]

/-- `_ESCAPE_RE.sub(lambda m: _ESCAPE_MAP[m.group()], val)` of `escapejs` -/
def jsEscape (s : Str) : Str := s.flatMap jsChar

/-- `html.escape(s)` (quote=True), used when autoescape is off -/
def htmlEscChar (c : Char) : Str :=
  if c == '&' then "&amp;".toList else if c == '<' then "&lt;".toList else if c == '>' then "&gt;".toList
  else if c == '"' then "&quot;".toList else if c == '\'' then "&#x27;".toList else [c]
def htmlEscape (s : Str) : Str := s.flatMap htmlEscChar

/-- `RE_LINETERM.sub(rep, s)` with `RE_LINETERM = \r?\n` -/
def subNewlines (rep : Str) : Str → Str
  | [] => []
  | '\r' :: '\n' :: cs => rep ++ subNewlines rep cs
  | c :: cs => if c == '\n' then rep ++ subNewlines rep cs else c :: subNewlines rep cs

/-- `str.replace(old, new)` for a non-empty `old`; `skip` = characters of a matched `old` still to drop -/
def replaceAux (old new : Str) : Nat → Str → Str
  | _, [] => []
  | skip + 1, _ :: cs => replaceAux old new skip cs
  | 0, c :: cs =>
    if hasPrefix old (c :: cs) then new ++ replaceAux old new (old.length - 1) cs
    else c :: replaceAux old new 0 cs

/-- `str.replace(old, new)` -/
def replaceAll (old new s : Str) : Str :=
  if old.isEmpty then new ++ s.flatMap (fun c => c :: new) else replaceAux old new 0 s

/-- `str.partition(sep)` for a non-empty `sep`: `none` when `sep` does not occur. `acc` = prefix read so far, reversed -/
def partitionAux (sep : Str) : Str → Str → Option (Str × Str)
  | [], _ => none
  | c :: cs, acc =>
    if hasPrefix sep (c :: cs) then some (acc.reverse, (c :: cs).drop sep.length)
    else partitionAux sep cs (c :: acc)

def partition (sep s : Str) : Option (Str × Str) := partitionAux sep s []

/-- `str.rpartition(sep)` for a non-empty `sep` (last occurrence = first occurrence in the reversed string) -/
def rpartition (sep s : Str) : Option (Str × Str) :=
  match partition sep.reverse s.reverse with
  | none => none
  | some (a, b) => some (b.reverse, a.reverse)

/-- `str.replace(old, new, 1)` -/
def replaceFirst (old new s : Str) : Str :=
  if old.isEmpty then new ++ s
  else match partition old s with
    | none => s
    | some (b, a) => b ++ new ++ a

/-- Python index normalisation for slicing a sequence of length `len` -/
def pyIndex (len : Nat) (i : Int) : Nat :=
  if i < 0 then (i + (len : Int)).toNat else min i.toNat len

/-- `s[start:stop]` -/
def pySlice {α} (s : List α) (start : Int) (stop : Option Int) : List α :=
  let b := match stop with | none => s.length | some e => pyIndex s.length e
  (s.take b).drop (pyIndex s.length start)

def MAX_SLICE_ARG : Int := 9223372036854775807
def MIN_SLICE_ARG : Int := -9223372036854775808

/-- the slicing arithmetic of `slice_` after argument conversion -/
def sliceSeq {α} (s : List α) (start length : Int) : List α :=
  let st := max (min start MAX_SLICE_ARG) MIN_SLICE_ARG
  let ln := max (max (min length MAX_SLICE_ARG) MIN_SLICE_ARG) 0
  let e := st + ln
  pySlice s st (if st < 0 && 0 ≤ e then none else some e)

/-! ## Markup operator semantics -/

/-- `Markup.escape(x)` / `markupsafe.escape(x)` on a string value: a `Markup` is returned unchanged -/
def escT (s : TStr) : Str := if s.safe then s.chars else escape s.chars

/-- `a + b` for two `str` values: `Markup.__add__` / `Markup.__radd__` when either is a `Markup` (Python calls the
reflected method of a subclass operand first), plain concatenation otherwise -/
def mixAdd (a b : TStr) : TStr :=
  if a.safe || b.safe then ⟨escT a ++ escT b, true⟩ else ⟨a.chars ++ b.chars, false⟩

/-- a `str` method that `Markup` overrides to return `Markup` -/
def keepSafe (f : Str → Str) (s : TStr) : TStr := ⟨f s.chars, s.safe⟩

/-! ## coercions -/

def boolStr (b : Bool) : Str := if b then "True".toList else "False".toList

/-- `string_filter`: `None → ""`, non-`str → str(val)` -/
def recvS (P : Prims) : Val → TStr
  | .str s => s
  | .nil => ⟨[], false⟩
  | .undef => ⟨[], false⟩
  | .num n => ⟨intStr n, false⟩
  | .bool b => ⟨boolStr b, false⟩
  | .arr xs => ⟨P.listStr xs, false⟩
  | .obj _ t => ⟨t, false⟩
  | .other t => ⟨t, false⟩

/-- `soft_str(arg)` / `arg if isinstance(arg, str) else str(arg)` for a filter argument -/
def argS (P : Prims) : Val → TStr
  | .nil => ⟨"None".toList, false⟩
  | v => recvS P v

/-- `to_int(val)`: `none` = ValueError/TypeError -/
def argInt : Val → Option Int
  | .num n => some n
  | .str s => parseIntStr s.chars
  | .bool b => some (if b then 1 else 0)
  | _ => none

/-- `sequence_filter`: the left value as a list of strings (`none`: outside the modelled fragment) -/
def seqOf (_P : Prims) : Val → Option (List TStr)
  | .arr xs => some xs
  | .str s => some [s]
  | .num n => some [⟨intStr n, false⟩]
  | .undef => some []
  | .other t => some [⟨t, false⟩]     -- a dict or a non-iterable is wrapped: `val = [val]`
  | _ => none

/-- `to_liquid_string(val, autoescape)` followed by the buffer write -/
def outVal (auto : Bool) : Val → Str
  | .str s => if auto then escT s else s.chars
  | .arr xs => if auto then (xs.map escT).flatten else (xs.map (·.chars)).flatten
  | .num n => intStr n
  | .nil => []
  | .undef => []
  | .bool b => if b then "true".toList else "false".toList
  | .obj h t => if auto then h else t
  | .other t => if auto then escape t else t

/-! ## filters -/

inductive FName where
  | append | prepend | upcase | downcase | capitalize | escape | escape_once | lstrip | rstrip | strip
  | remove | remove_first | remove_last | replace | replace_first | replace_last | slice | split
  | strip_html | strip_newlines | newline_to_br | truncate | truncatewords | url_encode | url_decode
  | base64_encode | base64_decode | base64_url_safe_encode | base64_url_safe_decode | squish | safe | escapejs
  | join | first | last | reverse | concat | size | default
  deriving Repr, DecidableEq

abbrev R := Except Err Val

def okS (s : TStr) : R := .ok (.str s)

/-- `val.replace(old, new[, 1])` on a value: `Markup.replace` escapes `new` and returns `Markup` -/
def replaceT (first : Bool) (s old new : TStr) : TStr :=
  let rep := if first then replaceFirst else replaceAll
  if s.safe then ⟨rep old.chars (escT new) s.chars, true⟩ else ⟨rep old.chars new.chars s.chars, false⟩

def isEmptyVal : Val → Bool
  | .str s => s.chars.isEmpty
  | .arr xs => xs.isEmpty
  | _ => false

def b64Kind : FName → Nat
  | .base64_encode => 0 | .base64_decode => 1 | .base64_url_safe_encode => 2 | _ => 3

/-- `separator.join(items)`: `Markup.join` escapes the unsafe items, `str.join` returns a plain `str` -/
def joinT (sep : TStr) (items : List TStr) : TStr :=
  if sep.safe then ⟨joinStr sep.chars (items.map escT), true⟩ else ⟨joinStr sep.chars (items.map (·.chars)), false⟩

/-- the separator of `join`: `str(separator)`, and `Markup(" ")` for the default `" "` under autoescape -/
def joinSep (P : Prims) (auto : Bool) (args : List Val) : TStr :=
  let sep0 : TStr := match args with
    | [a] => argS P a
    | _ => ⟨[' '], false⟩
  if auto && sep0.chars == [' '] then ⟨[' '], true⟩ else sep0

/-- `default`'s second argument (`""` when missing) -/
def defaultArg (args : List Val) : Val :=
  match args with
  | [a] => a
  | _ => .str ⟨[], false⟩

def applyFilter (P : Prims) (auto : Bool) (f : FName) (v : Val) (args : List Val) : R :=
  let s := recvS P v
  match f, args with
  | .append, [a] => okS (mixAdd s (argS P a))
  | .prepend, [a] => okS (mixAdd (argS P a) s)
  | .upcase, [] => okS (keepSafe upcase s)
  | .downcase, [] => okS (keepSafe downcase s)
  | .capitalize, [] => okS (keepSafe capitalize s)
  | .escape, [] => okS (if auto then ⟨escape s.chars, true⟩ else ⟨htmlEscape s.chars, false⟩)
  | .escape_once, [] => okS (if auto then ⟨P.unescape s.chars, false⟩ else ⟨htmlEscape (P.unescape s.chars), false⟩)
  | .lstrip, [] => okS (keepSafe lstrip s)
  | .rstrip, [] => okS (keepSafe rstrip s)
  | .strip, [] => okS (keepSafe strip s)
  | .remove, [a] => okS (replaceT false s (argS P a) ⟨[], false⟩)
  | .remove_first, [a] => okS (replaceT true s (argS P a) ⟨[], false⟩)
  | .remove_last, [a] =>
    let old := argS P a
    if old.chars.isEmpty then okS s else
    (match rpartition old.chars s.chars with
     | some (b, r) => if b.isEmpty then okS s else okS ⟨b ++ r, s.safe⟩
     | none => okS s)
  | .replace, [a] => okS (replaceT false s (argS P a) ⟨[], false⟩)
  | .replace, [a, b] => okS (replaceT false s (argS P a) (argS P b))
  | .replace_first, [a] => okS (replaceT true s (argS P a) ⟨[], false⟩)
  | .replace_first, [a, b] => okS (replaceT true s (argS P a) (argS P b))
  | .replace_last, [a, b] =>
    let old := argS P a
    let sub := argS P b
    if old.chars.isEmpty then okS (mixAdd s sub) else
    (match rpartition old.chars s.chars with
     | some (bf, af) => if bf.isEmpty then okS s else okS (mixAdd (mixAdd ⟨bf, s.safe⟩ sub) ⟨af, s.safe⟩)
     | none => okS s)
  | .slice, start :: rest =>
    (match start, rest with
     | .undef, _ => .error .filter
     | _, _ :: _ :: _ => .error .filter
     | _, _ =>
       let len? : Option Int := match rest with
         | [] => some 1
         | [.undef] => some 1
         | [l] => argInt l
         | _ => none
       match argInt start, len? with
       | some st, some ln =>
         (match v with
          | .arr xs => .ok (.arr (sliceSeq xs st ln))
          | .str t => okS (keepSafe (fun c => sliceSeq c st ln) t)
          | .nil => okS ⟨sliceSeq "None".toList st ln, false⟩
          | _ => okS ⟨sliceSeq s.chars st ln, false⟩)
       | _, _ => .error .filter)
  | .split, [sep] =>
    (match sep with
     | .undef => .ok (.arr (s.chars.map fun c => ⟨[c], false⟩))
     | .nil => .ok (.arr (s.chars.map fun c => ⟨[c], false⟩))
     | _ =>
       let sp := argS P sep
       if (match sep with | .str t => t.chars.isEmpty | _ => false) then .ok (.arr (s.chars.map fun c => ⟨[c], false⟩))
       else if s.chars.isEmpty || s.chars == sp.chars then .ok (.arr [])
       else if sp.chars.isEmpty then .error .filter   -- `str.split("")` raises ValueError (an object whose `str()` is empty)
       else if sp.chars == [' '] then .ok (.arr ((splitWs s.chars).map fun p => ⟨p, s.safe⟩))
       else .ok (.arr ((splitOn sp.chars s.chars).map fun p => ⟨p, s.safe⟩)))
  | .strip_html, [] =>
    let r := if s.chars.contains '<' && s.chars.contains '>' then P.stripParse s.chars else s.chars
    okS ⟨r, auto && s.safe⟩
  | .strip_newlines, [] =>
    okS (if auto then ⟨subNewlines [] (escT s), true⟩ else ⟨subNewlines [] s.chars, false⟩)
  | .newline_to_br, [] =>
    okS (if auto then ⟨subNewlines "<br />\n".toList (escT s), true⟩ else ⟨subNewlines "<br />\n".toList s.chars, false⟩)
  | .truncate, args =>
    (match args with
     | _ :: _ :: _ :: _ => .error .filter
     | _ =>
       let num? : Option Int := match args with
         | [] => some 50
         | .undef :: _ => none
         | n :: _ => argInt n
       let e : Str := match args with
         | [_, e] => (match e with | .nil => "None".toList | e => (recvS P e).chars)
         | _ => "...".toList
       match num? with
       | none => .error .filter
       | some num =>
         if (s.chars.length : Int) ≤ num then okS s else okS ⟨truncateChars s.chars num e, false⟩)
  | .truncatewords, args =>
    (match args with
     | _ :: _ :: _ :: _ => .error .filter
     | _ =>
       let num? : Option Int := match args with
         | [] => some 15
         | .undef :: _ => none
         | n :: _ => argInt n
       let e : Str := match args with
         | [_, e] => (match e with | .nil => "None".toList | e => (recvS P e).chars)
         | _ => "...".toList
       match num? with
       | none => .error .filter
       | some num =>
         if (if num ≤ 0 then 1 else num) ≥ MAX_TRUNC_WORDS then okS s else okS ⟨truncateWords s.chars num e, false⟩)
  | .url_encode, [] => okS ⟨quotePlus s.chars, auto⟩
  | .url_decode, [] =>
    let t := replaceT false s ⟨['+'], false⟩ ⟨[' '], false⟩
    if t.chars.contains '%' then okS ⟨P.unquote t.chars, false⟩ else okS t
  | .base64_encode, [] | .base64_decode, [] | .base64_url_safe_encode, [] | .base64_url_safe_decode, [] =>
    (match P.b64 (b64Kind f) s.chars with
     | some r => okS ⟨r, false⟩
     | none => .error .filter)
  | .squish, [] => okS ⟨joinStr [' '] (splitWs s.chars), false⟩
  | .safe, [] => okS ⟨s.chars, auto || s.safe⟩
  | .escapejs, [] => okS ⟨jsEscape s.chars, auto⟩
  | .join, args =>
    (match args with
     | _ :: _ :: _ => .error .filter
     | _ =>
       match seqOf P v with
       | none => .error .unmodelled
       | some items => okS (joinT (joinSep P auto args) items))
  | .first, [] =>
    (match v with
     | .arr (x :: _) => okS x
     | .undef => .ok .undef          -- `getitem(Undefined, 0)` is the Undefined itself
     | _ => .ok .nil)
  | .last, [] =>
    (match v with
     | .arr xs => (match xs.getLast? with | some x => okS x | none => .ok .nil)
     | .undef => .ok .undef
     | _ => .ok .nil)
  | .reverse, [] =>
    (match seqOf P v with
     | some items => .ok (.arr items.reverse)
     | none => .error .unmodelled)
  | .concat, [a] =>
    (match a with
     | .arr ys =>
       (match seqOf P v with
        | some items => .ok (.arr (items ++ ys))
        | none => .error .unmodelled)
     | _ => .error .filter)
  | .size, [] =>
    (match v with
     | .str t => .ok (.num t.chars.length)
     | .arr xs => .ok (.num xs.length)
     | _ => .ok (.num 0))
  | .default, args =>
    (match args with
     | _ :: _ :: _ => .error .filter
     | _ =>
       let d : Val := defaultArg args
       match v with
       | .num _ => .ok v
       | .nil => .ok d
       | .undef => .ok d
       | .bool false => .ok d
       | _ => if isEmptyVal v then .ok d else .ok v)
  | _, _ => .error .filter

/-! ## expressions -/

abbrev Env := List (String × Val)

def lookupEnv (n : String) : Env → Option Val
  | [] => none
  | (k, v) :: r => if k == n then some v else lookupEnv n r

def lookupScopes (n : String) : List Env → Option Val
  | [] => none
  | e :: r => match lookupEnv n e with | some v => some v | none => lookupScopes n r

structure St where
  scopes : List Env            -- pushed namespaces, innermost first
  locals : Env
  globals : Env
  cycles : List (List Val × Nat)
  out : Str

def St.get (st : St) (n : String) : Val :=
  match lookupScopes n st.scopes with
  | some v => v
  | none => match lookupEnv n st.locals with
    | some v => v
    | none => (lookupEnv n st.globals).getD .undef

inductive Arg where
  | lit (s : Str)
  | var (n : String)
  | int (i : Int)
  | nil
  deriving Repr, DecidableEq

/-- `StringLiteral.evaluate`: `Markup(value)` under autoescape -/
def evalArg (auto : Bool) (st : St) : Arg → Val
  | .lit s => .str ⟨s, auto⟩
  | .var n => st.get n
  | .int i => .num i
  | .nil => .nil

structure FCall where
  name : FName
  args : List Arg
  deriving Repr

def applyChain (P : Prims) (auto : Bool) (st : St) : List FCall → Val → R
  | [], v => .ok v
  | f :: fs, v =>
    match applyFilter P auto f.name v (f.args.map (evalArg auto st)) with
    | .ok v' => applyChain P auto st fs v'
    | .error e => .error e

inductive Cond where
  | truthy (a : Arg)
  | eq (a b : Arg)
  | contains (a b : Arg)
  | not (c : Cond)
  | and (c d : Cond)
  | or (c d : Cond)
  deriving Repr

def isTruthy : Val → Bool
  | .nil => false
  | .undef => false
  | .bool false => false
  | _ => true

/-- Liquid `==` on the modelled values (`Markup("a") == "a"`) -/
def valEq : Val → Val → Bool
  | .str a, .str b => a.chars == b.chars
  | .arr a, .arr b => a.map (·.chars) == b.map (·.chars)
  | .num a, .num b => a == b
  | .nil, .nil => true
  | .undef, .undef => true
  | .undef, .nil => true
  | .nil, .undef => true
  | .bool a, .bool b => a == b
  | _, _ => false

def isInfix (p : Str) : Str → Bool
  | [] => p.isEmpty
  | c :: cs => hasPrefix p (c :: cs) || isInfix p cs

/-- `_contains(left, right)` of `liquid/builtin/expressions/logical.py`; `none` = LiquidTypeError -/
def valContains (P : Prims) (l r : Val) : Option Bool :=
  if !isTruthy l || !isTruthy r then some false else
  match l with
  | .str a =>
    (match r with
     | .bool b => some (isInfix (if b then "true".toList else "false".toList) a.chars)
     | _ => some (isInfix (argS P r).chars a.chars))
  | .arr xs => some (xs.any fun x => valEq (.str x) r)
  | _ => none

def evalCond (P : Prims) (auto : Bool) (st : St) : Cond → Except Err Bool
  | .truthy a => .ok (isTruthy (evalArg auto st a))
  | .eq a b => .ok (valEq (evalArg auto st a) (evalArg auto st b))
  | .contains a b =>
    (match valContains P (evalArg auto st a) (evalArg auto st b) with
     | some b => .ok b
     | none => .error .filter)
  | .not c => (match evalCond P auto st c with | .ok b => .ok (!b) | .error e => .error e)
  | .and c d =>
    -- `and`/`or` short-circuit on the left operand
    (match evalCond P auto st c with
     | .ok true => evalCond P auto st d
     | .ok false => .ok false
     | .error e => .error e)
  | .or c d =>
    (match evalCond P auto st c with
     | .ok true => .ok true
     | .ok false => evalCond P auto st d
     | .error e => .error e)

inductive Expr where
  | chain (head : Arg) (fs : List FCall)
  /-- `head | fs if cond else alt | altfs || tail` -/
  | ternary (head : Arg) (fs : List FCall) (cond : Cond) (alt : Option (Arg × List FCall)) (tail : List FCall)
  deriving Repr

def evalExpr (P : Prims) (auto : Bool) (st : St) : Expr → R
  | .chain h fs => applyChain P auto st fs (evalArg auto st h)
  | .ternary h fs c alt tail =>
    let rv : R :=
      match evalCond P auto st c with
      | .error e => .error e
      | .ok true => applyChain P auto st fs (evalArg auto st h)
      | .ok false =>
        match alt with
        | some (a, afs) => applyChain P auto st afs (evalArg auto st a)
        | none => .ok .nil
    match rv with
    | .ok v => applyChain P auto st tail v
    | .error e => .error e

/-! ## tags -/

inductive Piece where
  | text (s : Str)
  | var (n : String)
  deriving Repr

inductive Node where
  /-- template literal text -/
  | text (s : Str)
  /-- `{{ e }}` / `{% echo e %}` -/
  | output (e : Expr)
  | assign (name : String) (e : Expr)
  | capture (name : String) (body : List Node)
  /-- `{% cycle a, b, c %}` (no group name) -/
  | cycle (args : List Arg)
  | for_ (var : String) (iter : Expr) (body : List Node) (dflt : List Node)
  | if_ (c : Cond) (thn : List Node) (els : List Node)
  /-- `{% include 'name', k: v … %}` with the partial's nodes inlined -/
  | include (args : List (String × Arg)) (body : List Node)
  /-- `{% render 'name', k: v … %}` with the partial's nodes inlined -/
  | render (args : List (String × Arg)) (body : List Node)
  /-- `{% translate k: v … %}message{% endtranslate %}` (singular form, null translations) -/
  | translate (args : List (String × Expr)) (msg : List Piece)

def setEnv (n : String) (v : Val) : Env → Env
  | [] => [(n, v)]
  | (k, w) :: r => if k == n then (n, v) :: r else (k, w) :: setEnv n v r

def St.assign (st : St) (n : String) (v : Val) : St := { st with locals := setEnv n v st.locals }
def St.write (st : St) (s : Str) : St := { st with out := st.out ++ s }

/-- `context.cycle(key, length)` -/
def cycleStep (key : List Val) (len : Nat) : List (List Val × Nat) → Nat × List (List Val × Nat)
  | [] => (0, [(key, 1 % (if len == 0 then 1 else len))])
  | (k, i) :: r =>
    if k = key then (i, (k, (i + 1) % (if len == 0 then 1 else len)) :: r)
    else let (j, r') := cycleStep key len r; (j, (k, i) :: r')

/-- the cycle key is `str(args)`: an undefined variable prints with its name, so two different undefined names are two keys -/
def cycleKeyVal (auto : Bool) (st : St) (a : Arg) : Val :=
  match evalArg auto st a, a with
  | .undef, .var n => .other n.toList
  | .str s, _ => .str ⟨s.chars, false⟩      -- `_args_key`: a `Markup` item counts as the equal `str` (fix2-C05)
  | v, _ => v

/-- items a `for` loop visits: a string is a one-item sequence unless empty -/
def loopItems : Val → List Val
  | .arr xs => xs.map .str
  | .str s => if s.chars.isEmpty then [] else [.str s]
  | _ => []

def evalKw (P : Prims) (auto : Bool) (st : St) : List (String × Expr) → Except Err Env
  | [] => .ok []
  | (k, e) :: r =>
    match evalExpr P auto st e with
    | .error err => .error err
    | .ok v => match evalKw P auto st r with
      | .error err => .error err
      | .ok env => .ok ((k, v) :: env)

/-- `message_text % {k: to_liquid_string(resolve(k))}` on a `Markup` message -/
def fmtMsg (auto : Bool) (st : St) : List Piece → Str
  | [] => []
  | .text s :: r => s ++ fmtMsg auto st r
  | .var n :: r => outVal auto (st.get n) ++ fmtMsg auto st r

mutual
def renderNode (P : Prims) (auto : Bool) : Node → St → Except Err St
  | .text s, st => .ok (st.write s)
  | .output e, st =>
    (match evalExpr P auto st e with
     | .ok v => .ok (st.write (outVal auto v))
     | .error err => .error err)
  | .assign n e, st =>
    (match evalExpr P auto st e with
     | .ok v => .ok (st.assign n v)
     | .error err => .error err)
  | .capture n body, st =>
    (match renderNodes P auto body { st with out := [] } with
     | .ok st' => .ok ({ st' with out := st.out }.assign n (.str ⟨st'.out, auto⟩))
     | .error err => .error err)
  | .cycle args, st =>
    let vals := args.map (evalArg auto st)
    let (i, cyc) := cycleStep (args.map (cycleKeyVal auto st)) vals.length st.cycles
    .ok ({ st with cycles := cyc }.write (outVal auto (vals.getD i .nil)))
  | .for_ x it body dflt, st =>
    (match evalExpr P auto st it with
     | .error err => .error err
     | .ok v =>
       match loopItems v with
       | [] => renderNodes P auto dflt st
       | items => renderLoop P auto x body items st)
  | .if_ c thn els, st =>
    (match evalCond P auto st c with
     | .ok true => renderNodes P auto thn st
     | .ok false => renderNodes P auto els st
     | .error err => .error err)
  | .include args body, st =>
    let ns : Env := args.map fun (k, a) => (k, evalArg auto st a)
    (match renderNodes P auto body { st with scopes := ns :: st.scopes } with
     | .ok st' => .ok { st' with scopes := st.scopes }
     | .error err => .error err)
  | .render args body, st =>
    let ns : Env := args.map fun (k, a) => (k, evalArg auto st a)
    -- `context.copy(namespace)`: a fresh context whose globals are `ChainMap(namespace, self.globals)`
    (match renderNodes P auto body { scopes := [], locals := [], globals := ns ++ st.globals, cycles := [], out := st.out } with
     | .ok st' => .ok { st with out := st'.out }
     | .error err => .error err)
  | .translate args msg, st =>
    (match evalKw P auto st args with
     | .error err => .error err
     | .ok ns => .ok (st.write (fmtMsg auto { st with scopes := ns :: st.scopes } msg)))
termination_by n => (sizeOf n, 0)
decreasing_by all_goals (simp_wf; simp only [Prod.lex_def]; omega)

def renderNodes (P : Prims) (auto : Bool) : List Node → St → Except Err St
  | [], st => .ok st
  | n :: ns, st =>
    match renderNode P auto n st with
    | .ok st' => renderNodes P auto ns st'
    | .error err => .error err
termination_by ns => (sizeOf ns, 0)
decreasing_by all_goals (simp_wf; simp only [Prod.lex_def]; omega)

/-- one pass of the body per item, the loop variable in a pushed namespace -/
def renderLoop (P : Prims) (auto : Bool) (x : String) (body : List Node) : List Val → St → Except Err St
  | [], st => .ok st
  | it :: rest, st =>
    match renderNodes P auto body { st with scopes := [(x, it)] :: st.scopes } with
    | .ok st' => renderLoop P auto x body rest { st' with scopes := st.scopes }
    | .error err => .error err
termination_by items => (sizeOf body, items.length + 1)
decreasing_by all_goals (simp_wf; simp only [Prod.lex_def, true_and]; omega)
end

/-- `BoundTemplate.render(**data)`: the render data are the context's globals -/
def render (P : Prims) (auto : Bool) (t : List Node) (data : Env) : Except Err Str :=
  match renderNodes P auto t { scopes := [], locals := [], globals := data, cycles := [], out := [] } with
  | .ok st => .ok st.out
  | .error e => .error e

/-! ## the hypotheses of the property on a template: literal text and string literals free of raw specials, no `safe`
filter and no HTML-generating filter -/

def Arg.ok : Arg → Bool
  | .lit s => isClean s
  | _ => true

def FName.allowed (f : FName) : Bool := f != .safe && f != .newline_to_br

def FCall.ok (f : FCall) : Bool := f.name.allowed && f.args.all Arg.ok

def Cond.ok : Cond → Bool
  | .truthy a => a.ok
  | .eq a b => a.ok && b.ok
  | .contains a b => a.ok && b.ok
  | .not c => c.ok
  | .and c d => c.ok && d.ok
  | .or c d => c.ok && d.ok

def Expr.ok : Expr → Bool
  | .chain h fs => h.ok && fs.all FCall.ok
  | .ternary h fs c alt tail =>
    h.ok && fs.all FCall.ok && c.ok && (match alt with | some (a, afs) => a.ok && afs.all FCall.ok | none => true)
      && tail.all FCall.ok

def Piece.ok : Piece → Bool
  | .text s => isClean s
  | .var _ => true

mutual
def Node.ok : Node → Bool
  | .text s => isClean s
  | .output e => e.ok
  | .assign _ e => e.ok
  | .capture _ b => nodesOk b
  | .cycle args => args.all Arg.ok
  | .for_ _ it b d => it.ok && nodesOk b && nodesOk d
  | .if_ c t e => c.ok && nodesOk t && nodesOk e
  | .include args b => args.all (fun p => p.2.ok) && nodesOk b
  | .render args b => args.all (fun p => p.2.ok) && nodesOk b
  | .translate args msg => args.all (fun p => p.2.ok) && msg.all Piece.ok
def nodesOk : List Node → Bool
  | [] => true
  | n :: ns => n.ok && nodesOk ns
end

def Arg.okE : Arg → Bool
  | .lit s => (isClean s && isEnt s)
  | _ => true

/-- filters for which "every `&` begins an entity" survives on safe values. The complement is exactly the entity-breaking
`slice split remove remove_first remove_last replace replace_first replace_last upcase` (one counter-example each in
`Props/C05.lean`) plus `safe` and `newline_to_br`, which the property excludes anyway. -/
def FName.entFriendly : FName → Bool
  | .slice | .split | .remove | .remove_first | .remove_last | .replace | .replace_first | .replace_last | .upcase
  | .safe | .newline_to_br => false
  | _ => true

/-- filters admitted by `autoescape_noop_on_clean`. Excluded: those that *observe* an escaped value (measure, cut, search or
replace inside it: `size slice truncate truncatewords split remove* replace*`), those that can *introduce* a special character
(`url_decode base64_decode base64_url_safe_decode newline_to_br`), and `squish` (no proof made). -/
def FName.noopOk : FName → Bool
  | .append | .prepend | .upcase | .downcase | .capitalize | .escape | .escape_once | .lstrip | .rstrip | .strip | .strip_html
  | .strip_newlines | .url_encode | .base64_encode | .base64_url_safe_encode | .safe | .escapejs | .join | .first | .last
  | .reverse | .concat | .default => true
  | _ => false

def FCall.okE (f : FCall) : Bool := f.name.entFriendly && f.args.all Arg.okE

def Cond.okE : Cond → Bool
  | .truthy a => a.okE
  | .eq a b => a.okE && b.okE
  | .contains a b => a.okE && b.okE
  | .not c => c.okE
  | .and c d => c.okE && d.okE
  | .or c d => c.okE && d.okE

def Expr.okE : Expr → Bool
  | .chain h fs => h.okE && fs.all FCall.okE
  | .ternary h fs c alt tail =>
    h.okE && fs.all FCall.okE && c.okE && (match alt with | some (a, afs) => a.okE && afs.all FCall.okE | none => true)
      && tail.all FCall.okE

def Piece.okE : Piece → Bool
  | .text s => (isClean s && isEnt s)
  | .var _ => true

mutual
def Node.okE : Node → Bool
  | .text s => (isClean s && isEnt s)
  | .output e => e.okE
  | .assign _ e => e.okE
  | .capture _ b => nodesOkE b
  | .cycle args => args.all Arg.okE
  | .for_ _ it b d => it.okE && nodesOkE b && nodesOkE d
  | .if_ c t e => c.okE && nodesOkE t && nodesOkE e
  | .include args b => args.all (fun p => p.2.okE) && nodesOkE b
  | .render args b => args.all (fun p => p.2.okE) && nodesOkE b
  | .translate args msg => args.all (fun p => p.2.okE) && msg.all Piece.okE
def nodesOkE : List Node → Bool
  | [] => true
  | n :: ns => n.okE && nodesOkE ns
end


end LiquidVerif.Taint
