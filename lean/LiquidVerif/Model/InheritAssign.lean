import LiquidVerif.Model.Inherit
/-!
Which scope do `assign` / `capture` inside a block write?  (`liquid/extra/tags/extends_tag.py` + `RenderContext`)

A render context has its own `locals`; `assign`/`capture` write `context.locals` of the context they are rendered
in.  `BlockNode.render_to_output` (stack path) renders the most-derived definition in `context.copy(...,
block_scope=True)`: fresh `locals`, reads fall through to the live scope of the context the block tag was met in.
`BlockDrop.__getitem__("super")` renders the parent definition on `self.context` — the context of the block
tag — through `extend`, not in a copy.  The "rendered directly" path also uses `extend`.

State: the stack of `locals` of the contexts that are alive, innermost first (`frames`); the last one belongs to
the context of the template being rendered.  `inCopy = true` while a most-derived definition runs in its copied
context (then `BlockDrop.context` is the next frame), `false` while running on the drop's own context (super
body, direct path, top level).  Loops, `required` and the depth guard are in `Model/Inherit.lean`; here the depth
guard is kept (it is what makes the function total) and everything else is left out.
-/
namespace LiquidVerif.Inherit

inductive AItem where
  | text (s : String)
  | var (x : String)
  | assign (x : String) (s : String)            -- `{% assign x = 's' %}` / `{% capture x %}s{% endcapture %}`
  | super
  | block (name : String) (body : List AItem)
  deriving Repr

structure ADef where
  body : List AItem
  deriving Repr

abbrev Frames := List (List (String × String))

def lookupFrames (fr : Frames) (globals : Scope) (x : String) : String :=
  match fr with
  | [] => lookupVar globals x
  | f :: r => match lookup f x with
    | some v => v
    | none => lookupFrames r globals x

def assignHead (fr : Frames) (x s : String) : Frames :=
  match fr with
  | [] => [[(x, s)]]
  | f :: r => ((x, s) :: f) :: r

mutual
def arenderItem (lim : Nat) (res : String → List ADef) (globals : Scope) (depth : Nat) (inCopy : Bool)
    (parents : List ADef) (fr : Frames) : AItem → Except Err (String × Frames)
  | .text s => .ok (s, fr)
  | .var x => .ok (lookupFrames fr globals x, fr)
  | .assign x s => .ok ("", assignHead fr x s)
  | .super =>
    match parents with
    | [] => .ok ("", fr)
    | p :: ps =>
      if inCopy then
        match fr with
        | f :: rest =>                                   -- the parent body runs on the block tag's context
          match arenderItems lim res globals depth false ps rest p.body with
          | .error e => .error e
          | .ok (out, rest') => .ok (out, f :: rest')
        | [] => .ok ("", fr)
      else arenderItems lim res globals depth false ps fr p.body
  | .block name body =>
    match res name with
    | d :: ds =>
      if h : depth > lim then .error .contextDepth
      else
        match arenderItems lim res globals (depth + 1) true ds ([] :: fr) d.body with   -- `context.copy`: fresh locals
        | .error e => .error e
        | .ok (out, fr') => .ok (out, fr'.tail)                                          -- the copy is dropped
    | [] => arenderItems lim res globals depth false [] fr body                          -- `context.extend`
termination_by i => (lim + 1 - depth, sizeOf i + sizeOf parents)
decreasing_by
  all_goals simp_wf
  all_goals first
    | (apply Prod.Lex.left; omega)
    | (apply Prod.Lex.right; omega)
    | (apply Prod.Lex.right; simp only [ADef.mk.sizeOf_spec, List.cons.sizeOf_spec, List.nil.sizeOf_spec]; omega)
    | (apply Prod.Lex.right
       cases parents <;> simp only [List.nil.sizeOf_spec, List.cons.sizeOf_spec] <;> omega)
    | (apply Prod.Lex.right
       have hp : sizeOf p.body < sizeOf p := by cases p; simp only [ADef.mk.sizeOf_spec]; omega
       omega)

def arenderItems (lim : Nat) (res : String → List ADef) (globals : Scope) (depth : Nat) (inCopy : Bool)
    (parents : List ADef) (fr : Frames) : List AItem → Except Err (String × Frames)
  | [] => .ok ("", fr)
  | i :: is =>
    match arenderItem lim res globals depth inCopy parents fr i with
    | .error e => .error e
    | .ok (a, fr1) =>
      match arenderItems lim res globals depth inCopy parents fr1 is with
      | .error e => .error e
      | .ok (b, fr2) => .ok (a ++ b, fr2)
termination_by is => (lim + 1 - depth, sizeOf is + sizeOf parents)
decreasing_by
  all_goals simp_wf
  all_goals (apply Prod.Lex.right; omega)
end

mutual
/-- block nodes of a template, document order (`_find_inheritance_nodes`) -/
def ablocksOfItem : AItem → List (String × ADef)
  | .block name body => (name, ⟨body⟩) :: ablocksOfItems body
  | _ => []
def ablocksOfItems : List AItem → List (String × ADef)
  | [] => []
  | i :: is => ablocksOfItem i ++ ablocksOfItems is
end

/-- definitions of `name` along a chain of template bodies, leaf first -/
def adefsOf (chain : List (List AItem)) (name : String) : List ADef :=
  chain.filterMap (fun t => ((ablocksOfItems t).find? (fun b => b.1 == name)).map (·.2))

/-- render the root of a chain (leaf first) with the chain's definitions; result = output and the base
context's locals afterwards.  A chain of one template has no `extends`: it is rendered directly, no stacks. -/
def arenderChain (lim : Nat) (chain : List (List AItem)) (globals : Scope) : Except Err (String × Frames) :=
  arenderItems lim (if chain.length ≤ 1 then fun _ => [] else adefsOf chain) globals 0 false [] [[]]
    (chain.getLast?.getD [])

mutual
/-- no `block.super` outside nested blocks -/
def noTopSuper : AItem → Bool
  | .super => false
  | _ => true
def noTopSupers : List AItem → Bool
  | [] => true
  | i :: is => noTopSuper i && noTopSupers is
end

end LiquidVerif.Inherit
