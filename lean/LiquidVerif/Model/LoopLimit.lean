/-!
Model of the loop-iteration-limit mechanism of python-liquid (property C06), as the code is written
**after** the three `fix:` commits on branch `fix-C06` (tablerow / include-with-array / render-for carry
their length in `loop_iteration_carry` through `RenderContext.loop_carry`).

Anchors (all under `liquid/`):

* `context.py`  `RenderContext.raise_for_loop_limit(length)`:
    `if env.loop_iteration_limit and reduce(mul, (l.length for l in self.loops), length * self.loop_iteration_carry) > limit: raise`
  `RenderContext.loop(namespace, forloop)`: `raise_for_loop_limit(forloop.length)`; `loops.append`; `extend`; body; `loops.pop`
  `RenderContext.extend`: `if scope.size() > context_depth_limit: raise ContextDepthError`; push; body; pop
  `RenderContext.copy(carry_loop_iterations=True)`: `if _copy_depth > context_depth_limit: raise ContextDepthError`;
    new context with `loop_iteration_carry = reduce(mul, loops, self.loop_iteration_carry)`, empty loop stack,
    `_copy_depth + 1`, a fresh 4-map scope, fresh `tag_namespace` (so no macros), the given `disabled_tags`
  `RenderContext.loop_carry(length)` (added by the fix): `carry *= length` for the duration of the `with` block
* `builtin/tags/for_tag.py`  `ForNode.render_to_output`: `if length:` loop via `context.loop` `else:` default block
* `builtin/tags/tablerow_tag.py` `TablerowNode.render_to_output`: `raise_for_loop_limit(length)`; `extend`; `loop_carry(length)`; rows
* `builtin/tags/include_tag.py` `IncludeNode.render_to_output`: (disabled-tag check in `Node.render`); `get_template`;
    `extend(namespace, template)`; bound array-like value (`for` **or** `with`): `raise_for_loop_limit(len)`; `loop_carry(len)`;
    once per item `template.render_with_context(context, partial=True)` (which `extend`s again); otherwise once
* `builtin/tags/render_tag.py` `RenderNode.render_to_output`: `get_template`; `context.copy(disabled_tags=["include"],
    carry_loop_iterations=True)`; with `for` and an array-like value: `ctx.raise_for_loop_limit(len)`; `ctx.loop_carry(len)`;
    once per item `template.render_with_context(ctx, partial=True, block_scope=True)`; otherwise once. The same `ctx`
    (hence the same macro table) is reused for every item and discarded afterwards.
* `extra/tags/macro_tag.py` `MacroNode`: `context.tag_namespace["macros"][name] = Macro(...)`;
    `CallNode`: undefined macro → writes the undefined (nothing executes); else
    `context.copy(disabled_tags=["include","block"], carry_loop_iterations=True)` and `macro.block.render(macro_context)`
    (no `render_with_context`, hence no `extend`).
* `template.py` `BoundTemplate.render`: new context (scope of 4 maps, carry 1, depth 0), `render_with_context` (`extend`).

Everything that does not touch the loop stack, the carry, the two depth counters, the macro table or the
`include`-disabled flag is abstracted: expressions are already evaluated (a loop node carries the *length* of
its iterable, an `if`-like block carries whether its block is taken), output is reduced to the sequence of
block executions. STRICT mode (the default): the first error aborts the render.

**Ghost state.** `Cx.ghost` is the list of the true lengths of *all* enclosing repeating constructs, outermost first,
across partial templates and macro calls. It is written only into the emitted events, never read by any test of the
model (`LiquidVerif.C06.ghost_erasure`).
-/
namespace LiquidVerif.LoopLimit

inductive Node where
  /-- a piece of literal text / output statement with a label: one block execution per rendering -/
  | mark (id : Nat)
  /-- `if`/`unless`/`case`/`capture`…: renders its block at most once; `taken` = the evaluated condition -/
  | blk (taken : Bool) (body : List Node)
  /-- `{% for %}` over an iterable of (post limit/offset) length `n`, with an `else` block -/
  | forn (id : Nat) (n : Nat) (body : List Node) (dflt : List Node)
  /-- `{% tablerow %}` over an iterable of length `n` -/
  | tablerow (id : Nat) (n : Nat) (body : List Node)
  /-- `{% include name [for|with value] %}`; `bound = some n` when the bound value is array-like of length `n` -/
  | include (site : Nat) (name : String) (bound : Option Nat)
  /-- `{% render name [for value] %}`; `loop = some n` when `for` is used and the value is array-like of length `n`
      (`with`, or a non-array value, renders once: `none`) -/
  | render (site : Nat) (name : String) (loop : Option Nat)
  /-- `{% macro name %}body{% endmacro %}` -/
  | macro (name : String) (body : List Node)
  /-- `{% call name %}` -/
  | call (name : String)

abbrev Tpls := List (String × List Node)

def lookup (ts : Tpls) (n : String) : Option (List Node) :=
  match ts with
  | [] => none
  | (k, v) :: r => if k == n then some v else lookup r n

inductive Err where
  | loopLimit      -- LoopIterationLimitError
  | contextDepth   -- ContextDepthError
  | notFound       -- TemplateNotFoundError
  | disabledTag    -- DisabledTagError
  deriving Repr, DecidableEq

/-- One block execution: which block, and the true lengths of every enclosing repeating construct (ghost). -/
structure Ev where
  id : Nat
  enclosing : List Nat
  deriving Repr, DecidableEq

/-- `Environment` attributes the mechanism reads, plus the loader's templates. -/
structure Env where
  limit : Option Nat      -- loop_iteration_limit  (None, or an int; 0 is falsy = no limit)
  depth : Nat             -- context_depth_limit
  templates : Tpls

/-- The part of a `RenderContext` the mechanism reads. All of it is restored by the context managers on exit,
so it travels downwards only. -/
structure Cx where
  loops : List Nat        -- lengths of `RenderContext.loops`, bottom of the stack first
  carry : Nat             -- loop_iteration_carry
  copyDepth : Nat         -- _copy_depth
  scope : Nat             -- scope.size()
  noInclude : Bool        -- "include" in disabled_tags
  ghost : List Nat        -- GHOST: true lengths of all enclosing repeating constructs

/-- `functools.reduce(operator.mul, xs, init)` -/
def reduceMul (init : Nat) (xs : List Nat) : Nat := xs.foldl (· * ·) init

/-- product of a list of lengths (the empty product is 1) -/
def prod (xs : List Nat) : Nat := reduceMul 1 xs

/-- `raise_for_loop_limit(len)` raises? -/
def overLimit (lim : Option Nat) (c : Cx) (len : Nat) : Bool :=
  match lim with
  | none => false
  | some N => N != 0 && decide (reduceMul (len * c.carry) c.loops > N)

/-- `context.copy(..., carry_loop_iterations=True)` (the depth test is at the call sites) -/
def Cx.copied (c : Cx) : Cx :=
  { loops := [], carry := reduceMul c.carry c.loops, copyDepth := c.copyDepth + 1, scope := 4,
    noInclude := true, ghost := c.ghost }

/-- the macro table `tag_namespace["macros"]` of one context; newest binding first -/
abbrev Macros := List (String × List Node)

abbrev Res := Except Err (Macros × List Ev)

/-- Sequencing in STRICT mode: run `a`; if it raised, the error propagates; otherwise continue with `b` on the macro
table `a` left behind. The block executions are `pre` (the header of this block, if any), then `a`'s, then `b`'s. -/
def seqRes (a : Res) (pre : List Ev) (b : Macros → Res) : Res :=
  match a with
  | .error e => .error e
  | .ok (m1, t1) =>
    match b m1 with
    | .error e => .error e
    | .ok (m2, t2) => .ok (m2, pre ++ t1 ++ t2)

/-- A copied context is thrown away after use: its macro table does not come back; the caller's `m` stays. -/
def discardRes (m : Macros) (a : Res) : Res :=
  match a with
  | .error e => .error e
  | .ok (_, tr) => .ok (m, tr)

mutual
/-- `Node.render(context, buffer)` -/
def render (E : Env) (c : Cx) (m : Macros) : Node → Res
  | .mark id => .ok (m, [⟨id, c.ghost⟩])
  | .blk taken body => if taken then renderList E c m body else .ok (m, [])
  | .forn id n body dflt =>
      if n ≠ 0 then
        -- context.loop: raise_for_loop_limit; loops.append; extend
        if overLimit E.limit c n then .error .loopLimit else
        if _h : c.scope > E.depth then .error .contextDepth else
        iter E { c with loops := c.loops ++ [n], scope := c.scope + 1, ghost := c.ghost ++ [n] } m id body n
      else renderList E c m dflt
  | .tablerow id n body =>
      if overLimit E.limit c n then .error .loopLimit else
      if _h : c.scope > E.depth then .error .contextDepth else
      iter E { c with carry := c.carry * n, scope := c.scope + 1, ghost := c.ghost ++ [n] } m id body n
  | .include site name bound =>
      if c.noInclude then .error .disabledTag else
      match lookup E.templates name with
      | none => .error .notFound
      | some body =>
        if _h : c.scope > E.depth then .error .contextDepth else
        match bound with
        | some n =>
          if overLimit E.limit { c with scope := c.scope + 1 } n then .error .loopLimit else
          iterPartial E { c with scope := c.scope + 1, carry := c.carry * n, ghost := c.ghost ++ [n] } m site body n
        | none => renderPartial E { c with scope := c.scope + 1 } m site body
  | .render site name loop =>
      match lookup E.templates name with
      | none => .error .notFound
      | some body =>
        if _h : c.copyDepth > E.depth then .error .contextDepth else
        match loop with
        | some n =>
          if overLimit E.limit c.copied n then .error .loopLimit else
          discardRes m (iterPartial E { c.copied with carry := c.copied.carry * n, ghost := c.ghost ++ [n] } [] site body n)
        | none => discardRes m (renderPartial E c.copied [] site body)
  | .macro name body => .ok ((name, body) :: m, [])
  | .call name =>
      match lookup m name with
      | none => .ok (m, [])
      | some body =>
        if _h : c.copyDepth > E.depth then .error .contextDepth else
        discardRes m (renderList E c.copied [] body)
termination_by n => (E.depth + 2 - c.copyDepth, E.depth + 2 - c.scope, sizeOf n, 0)
decreasing_by all_goals (simp_wf; simp only [Prod.lex_def, Cx.copied, true_and]; omega)

/-- a block: `for node in nodes: node.render(context, buffer)` -/
def renderList (E : Env) (c : Cx) (m : Macros) : List Node → Res
  | [] => .ok (m, [])
  | n :: ns =>
      seqRes (render E c m n) [] (fun m1 => renderList E c m1 ns)
termination_by ns => (E.depth + 2 - c.copyDepth, E.depth + 2 - c.scope, sizeOf ns, 0)
decreasing_by all_goals (simp_wf; simp only [Prod.lex_def, true_and]; omega)

/-- `k` more iterations of a `for`/`tablerow` body; each iteration is one execution of the block `id` -/
def iter (E : Env) (c : Cx) (m : Macros) (id : Nat) (body : List Node) : Nat → Res
  | 0 => .ok (m, [])
  | k + 1 =>
      seqRes (renderList E c m body) [⟨id, c.ghost⟩] (fun m1 => iter E c m1 id body k)
termination_by k => (E.depth + 2 - c.copyDepth, E.depth + 2 - c.scope, sizeOf body, k + 1)
decreasing_by all_goals (simp_wf; simp only [Prod.lex_def, true_and]; omega)

/-- `template.render_with_context(context, buffer, partial=True)`: `extend`, then the template's nodes -/
def renderPartial (E : Env) (c : Cx) (m : Macros) (site : Nat) (body : List Node) : Res :=
  if _h : c.scope > E.depth then .error .contextDepth else
  seqRes (renderList E { c with scope := c.scope + 1 } m body) [⟨site, c.ghost⟩] (fun m1 => .ok (m1, []))
termination_by (E.depth + 2 - c.copyDepth, E.depth + 2 - c.scope, sizeOf body + 1, 0)
decreasing_by all_goals (simp_wf; simp only [Prod.lex_def, true_and]; omega)

/-- `k` more renderings of a partial template bound to an array -/
def iterPartial (E : Env) (c : Cx) (m : Macros) (site : Nat) (body : List Node) : Nat → Res
  | 0 => .ok (m, [])
  | k + 1 =>
      seqRes (renderPartial E c m site body) [] (fun m1 => iterPartial E c m1 site body k)
termination_by k => (E.depth + 2 - c.copyDepth, E.depth + 2 - c.scope, sizeOf body + 1, k + 1)
decreasing_by all_goals (simp_wf; simp only [Prod.lex_def, true_and]; omega)
end

/-- `BoundTemplate.render()`: a fresh context, then `render_with_context` (not a partial). -/
def renderTemplate (E : Env) (nodes : List Node) : Res :=
  let c : Cx := { loops := [], carry := 1, copyDepth := 0, scope := 4, noInclude := false, ghost := [] }
  if c.scope > E.depth then .error .contextDepth else
  renderList E { c with scope := c.scope + 1 } [] nodes

end LiquidVerif.LoopLimit
