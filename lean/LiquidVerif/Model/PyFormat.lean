/-!
Model of CPython's printf-style `str % mapping` (`PyUnicode_Format`, Objects/unicodeobject.c) as it is
used by `liquid/extra/filters/translate.py` (`BaseTranslateFilter.format_message`) and
`liquid/extra/tags/translate_tag.py` (`TranslateNode._format_message`): the right operand is always a
`dict` whose values are `str`.

Strings are `List Char`.  One conversion specifier is

    %  [(key)]  [flags -+ #0]*  [width | *]  [. [precision | *]]  [h|l|L]  conversion

* `%%` (the second `%` **immediately** after the first) writes `%`.
* `(key)`: parentheses nest; no closing parenthesis → `ValueError`; the key is looked up at once
  (`KeyError`) — before the rest of the specifier is parsed.
* `*` wants an `int` argument; the only arguments available are the mapping and `str` values → `TypeError`.
* the format ends inside a specifier → `ValueError` ("incomplete format").
* a specifier without a key consumes "the next argument": the mapping itself, once; a second one, or one
  after a keyed specifier, is `TypeError` ("not enough arguments").  The argument is fetched *before* the
  conversion character is examined.
* `s` writes `str(arg)` cut to the precision and padded to the width (left aligned with `-`);
  `c` accepts a one-character `str`; `d i u o x X e E f F g G` need a number → `TypeError`;
  `r`/`a` need Python's `repr` and are *not modelled* (`PyExc.unmodelled`; the generators never put `r` or
  `a` after a `%`); anything else is `ValueError` ("unsupported format character").
-/
namespace LiquidVerif.PyFormat

abbrev Str := List Char

inductive PyExc where
  | valueError | typeError | keyError | unmodelled
  deriving Repr, DecidableEq

structure Env where
  /-- `mapping[key]` -/
  lookup : Str → Option Str
  /-- `str(mapping)`: what a specifier without a key prints -/
  selfStr : Str

/-- scan a `(key)` after the opening parenthesis; `d` = number of *additional* open parentheses -/
def parseKey : Nat → Str → Option (Str × Str)
  | _, [] => none
  | d, c :: rest =>
    if c = ')' then
      match d with
      | 0 => some ([], rest)
      | d' + 1 => (parseKey d' rest).map fun p => (c :: p.1, p.2)
    else if c = '(' then (parseKey (d + 1) rest).map fun p => (c :: p.1, p.2)
    else (parseKey d rest).map fun p => (c :: p.1, p.2)

def isFlag (c : Char) : Bool := c == '-' || c == '+' || c == ' ' || c == '#' || c == '0'
def isDigit (c : Char) : Bool := '0'.toNat ≤ c.toNat && c.toNat ≤ '9'.toNat
def isLenMod (c : Char) : Bool := c == 'h' || c == 'l' || c == 'L'
def isNumConv (c : Char) : Bool := "diuoxXeEfFgG".toList.contains c

def digitsVal (ds : Str) : Nat := ds.foldl (fun n c => 10 * n + (c.toNat - '0'.toNat)) 0

/-- cut to the precision, pad to the width -/
def pad (v : Str) (left : Bool) (width : Nat) (prec : Option Nat) : Str :=
  let v := match prec with | some p => v.take p | none => v
  let fill := List.replicate (width - v.length) ' '
  if left then v ++ fill else fill ++ v

/-- the optional `(key)`: the keyed argument (if any) and the rest -/
def keyPart (env : Env) (s : Str) : Except PyExc (Option Str × Str) :=
  match s with
  | '(' :: t =>
    match parseKey 0 t with
    | none => .error .valueError
    | some (k, r) =>
      match env.lookup k with
      | none => .error .keyError
      | some v => .ok (some v, r)
  | _ => .ok (none, s)

/-- the optional `.precision` -/
def precPart (s : Str) : Except PyExc (Option Nat × Str) :=
  match s with
  | '.' :: t =>
    match t with
    | '*' :: _ => .error .typeError
    | _ => .ok (some (digitsVal (t.takeWhile isDigit)), t.dropWhile isDigit)
  | _ => .ok (none, s)

/-- the optional length modifier -/
def lenPart (s : Str) : Str :=
  match s with
  | c :: t => if isLenMod c then t else s
  | [] => []

/-- the conversion itself; `arg? = none`: the argument is the mapping (available once) -/
def convert (env : Env) (used : Bool) (arg? : Option Str) (left : Bool) (width : Nat) (prec : Option Nat)
    (conv : Char) : Except PyExc Str :=
  match arg? with
  | some v =>
    -- the argument is a `str`
    if conv = 's' then .ok (pad v left width prec)
    else if conv = 'r' || conv = 'a' then .error .unmodelled
    else if conv = 'c' then (if v.length = 1 then .ok (pad v left width none) else .error .typeError)
    else if isNumConv conv then .error .typeError
    else .error .valueError
  | none =>
    if used then .error .typeError
    else if conv = 's' then .ok (pad env.selfStr left width prec)
    else if conv = 'r' || conv = 'a' then .error .unmodelled
    else if conv = 'c' then .error .typeError
    else if isNumConv conv then .error .typeError
    else .error .valueError

/-- One conversion specifier proper: `s` is what follows a `%` that is not followed by `%`.
Returns the text written, the new "an argument was consumed" flag and the rest of the format. -/
def directiveCore (env : Env) (used : Bool) (s : Str) : Except PyExc (Str × Bool × Str) :=
  match keyPart env s with
  | .error e => .error e
  | .ok (arg?, s1) =>
    let left := (s1.takeWhile isFlag).contains '-'
    let s2 := s1.dropWhile isFlag
    match s2 with
    | [] => .error .valueError
    | c :: _ =>
      if c = '*' then .error .typeError
      else
        match precPart (s2.dropWhile isDigit) with
        | .error e => .error e
        | .ok (prec, s4) =>
          match lenPart s4 with
          | [] => .error .valueError
          | conv :: r =>
            match convert env used arg? left (digitsVal (s2.takeWhile isDigit)) prec conv with
            | .error e => .error e
            | .ok out => .ok (out, true, r)

theorem parseKey_length : ∀ (d : Nat) (s k r : Str), parseKey d s = some (k, r) → r.length < s.length := by
  intro d s
  induction s generalizing d with
  | nil => intro k r h; simp [parseKey] at h
  | cons c rest ih =>
    intro k r h
    unfold parseKey at h
    split at h
    · cases d with
      | zero => simp at h; obtain ⟨_, rfl⟩ := h; simp
      | succ d' =>
        simp only [Option.map_eq_some_iff] at h
        obtain ⟨p, hp, he⟩ := h
        have := ih d' p.1 p.2 hp
        simp only [Prod.mk.injEq] at he
        obtain ⟨_, rfl⟩ := he
        simp only [List.length_cons]; omega
    · split at h
      all_goals
        simp only [Option.map_eq_some_iff] at h
        obtain ⟨p, hp, he⟩ := h
        have := ih _ p.1 p.2 hp
        simp only [Prod.mk.injEq] at he
        obtain ⟨_, rfl⟩ := he
        simp only [List.length_cons]; omega

theorem length_dropWhile_le (p : Char → Bool) (s : Str) : (s.dropWhile p).length ≤ s.length := by
  induction s with
  | nil => simp
  | cons c r ih => simp only [List.dropWhile_cons]; split <;> simp <;> omega

theorem keyPart_length (env : Env) (s : Str) (a : Option Str) (r : Str) (h : keyPart env s = .ok (a, r)) :
    r.length ≤ s.length := by
  unfold keyPart at h
  split at h
  · rename_i t
    cases hp : parseKey 0 t with
    | none => simp [hp] at h
    | some p =>
      obtain ⟨k, r'⟩ := p
      simp only [hp] at h
      cases hl : env.lookup k with
      | none => simp [hl] at h
      | some v =>
        simp only [hl, Except.ok.injEq, Prod.mk.injEq] at h
        obtain ⟨_, rfl⟩ := h
        have := parseKey_length 0 t k r' hp
        simp only [List.length_cons]; omega
  · simp only [Except.ok.injEq, Prod.mk.injEq] at h
    obtain ⟨_, rfl⟩ := h; exact Nat.le_refl _

theorem precPart_length (s : Str) (p : Option Nat) (r : Str) (h : precPart s = .ok (p, r)) :
    r.length ≤ s.length := by
  unfold precPart at h
  split at h
  · rename_i t
    split at h
    · cases h
    · simp only [Except.ok.injEq, Prod.mk.injEq] at h
      obtain ⟨_, rfl⟩ := h
      have := length_dropWhile_le isDigit t
      simp only [List.length_cons]; omega
  · simp only [Except.ok.injEq, Prod.mk.injEq] at h
    obtain ⟨_, rfl⟩ := h; exact Nat.le_refl _

theorem lenPart_length (s : Str) : (lenPart s).length ≤ s.length := by
  unfold lenPart
  split
  · split <;> simp
  · simp

theorem directiveCore_length (env : Env) (used : Bool) (s out r : Str) (u : Bool)
    (h : directiveCore env used s = .ok (out, u, r)) : r.length < s.length := by
  unfold directiveCore at h
  cases hk : keyPart env s with
  | error e => simp [hk] at h
  | ok p =>
    obtain ⟨arg?, s1⟩ := p
    have h1 := keyPart_length env s arg? s1 hk
    have h2 := length_dropWhile_le isFlag s1
    simp only [hk] at h
    generalize s1.dropWhile isFlag = s2 at h h2
    cases s2 with
    | nil => simp at h
    | cons c t =>
      simp only at h
      split at h
      · cases h
      · have h3 := length_dropWhile_le isDigit (c :: t)
        generalize (c :: t).dropWhile isDigit = s3 at h h3
        cases hp : precPart s3 with
        | error e => simp [hp] at h
        | ok q =>
          obtain ⟨prec, s4⟩ := q
          have h4 := precPart_length s3 prec s4 hp
          have h5 := lenPart_length s4
          simp only [hp] at h
          generalize lenPart s4 = s5 at h h5
          cases s5 with
          | nil => simp at h
          | cons conv r5 =>
            simp only at h
            split at h
            · cases h
            · simp only [Except.ok.injEq, Prod.mk.injEq] at h
              obtain ⟨_, _, rfl⟩ := h
              simp only [List.length_cons] at h5 h3 h2
              omega

/-- What follows a `%`: nothing (`ValueError`), a second `%` (writes `%`), or a conversion specifier. -/
def directive (env : Env) (used : Bool) (s : Str) : Except PyExc (Str × Bool × Str) :=
  match s with
  | [] => .error .valueError
  | c :: r => if c = '%' then .ok (['%'], used, r) else directiveCore env used s

theorem directive_length (env : Env) (used : Bool) (s out r : Str) (u : Bool)
    (h : directive env used s = .ok (out, u, r)) : r.length < s.length := by
  unfold directive at h
  split at h
  · cases h
  · split at h
    · simp only [Except.ok.injEq, Prod.mk.injEq] at h
      obtain ⟨_, _, rfl⟩ := h; simp
    · exact directiveCore_length env used _ out r u h

/-- `fmt % mapping`: `used` = an argument has been consumed already. -/
def formatAux (env : Env) (used : Bool) (s : Str) : Except PyExc Str :=
  match s with
  | [] => .ok []
  | c :: rest =>
    if c = '%' then
      match h : directive env used rest with
      | .error e => .error e
      | .ok (out, used', r3) => (formatAux env used' r3).map (out ++ ·)
    else (formatAux env used rest).map (c :: ·)
termination_by s.length
decreasing_by
  · have := directive_length env used _ out r3 used' h
    simp only [List.length_cons]; omega
  · simp only [List.length_cons]; omega

def format (env : Env) (s : Str) : Except PyExc Str := formatAux env false s

end LiquidVerif.PyFormat
