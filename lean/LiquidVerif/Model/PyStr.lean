/-!
Python `str` primitives used by the filter models (ASCII fragment): `str.isspace`, `upper`, `lower`,
`capitalize`, `strip/lstrip/rstrip`, `split(None)`, `split(sep)`, `join`, `int(str)` syntax; and the two
text helpers of `liquid/utils/text.py` / `string.py` (`truncate_chars`, the body of `truncatewords`).
A Python `str` is a `List Char` (code points); whitespace = code points 9..13, 28..31, 32.
-/
namespace LiquidVerif.Filters

abbrev Str := List Char

/-! ## ASCII character classes and case mapping (`str.upper`, `str.lower`, `str.isspace`) -/

def isSpace (c : Char) : Bool :=
  let n := c.toNat
  n == 32 || (9 ≤ n && n ≤ 13) || (28 ≤ n && n ≤ 31)

def isLowerC (c : Char) : Bool := 97 ≤ c.toNat && c.toNat ≤ 122
def isUpperC (c : Char) : Bool := 65 ≤ c.toNat && c.toNat ≤ 90

def upperC (c : Char) : Char := if isLowerC c then Char.ofNat (c.toNat - 32) else c
def lowerC (c : Char) : Char := if isUpperC c then Char.ofNat (c.toNat + 32) else c

def upcase (s : Str) : Str := s.map upperC
def downcase (s : Str) : Str := s.map lowerC

/-- `str.capitalize`: first character upper-cased, the rest lower-cased -/
def capitalize : Str → Str
  | [] => []
  | c :: cs => upperC c :: cs.map lowerC

def lstrip : Str → Str
  | [] => []
  | c :: cs => if isSpace c then lstrip cs else c :: cs

def rstrip (s : Str) : Str := (lstrip s.reverse).reverse

/-- `str.strip()` : CPython strips the left end, then the right end -/
def strip (s : Str) : Str := rstrip (lstrip s)

/-! ## `str.split(None)`, `str.split(sep)`, `sep.join` -/

/-- `str.split()` with no separator: maximal runs of non-whitespace. `cur` is the word being read, reversed. -/
def splitWsAux : Str → Str → List Str
  | [], cur => if cur.isEmpty then [] else [cur.reverse]
  | c :: cs, cur =>
    if isSpace c then
      (if cur.isEmpty then splitWsAux cs [] else cur.reverse :: splitWsAux cs [])
    else splitWsAux cs (c :: cur)

def splitWs (s : Str) : List Str := splitWsAux s []

/-- `isPrefixOf` on code-point lists (boolean, structural) -/
def hasPrefix : Str → Str → Bool
  | [], _ => true
  | _ :: _, [] => false
  | p :: ps, c :: cs => p == c && hasPrefix ps cs

/-- `str.split(sep)` for a non-empty `sep`: left-to-right, non-overlapping. `skip` counts the characters of
a matched separator still to be dropped, `cur` is the piece being read, reversed. -/
def splitOnAux (sep : Str) : Nat → Str → Str → List Str
  | _, [], cur => [cur.reverse]
  | skip + 1, _ :: cs, cur => splitOnAux sep skip cs cur
  | 0, c :: cs, cur =>
    if hasPrefix sep (c :: cs) then cur.reverse :: splitOnAux sep (sep.length - 1) cs []
    else splitOnAux sep 0 cs (c :: cur)

def splitOn (sep s : Str) : List Str := splitOnAux sep 0 s []

/-- `sep.join(items)` -/
def joinStr (sep : Str) : List Str → Str
  | [] => []
  | [x] => x
  | x :: y :: r => x ++ sep ++ joinStr sep (y :: r)

/-! ## `truncate_chars` (liquid/utils/text.py) and `truncatewords` -/

/-- `truncate_chars(val, num, end)`:
```
if val_length <= num: return val
return f"{val[:max(num - end_length, 0)]}{end}"
``` -/
def truncateChars (val : Str) (num : Int) (e : Str) : Str :=
  if (val.length : Int) ≤ num then val
  else val.take (max (num - (e.length : Int)) 0).toNat ++ e

def MAX_TRUNC_WORDS : Int := 2147483647

/-- body of `truncatewords` after argument conversion -/
def truncateWords (val : Str) (num : Int) (e : Str) : Str :=
  let num := if num ≤ 0 then 1 else num
  let words := splitWs val
  if num ≥ MAX_TRUNC_WORDS then val
  else if (words.length : Int) < num then joinStr [' '] words
  else joinStr [' '] (words.take num.toNat) ++ e

/-! ## Python `int(str)` (ASCII fragment) and `to_int` -/

def digitVal (c : Char) : Option Nat :=
  if 48 ≤ c.toNat && c.toNat ≤ 57 then some (c.toNat - 48) else none

/-- `digit (_? digit)*` → value.  `prev` = the previous character was a digit. -/
def parseDigitsUS : Nat → Bool → Str → Option Nat
  | acc, prev, [] => if prev then some acc else none
  | acc, prev, c :: cs =>
    match digitVal c with
    | some d => parseDigitsUS (acc * 10 + d) true cs
    | none => if c == '_' && prev then parseDigitsUS acc false cs else none

def parseIntStr (s : Str) : Option Int :=
  match strip s with
  | '-' :: r => (parseDigitsUS 0 false r).map fun n => -(n : Int)
  | '+' :: r => (parseDigitsUS 0 false r).map fun n => (n : Int)
  | r => (parseDigitsUS 0 false r).map fun n => (n : Int)

end LiquidVerif.Filters
