/-!
Model of the tolerance-mode machinery of python-liquid (property C03).

Mirrors, as written:

* `Environment.error` / `RenderContext.error` (`liquid/environment.py`, `liquid/context.py`):
  `if mode == STRICT: raise exc` ; `if mode == WARN: warnings.warn(str(exc), category=lookup_warning(cls))` ;
  otherwise nothing.                                                         → `Cfg.error`
* `exceptions.lookup_warning` = `WARNINGS.get(cls, LiquidWarning)` (exact class lookup) → `lookupWarning`
* the strict-only raise guards of the expression parsers (`if env.mode == Mode.STRICT and c: raise`)
                                                                             → `PBeh`
* `Parser._parse`, `Parser.parse_block` (block-depth accounting included), `eat_block`
  (`liquid/parser.py`)                                                       → `loopFrom`, `parseBlock`, `eatBlock`
* `Tag.get_node` (`liquid/tag.py`)                                           → `getNode`
* `Content.parse`, `Output.parse`, `Illegal.parse`, the non-block tags (`assign`, `echo`, … : `eat(TAG)`,
  `into_inner(eat=False)`), `break`/`continue`, `for` (`ForTag.parse`), `capture`, `if`/`unless`
  (`IfTag.parse`/`UnlessTag.parse` with the elsif recovery, the superfluous `else` expression and the
  skipping of extraneous blocks)                                             → `parse*`
* `BoundTemplate.render_with_context` (interrupt / `StopRender` / `LiquidError` arms), `BlockNode`,
  `IfNode`/`UnlessNode`, `ForNode`, `CaptureNode`, include/render/extends calling
  `render_with_context` again                                                → `templateLoop`, `renderNode`, …

The token stream is the flat stream the lexer produces (`TAG`, `EXPRESSION`, `OUTPUT`, `CONTENT`).
An `EXPRESSION` token carries (i) how its own parser behaves (`PBeh`: fine / raises in every mode / raises only
behind a strict guard) and (ii) an arbitrary mode-independent evaluation function over an arbitrary state type `σ`.
Positions are cursor advances (`Nat`) relative to the list a function is given; `next(stream)` at EOF does not move.

Recursion: the token loops recurse structurally on the token list (a nested call reports how far it moved the
cursor and the loop skips that many tokens); nesting recurses on the remaining *block nesting budget*
(`block_nesting_limit − depth`, the resource `parse_block` itself checks) and partial templates on the remaining
*context depth budget* — both are resources of the modelled code, not artificial fuel.
No Mathlib.
-/
namespace LiquidVerif.Mode

inductive Mode where
  | lax | warn | strict
  deriving DecidableEq, Repr

/-- an exception *class* (name) — messages are below the abstraction -/
abbrev Err := String

def synErr : Err := "LiquidSyntaxError"
def nestErr : Err := "BlockNestingError"
def depthErr : Err := "ContextDepthError"
def notFoundErr : Err := "TemplateNotFoundError"

/-- What has been reported so far. `suppressed` is a ghost: every exception handed to `error` that was not raised. -/
structure Log where
  suppressed : List Err := []
  warnings : List String := []
  deriving DecidableEq, Repr

inductive TagKind where
  | eval (nilAtEof : Bool)       -- non-block tag with a required expression: assign, cycle, increment, decrement (false);
                                 -- echo (true: `{% echo %}` as the very last token is `Nil`)
  | interrupt (brk : Bool)       -- break / continue
  | partial_ (isolated : Bool)   -- include (false) / render (true)
  | extends_                     -- extends
  | loop (endName : String)      -- for … [else] … endfor
  | capture (endName : String)   -- capture … endcapture
  | cond (endName : String) (negate : Bool)   -- if / unless
  | case_ (endName : String)     -- case … when … else … endcase
  | scoped (endName : String)    -- with (extra), tablerow: `eat(TAG)`, `into_inner`, `parse_block((end,))`, `expect end`
  | plain (endName : String)     -- ifchanged: `eat(TAG)`, `parse_block((end,))`, `expect end` (no expression)
  | unknown                      -- not registered: `tags.get(name, illegal)`
  deriving DecidableEq, Repr

def TagKind.isBlock : TagKind → Bool
  | .loop _ | .capture _ | .cond _ _ | .case_ _ | .scoped _ | .plain _ => true
  | _ => false

def TagKind.endName : TagKind → String
  | .loop e | .capture e | .cond e _ | .case_ e | .scoped e | .plain e => e
  | _ => ""

/-- how the parser of one expression token behaves -/
inductive PBeh where
  | ok
  | err (e : Err)                               -- raises in every mode
  | strictOnly (e : Err) (lax : Option Err)     -- a strict-only guard fires first; other modes go on (and may fail later)
  deriving DecidableEq, Repr

def PBeh.parse (m : Mode) : PBeh → Option Err
  | .ok => none
  | .err e => some e
  | .strictOnly e l => if m = .strict then some e else l

/-- a value as far as the frame needs it: its rendering and its magnitude (truthiness / length) -/
structure Val where
  str : String
  num : Nat
  deriving DecidableEq, Repr

structure Expr (σ : Type) where
  beh : PBeh
  eval : σ → σ × Except Err Val

inductive Tok (σ : Type) where
  | content (text : String)
  | output
  | expr (e : Expr σ)
  | tag (name : String)

inductive Node (σ : Type) where
  | text (s : String)
  | eval (e : Expr σ)                    -- output statement, echo, assign, …
  | illegal
  | interrupt (brk : Bool)
  | partial_ (isolated : Bool) (e : Expr σ)
  | extends_ (e : Expr σ)
  | cond (negate : Bool) (c : Expr σ) (cons : List (Node σ)) (alts : List (Node σ)) (dflt : List (Node σ))
  | condBlock (e : Expr σ) (body : List (Node σ))
  | loop (e : Expr σ) (body : List (Node σ)) (dflt : List (Node σ))
  | capture (e : Expr σ) (body : List (Node σ))
  | case_ (e : Expr σ) (blocks : List (Node σ))          -- CaseNode: `whenBlock`s and `elseBlock`s in source order
  | whenBlock (e : Expr σ) (body : List (Node σ))        -- MultiExpressionBlockNode (`e` evaluates to the number of matches)
  | elseBlock (body : List (Node σ))
  | scoped (e : Expr σ) (body : List (Node σ))           -- WithNode / TablerowNode as far as the frame goes
  | block (body : List (Node σ))                         -- IfchangedNode as far as the frame goes

structure Cfg (σ : Type) where
  mode : Mode
  warnTable : List (String × String)      -- exceptions.WARNINGS
  syntaxClasses : List String             -- LiquidSyntaxError and its subclasses
  tags : String → TagKind                 -- the tag registry
  nestLimit : Nat                         -- Environment.block_nesting_limit
  depthLimit : Nat                        -- budget of nested render_with_context calls
  loader : String → Option (List (Tok σ)) -- template sources by name

def lookupWarning (tbl : List (String × String)) (e : Err) : String :=
  match tbl.lookup e with
  | some w => w
  | none => "LiquidWarning"

/-- `Environment.error` -/
def Cfg.error {σ} (c : Cfg σ) (log : Log) (e : Err) : Except Err Log :=
  if c.mode = .strict then .error e
  else if c.mode = .warn then
    .ok { suppressed := log.suppressed ++ [e], warnings := log.warnings ++ [lookupWarning c.warnTable e] }
  else .ok { log with suppressed := log.suppressed ++ [e] }

/-! ## Parsing -/

/-- parser state besides the cursor: the log and the block depth that leaked from raising `parse_block`s -/
structure PS where
  log : Log
  leak : Nat
  deriving DecidableEq, Repr

/-- result of a `Tag.parse`-like call: outcome, cursor advance, state -/
structure R (α : Type) where
  res : Except Err α
  adv : Nat
  ps : PS

abbrev ParseBlockFn (σ : Type) := List String → List (Tok σ) → PS → R (List (Node σ))
abbrev GetNodeFn (σ : Type) := List (Tok σ) → PS → Except Err (Node σ × Nat × PS)

def isTag {σ} (t : Option (Tok σ)) (name : String) : Bool :=
  match t with
  | some (.tag n) => n == name
  | _ => false

def isTagIn {σ} (t : Tok σ) (ends : List String) : Bool :=
  match t with
  | .tag n => ends.contains n
  | _ => false

/-- `eat_block`: how far the cursor moves until it rests on a tag in `ends` (or EOF) -/
def eatBlock {σ} (ends : List String) : List (Tok σ) → Nat
  | [] => 0
  | t :: rest => if isTagIn t ends then 0 else eatBlock ends rest + 1

/-- `stream.into_inner(tag=…, eat=…)` followed by the expression's own parser.
    Returns the outcome and whether the cursor moved past the expression token. -/
def intoInner {σ} (cfg : Cfg σ) (eat : Bool) (ts : List (Tok σ)) : Except Err (Expr σ) × Nat :=
  match ts with
  | .expr e :: _ =>
    match e.beh.parse cfg.mode with
    | some err => (.error err, if eat then 1 else 0)
    | none => (.ok e, if eat then 1 else 0)
  | _ => (.error synErr, 0)

/-- `Content.parse`: `stream.expect(TOKEN_CONTENT)` -/
def parseContent {σ} (ts : List (Tok σ)) (ps : PS) : R (Node σ) :=
  match ts with
  | .content s :: _ => ⟨.ok (.text s), 0, ps⟩
  | _ => ⟨.error synErr, 0, ps⟩

/-- `Output.parse`: `eat(OUTPUT)`, `expect(EXPRESSION)`, `FilteredExpression.parse` -/
def parseOutput {σ} (cfg : Cfg σ) (ts : List (Tok σ)) (ps : PS) : R (Node σ) :=
  match (intoInner cfg false (ts.drop 1)).1 with
  | .ok e => ⟨.ok (.eval e), 1, ps⟩
  | .error err => ⟨.error err, 1, ps⟩

/-- `Illegal.parse`: `expect(TAG)`; skip a following expression; raise -/
def parseIllegal {σ} (ts : List (Tok σ)) (ps : PS) : R (Node σ) :=
  match ts.drop 1 with
  | .expr _ :: _ => ⟨.error synErr, 1, ps⟩
  | _ => ⟨.error synErr, 0, ps⟩

/-- `Nil(stream.current)` -/
def nilExpr {σ} : Expr σ := ⟨.ok, fun s => (s, .ok ⟨"", 0⟩)⟩

/-- non-block tags: `eat(TAG)`, `into_inner(eat=False)`, expression parser -/
def parseEvalTag {σ} (cfg : Cfg σ) (nilAtEof : Bool) (mk : Expr σ → Node σ) (ts : List (Tok σ)) (ps : PS) : R (Node σ) :=
  if nilAtEof && (ts.drop 1).isEmpty then ⟨.ok (mk nilExpr), 1, ps⟩ else
  match (intoInner cfg false (ts.drop 1)).1 with
  | .ok e => ⟨.ok (mk e), 1, ps⟩
  | .error err => ⟨.error err, 1, ps⟩

/-- `for` (`hasElse`) and `capture`: `eat(TAG)`, `into_inner`, `parse_block`, optional `else` + `parse_block`,
    `expect(TAG, end)` -/
def parseBlockTag {σ} (cfg : Cfg σ) (pb : ParseBlockFn σ) (endName : String) (hasElse : Bool)
    (mk : Expr σ → List (Node σ) → List (Node σ) → Node σ) (ts : List (Tok σ)) (ps : PS) : R (Node σ) :=
  match intoInner cfg true (ts.drop 1) with
  | (.error err, a) => ⟨.error err, 1 + a, ps⟩
  | (.ok e, a) =>
    let c1 := 1 + a
    match pb (if hasElse then [endName, "else"] else [endName]) (ts.drop c1) ps with
    | ⟨.error err, a1, ps1⟩ => ⟨.error err, c1 + a1, ps1⟩
    | ⟨.ok body, a1, ps1⟩ =>
      let c2 := c1 + a1
      if hasElse && isTag (ts.drop c2).head? "else" then
        match pb [endName] (ts.drop (c2 + 1)) ps1 with
        | ⟨.error err, a2, ps2⟩ => ⟨.error err, c2 + 1 + a2, ps2⟩
        | ⟨.ok dflt, a2, ps2⟩ =>
          let c3 := c2 + 1 + a2
          if isTag (ts.drop c3).head? endName then ⟨.ok (mk e body dflt), c3, ps2⟩
          else ⟨.error synErr, c3, ps2⟩
      else if isTag (ts.drop c2).head? endName then ⟨.ok (mk e body []), c2, ps1⟩
      else ⟨.error synErr, c2, ps1⟩

/-- `ifchanged`: `eat(TAG)`, `parse_block`, `expect(TAG, end)` -/
def parsePlainBlock {σ} (pb : ParseBlockFn σ) (endName : String) (ts : List (Tok σ)) (ps : PS) : R (Node σ) :=
  match pb [endName] (ts.drop 1) ps with
  | ⟨.error err, a1, ps1⟩ => ⟨.error err, 1 + a1, ps1⟩
  | ⟨.ok body, a1, ps1⟩ =>
    if isTag (ts.drop (1 + a1)).head? endName then ⟨.ok (.block body), 1 + a1, ps1⟩
    else ⟨.error synErr, 1 + a1, ps1⟩

/-- `while stream.current.kind not in (TOKEN_TAG, TOKEN_EOF) …: next(stream)` — junk between `case` and the first `when` -/
def skipNonTag {σ} : List (Tok σ) → Nat
  | .tag _ :: _ => 0
  | [] => 0
  | _ :: rest => skipNonTag rest + 1

/-- The `while not stream.current.is_tag(TAG_ENDCASE)` loop of `CaseTag.parse`: `else` → block; `when` → expression,
    block; anything else (EOF included) raises. Same recursion scheme as `elsifLoop`. -/
def whenLoop {σ} (cfg : Cfg σ) (pb : ParseBlockFn σ) (endName : String) :
    Nat → List (Tok σ) → PS → R (List (Node σ))
  | _, [], ps => ⟨.error synErr, 0, ps⟩
  | skip + 1, _ :: rest, ps =>
    match whenLoop cfg pb endName skip rest ps with
    | ⟨r, a, ps'⟩ => ⟨r, a + 1, ps'⟩
  | 0, t :: rest, ps =>
    if isTag (some t) endName then ⟨.ok [], 0, ps⟩
    else if isTag (some t) "else" then
      match pb [endName, "when", "else"] rest ps with
      | ⟨.error err, a1, ps1⟩ => ⟨.error err, 1 + a1, ps1⟩
      | ⟨.ok body, a1, ps1⟩ =>
        match whenLoop cfg pb endName a1 rest ps1 with
        | ⟨.ok bs, a2, ps2⟩ => ⟨.ok (.elseBlock body :: bs), a2 + 1, ps2⟩
        | ⟨.error err, a2, ps2⟩ => ⟨.error err, a2 + 1, ps2⟩
    else if isTag (some t) "when" then
      match intoInner cfg true rest with
      | (.error err, a) => ⟨.error err, 1 + a, ps⟩
      | (.ok e, a) =>
        match pb [endName, "when", "else"] (rest.drop a) ps with
        | ⟨.error err, a1, ps1⟩ => ⟨.error err, 1 + a + a1, ps1⟩
        | ⟨.ok body, a1, ps1⟩ =>
          match whenLoop cfg pb endName (a + a1) rest ps1 with
          | ⟨.ok bs, a2, ps2⟩ => ⟨.ok (.whenBlock e body :: bs), a2 + 1, ps2⟩
          | ⟨.error err, a2, ps2⟩ => ⟨.error err, a2 + 1, ps2⟩
    else ⟨.error synErr, 0, ps⟩

/-- `CaseTag.parse` -/
def parseCase {σ} (cfg : Cfg σ) (pb : ParseBlockFn σ) (endName : String) (ts : List (Tok σ)) (ps : PS) : R (Node σ) :=
  match intoInner cfg true (ts.drop 1) with
  | (.error err, a) => ⟨.error err, 1 + a, ps⟩
  | (.ok e, a) =>
    let c1 := 1 + a + skipNonTag (ts.drop (1 + a))
    match whenLoop cfg pb endName 0 (ts.drop c1) ps with
    | ⟨.error err, a1, ps1⟩ => ⟨.error err, c1 + a1, ps1⟩
    | ⟨.ok blocks, a1, ps1⟩ => ⟨.ok (.case_ e blocks), c1 + a1, ps1⟩

/-- outcome of the `while stream.current.is_tag(TAG_ELSIF)` loop of `IfTag.parse` -/
inductive ElsifOut (σ : Type) where
  | alts (alts : List (Node σ)) (adv : Nat) (ps : PS)   -- loop finished normally
  | illegal (adv : Nat) (ps : PS)                      -- recovery: `return IllegalNode(token)`
  | raised (e : Err) (adv : Nat) (ps : PS)

/-- The elsif loop. Each iteration starts on the `elsif` tag (`skip = 0`), consumes it, its expression and the
    block; the recursion walks the list and skips what an iteration consumed. -/
def elsifLoop {σ} (cfg : Cfg σ) (pb : ParseBlockFn σ) (ends : List String) :
    Nat → List (Tok σ) → PS → ElsifOut σ
  | _, [], ps => .alts [] 0 ps
  | skip + 1, _ :: rest, ps =>
    match elsifLoop cfg pb ends skip rest ps with
    | .alts as a ps' => .alts as (a + 1) ps'
    | .illegal a ps' => .illegal (a + 1) ps'
    | .raised e a ps' => .raised e (a + 1) ps'
  | 0, t :: rest, ps =>
    if isTag (some t) "elsif" then
      -- `next(stream)` moved onto `rest`
      match intoInner cfg true rest with
      | (.error err, a) =>
        if cfg.syntaxClasses.contains err then
          -- except LiquidSyntaxError: self.env.error(err); eat_block(stream, ENDELSIFBLOCK); return IllegalNode
          match cfg.error ps.log err with
          | .error e => .raised e (1 + a) ps
          | .ok log => .illegal (1 + a + eatBlock ends (rest.drop a)) { ps with log := log }
        else .raised err (1 + a) ps
      | (.ok e, a) =>
        match pb ends (rest.drop a) ps with
        | ⟨.error err, a1, ps1⟩ => .raised err (1 + a + a1) ps1
        | ⟨.ok body, a1, ps1⟩ =>
          match elsifLoop cfg pb ends (a + a1) rest ps1 with
          | .alts as a2 ps2 => .alts (.condBlock e body :: as) (a2 + 1) ps2
          | .illegal a2 ps2 => .illegal (a2 + 1) ps2
          | .raised e' a2 ps2 => .raised e' (a2 + 1) ps2
    else .alts [] 0 ps

/-- `if stream.current.kind == TOKEN_EXPRESSION: next(stream)` -/
def exprSkip {σ} (ts : List (Tok σ)) : Nat :=
  match ts.head? with
  | some (.expr _) => 1
  | _ => 0

/-- the scan `while current.kind != EOF: if current is TAG endif: break; next(stream)` -/
def skipToEnd {σ} (endName : String) (ts : List (Tok σ)) : Nat := eatBlock [endName] ts

/-- `IfTag.parse` / `UnlessTag.parse` (the tag-local `mode` attribute is the constant `Mode.LAX`) -/
def parseCond {σ} (cfg : Cfg σ) (pb : ParseBlockFn σ) (endName : String) (negate : Bool)
    (ts : List (Tok σ)) (ps : PS) : R (Node σ) :=
  let ends := [endName, "elsif", "else"]
  match intoInner cfg true (ts.drop 1) with
  | (.error err, a) => ⟨.error err, 1 + a, ps⟩
  | (.ok c, a) =>
    let c1 := 1 + a
    match pb ends (ts.drop c1) ps with
    | ⟨.error err, a1, ps1⟩ => ⟨.error err, c1 + a1, ps1⟩
    | ⟨.ok cons, a1, ps1⟩ =>
      let c2 := c1 + a1
      match elsifLoop cfg pb ends 0 (ts.drop c2) ps1 with
      | .raised e a2 ps2 => ⟨.error e, c2 + a2, ps2⟩
      | .illegal a2 ps2 => ⟨.ok .illegal, c2 + a2, ps2⟩
      | .alts alts a2 ps2 =>
        let c3 := c2 + a2
        if isTag (ts.drop c3).head? "else" then
          -- next(stream); a superfluous expression inside `else` is skipped
          let c4 := c3 + 1 + exprSkip (ts.drop (c3 + 1))
          match pb ends (ts.drop c4) ps2 with
          | ⟨.error err, a3, ps3⟩ => ⟨.error err, c4 + a3, ps3⟩
          | ⟨.ok dflt, a3, ps3⟩ =>
            let c5 := c4 + a3
            let c6 := c5 + skipToEnd endName (ts.drop c5)
            if isTag (ts.drop c6).head? endName then ⟨.ok (.cond negate c cons alts dflt), c6, ps3⟩
            else ⟨.error synErr, c6, ps3⟩
        else
          let c6 := c3 + skipToEnd endName (ts.drop c3)
          if isTag (ts.drop c6).head? endName then ⟨.ok (.cond negate c cons alts []), c6, ps2⟩
          else ⟨.error synErr, c6, ps2⟩

/-- `Tag.get_node`: run `parse`; on a Liquid error call `env.error`, eat the block of a block tag, return `IllegalNode` -/
def getNode {σ} (cfg : Cfg σ) (kind : TagKind) (ts : List (Tok σ)) (r : R (Node σ)) :
    Except Err (Node σ × Nat × PS) :=
  match r.res with
  | .ok n => .ok (n, r.adv, r.ps)
  | .error e =>
    match cfg.error r.ps.log e with
    | .error e' => .error e'
    | .ok log =>
      let extra := if kind.isBlock then eatBlock [kind.endName] (ts.drop r.adv) else 0
      .ok (.illegal, r.adv + extra, { r.ps with log := log })

/-- the `try:` body of one iteration of `_parse` / `parse_block`: choose the tag by token kind, call `get_node` -/
def dispatch {σ} (cfg : Cfg σ) (pb : ParseBlockFn σ) : GetNodeFn σ := fun ts ps =>
  match ts with
  | .output :: _ => getNode cfg (.eval false) ts (parseOutput cfg ts ps)
  | .tag name :: _ =>
    match cfg.tags name with
    | .eval z => getNode cfg (.eval z) ts (parseEvalTag cfg z .eval ts ps)
    | .interrupt b => getNode cfg (.interrupt b) ts ⟨.ok (.interrupt b), 0, ps⟩
    | .partial_ iso => getNode cfg (.partial_ iso) ts (parseEvalTag cfg false (.partial_ iso) ts ps)
    | .extends_ => getNode cfg .extends_ ts (parseEvalTag cfg false .extends_ ts ps)
    | .loop e => getNode cfg (.loop e) ts (parseBlockTag cfg pb e true (fun x b d => .loop x b d) ts ps)
    | .capture e => getNode cfg (.capture e) ts (parseBlockTag cfg pb e false (fun x b _ => .capture x b) ts ps)
    | .cond e neg => getNode cfg (.cond e neg) ts (parseCond cfg pb e neg ts ps)
    | .case_ e => getNode cfg (.case_ e) ts (parseCase cfg pb e ts ps)
    | .scoped e => getNode cfg (.scoped e) ts (parseBlockTag cfg pb e false (fun x b _ => .scoped x b) ts ps)
    | .plain e => getNode cfg (.plain e) ts (parsePlainBlock pb e ts ps)
    | .unknown => getNode cfg .unknown ts (parseIllegal ts ps)
  | _ => getNode cfg (.eval false) ts (parseContent ts ps)

/-- `stream.current.kind == TOKEN_TAG and stream.current.value in end` (`_parse` has no such test) -/
def stopsAt {σ} (ends : Option (List String)) (t : Tok σ) : Bool :=
  match ends with
  | some es => isTagIn t es
  | none => false

/-- The loop of `Parser._parse` (`ends = none`) and of `Parser.parse_block` (`ends = some …`).
    Returns the nodes, how far the cursor moved, and the state. -/
def loopFrom {σ} (cfg : Cfg σ) (gn : GetNodeFn σ) (ends : Option (List String)) :
    Nat → List (Tok σ) → PS → Except Err (List (Node σ) × Nat × PS)
  | _, [], ps => .ok ([], 0, ps)
  | skip + 1, _ :: rest, ps =>
    match loopFrom cfg gn ends skip rest ps with
    | .ok (ns, c, ps') => .ok (ns, c + 1, ps')
    | .error e => .error e
  | 0, t :: rest, ps =>
    if stopsAt ends t then .ok ([], 0, ps)
    else
      match gn (t :: rest) ps with
      | .ok (n, adv, ps') =>
        -- next(stream)
        match loopFrom cfg gn ends adv rest ps' with
        | .ok (ns, c, ps'') => .ok (n :: ns, c + 1, ps'')
        | .error e => .error e
      | .error e =>
        -- except LiquidError as err: self.env.error(err, token=stream.current)
        match cfg.error ps.log e with
        | .error e' => .error e'
        | .ok log =>
          match loopFrom cfg gn ends 0 rest { ps with log := log } with
          | .ok (ns, c, ps'') => .ok (ns, c + 1, ps'')
          | .error e' => .error e'

/-- `Parser.parse_block` with `budget = block_nesting_limit − (number of enclosing parse_block calls)`.
    `stream.block_depth += 1; if stream.block_depth > limit: raise` — the increment is not undone when it raises. -/
def parseBlock {σ} (cfg : Cfg σ) : Nat → ParseBlockFn σ
  | 0 => fun _ _ ps => ⟨.error nestErr, 0, { ps with leak := ps.leak + 1 }⟩
  | b + 1 => fun ends ts ps =>
    if ps.leak > b then ⟨.error nestErr, 0, { ps with leak := ps.leak + 1 }⟩
    else
      match loopFrom cfg (dispatch cfg (parseBlock cfg b)) (some ends) 0 ts ps with
      | .ok (ns, c, ps') => ⟨.ok ns, c, ps'⟩
      | .error e => ⟨.error e, 0, ps⟩

/-- `Parser.parse` on a fresh `TokenStream` -/
def parseTemplate {σ} (cfg : Cfg σ) (ts : List (Tok σ)) (log : Log) : Except Err (List (Node σ) × Log) :=
  match loopFrom cfg (dispatch cfg (parseBlock cfg cfg.nestLimit)) none 0 ts ⟨log, 0⟩ with
  | .ok (ns, _, ps) => .ok (ns, ps.log)
  | .error e => .error e

/-! ## Rendering -/

inductive Sig where
  | done
  | err (e : Err)      -- a LiquidError is propagating
  | brk | cont         -- LiquidInterrupt (BreakLoop / ContinueLoop)
  | stop               -- StopRender
  deriving DecidableEq, Repr

structure RS (σ : Type) where
  st : σ
  out : String
  log : Log

abbrev RenderTemplateFn (σ : Type) := List (Node σ) → Bool → Bool → RS σ → RS σ × Sig

def Sig.isErr : Sig → Bool
  | .err _ => true
  | _ => false

/-- evaluate an expression against the state -/
def evalExpr {σ} (e : Expr σ) (rs : RS σ) : RS σ × Except Err Val :=
  let (st', r) := e.eval rs.st
  ({ rs with st := st' }, r)

/-- `for itm in forloop: try: block.render(…) except ContinueLoop: continue except BreakLoop: break` -/
def iterate {σ} (body : RS σ → RS σ × Sig) : Nat → RS σ → RS σ × Sig
  | 0, rs => (rs, .done)
  | n + 1, rs =>
    match body rs with
    | (rs', .done) => iterate body n rs'
    | (rs', .cont) => iterate body n rs'
    | (rs', .brk) => (rs', .done)
    | (rs', s) => (rs', s)

/-- `sum([self.block.render(context, buffer) for _ in range(matches.count(True))])`: nothing is caught -/
def repeatN {σ} (body : RS σ → RS σ × Sig) : Nat → RS σ → RS σ × Sig
  | 0, rs => (rs, .done)
  | n + 1, rs =>
    match body rs with
    | (rs', .done) => repeatN body n rs'
    | (rs', s) => (rs', s)

mutual
/-- `Node.render` for each node class -/
def renderNode {σ} (cfg : Cfg σ) (rt : RenderTemplateFn σ) : Node σ → RS σ → RS σ × Sig
  | .text s, rs => ({ rs with out := rs.out ++ s }, .done)
  | .eval e, rs =>
    match evalExpr e rs with
    | (rs', .ok v) => ({ rs' with out := rs'.out ++ v.str }, .done)
    | (rs', .error err) => (rs', .err err)
  | .illegal, rs => (rs, .done)
  | .interrupt b, rs => (rs, if b then .brk else .cont)
  | .partial_ iso e, rs =>
    match evalExpr e rs with
    | (rs', .error err) => (rs', .err err)
    | (rs', .ok v) =>
      match cfg.loader v.str with
      | none => (rs', .err notFoundErr)
      | some src =>
        -- env.get_template → from_string: parsed under the environment's mode
        match parseTemplate cfg src rs'.log with
        | .error err => (rs', .err err)
        | .ok (nodes, log) => rt nodes true iso { rs' with log := log }
  | .extends_ e, rs =>
    match evalExpr e rs with
    | (rs', .error err) => (rs', .err err)
    | (rs', .ok v) =>
      match cfg.loader v.str with
      | none => (rs', .err notFoundErr)
      | some src =>
        match parseTemplate cfg src rs'.log with
        | .error err => (rs', .err err)
        | .ok (nodes, log) =>
          -- base_template.render_with_context(context, buffer); raise StopRender
          match rt nodes false false { rs' with log := log } with
          | (rs'', .done) => (rs'', .stop)
          | (rs'', s) => (rs'', s)
  | .cond negate c cons alts dflt, rs =>
    match evalExpr c rs with
    | (rs', .error err) => (rs', .err err)
    | (rs', .ok v) =>
      if (v.num != 0) != negate then renderList cfg rt cons rs'
      else
        match renderAlts cfg rt alts rs' with
        | (rs'', some s) => (rs'', s)
        | (rs'', none) => renderList cfg rt dflt rs''
  | .condBlock e body, rs =>
    match evalExpr e rs with
    | (rs', .error err) => (rs', .err err)
    | (rs', .ok v) => if v.num != 0 then renderList cfg rt body rs' else (rs', .done)
  | .loop e body dflt, rs =>
    match evalExpr e rs with
    | (rs', .error err) => (rs', .err err)
    | (rs', .ok v) =>
      if v.num = 0 then renderList cfg rt dflt rs'
      else iterate (renderList cfg rt body) v.num rs'
  | .capture _ body, rs =>
    -- buf = context.get_buffer(buffer); self.block.render(context, buf); assign
    match renderList cfg rt body { rs with out := "" } with
    | (rs', .done) => ({ rs' with out := rs.out }, .done)
    | (rs', s) => ({ rs' with out := rs.out }, s)
  | .case_ _ blocks, rs => renderCase cfg rt blocks true rs
  | .whenBlock e body, rs =>
    match evalExpr e rs with
    | (rs', .error err) => (rs', .err err)
    | (rs', .ok v) => repeatN (renderList cfg rt body) v.num rs'
  | .elseBlock body, rs => renderList cfg rt body rs
  | .scoped e body, rs =>
    match evalExpr e rs with
    | (rs', .error err) => (rs', .err err)
    | (rs', .ok _) => renderList cfg rt body rs'
  | .block body, rs => renderList cfg rt body rs

/-- `BlockNode.render_to_output`: children in order, the first exception propagates -/
def renderList {σ} (cfg : Cfg σ) (rt : RenderTemplateFn σ) : List (Node σ) → RS σ → RS σ × Sig
  | [], rs => (rs, .done)
  | n :: ns, rs =>
    match renderNode cfg rt n rs with
    | (rs', .done) => renderList cfg rt ns rs'
    | (rs', s) => (rs', s)

/-- `for alternative in self.alternatives: if alternative.expression.evaluate(context): return alternative.block.render(…)`;
    `none`: no alternative was taken (the caller renders the default block) -/
def renderAlts {σ} (cfg : Cfg σ) (rt : RenderTemplateFn σ) : List (Node σ) → RS σ → RS σ × Option Sig
  | [], rs => (rs, none)
  | .condBlock e body :: alts, rs =>
    match evalExpr e rs with
    | (rs', .error err) => (rs', some (.err err))
    | (rs', .ok v) =>
      if v.num != 0 then
        match renderList cfg rt body rs' with
        | (rs'', s) => (rs'', some s)
      else renderAlts cfg rt alts rs'
  | _ :: alts, rs => renderAlts cfg rt alts rs

/-- `CaseNode.render_to_output`: every `when` block with a match renders (once per match) and switches the `else`
    blocks off; `else` blocks render while no `when` block has matched -/
def renderCase {σ} (cfg : Cfg σ) (rt : RenderTemplateFn σ) : List (Node σ) → Bool → RS σ → RS σ × Sig
  | [], _, rs => (rs, .done)
  | .whenBlock e body :: bs, dflt, rs =>
    match evalExpr e rs with
    | (rs', .error err) => (rs', .err err)
    | (rs', .ok v) =>
      if v.num != 0 then
        match repeatN (renderList cfg rt body) v.num rs' with
        | (rs'', .done) => renderCase cfg rt bs false rs''
        | (rs'', s) => (rs'', s)
      else renderCase cfg rt bs dflt rs'
  | .elseBlock body :: bs, dflt, rs =>
    if dflt then
      match renderList cfg rt body rs with
      | (rs', .done) => renderCase cfg rt bs dflt rs'
      | (rs', s) => (rs', s)
    else renderCase cfg rt bs dflt rs
  | _ :: bs, dflt, rs => renderCase cfg rt bs dflt rs
end

/-- the `for node in self.nodes` loop of `BoundTemplate.render_with_context` -/
def templateLoop {σ} (cfg : Cfg σ) (rn : Node σ → RS σ → RS σ × Sig) (isPartial blockScope : Bool) :
    List (Node σ) → RS σ → RS σ × Sig
  | [], rs => (rs, .done)
  | n :: ns, rs =>
    match rn n rs with
    | (rs', .done) => templateLoop cfg rn isPartial blockScope ns rs'
    | (rs', .stop) => (rs', .done)                       -- except StopRender: break
    | (rs', .err e) =>                                   -- except LiquidError: self.env.error(err, token=node.token)
      match cfg.error rs'.log e with
      | .error e' => (rs', .err e')
      | .ok log => templateLoop cfg rn isPartial blockScope ns { rs' with log := log }
    | (rs', s) =>                                        -- except LiquidInterrupt
      if !isPartial || blockScope then
        match cfg.error rs'.log synErr with
        | .error e' => (rs', .err e')
        | .ok log => templateLoop cfg rn isPartial blockScope ns { rs' with log := log }
      else (rs', s)                                      -- raise

/-- `render_with_context` with the remaining context-depth budget (`context.extend` / `context.copy` raise
    `ContextDepthError` when it is used up) -/
def renderTemplate {σ} (cfg : Cfg σ) : Nat → RenderTemplateFn σ
  | 0 => fun _ _ _ rs => (rs, .err depthErr)
  | d + 1 => fun nodes isPartial blockScope rs =>
    templateLoop cfg (renderNode cfg (renderTemplate cfg d)) isPartial blockScope nodes rs

/-- `BoundTemplate.render` -/
def render {σ} (cfg : Cfg σ) (nodes : List (Node σ)) (st : σ) (log : Log) : RS σ × Sig :=
  renderTemplate cfg (cfg.depthLimit + 1) nodes false false ⟨st, "", log⟩

/-- what a caller of `env.from_string(src).render(data)` observes -/
inductive Outcome where
  | ok (out : String) (log : Log)
  | parseError (e : Err)
  | renderError (e : Err) (log : Log)
  | interrupt                       -- a LiquidInterrupt / StopRender escaping `render` (never happens: theorem)
  deriving DecidableEq, Repr

def run {σ} (cfg : Cfg σ) (src : List (Tok σ)) (st : σ) : Outcome :=
  match parseTemplate cfg src {} with
  | .error e => .parseError e
  | .ok (nodes, log) =>
    match render cfg nodes st log with
    | (rs, .done) => .ok rs.out rs.log
    | (rs, .err e) => .renderError e rs.log
    | _ => .interrupt

end LiquidVerif.Mode
