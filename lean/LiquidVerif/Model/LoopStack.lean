/-!
The loop stack under exceptions: `RenderContext.loop` / `extend` / `parentloop`
(liquid/context.py), `ForNode.render_to_output`, `TablerowNode.render_to_output`, and the top-level
loop of `BoundTemplate.render_with_context` with its per-node `except LiquidError: env.error(...)`
(strict raises, lax and warn go on with the next top-level node, with whatever state the failed node
left behind).

Unlike `Model/LoopRender.lean` (where the loop stack is scoped by construction) the stack
`context.loops` is *threaded state* here and is pushed and popped exactly where the code pushes and
pops, so that "the stack is restored however the loop is left" is a theorem, not a definition.
`RenderContext.loop` is modelled as repaired on fix2-C13 (push after `extend` succeeded).

Core Lean only.
-/
namespace LiquidVerif.LoopStack

/-- a `ForLoop` object: length, `_index`, and the `parentloop` captured when it was created -/
inductive LoopObj where
  | mk (length : Nat) (idx : Int) (parent : Option LoopObj)
  deriving Repr

def LoopObj.length : LoopObj → Nat | .mk n _ _ => n
def LoopObj.idx : LoopObj → Int | .mk _ i _ => i
def LoopObj.parent : LoopObj → Option LoopObj | .mk _ _ p => p

/-- `forloop.parentloop.….parentloop` (`up` times); `none` = undefined -/
def LoopObj.up : Option LoopObj → Nat → Option LoopObj
  | o, 0 => o
  | none, _ + 1 => none
  | some l, n + 1 => LoopObj.up l.parent n

inductive Err where
  | liquid          -- a LiquidError the tolerant modes suppress (filter error, type error, missing template …)
  | depth           -- ContextDepthError raised by `extend` (also a LiquidError: lax/warn suppress it too)
  deriving Repr, DecidableEq

inductive Outcome where
  | normal | brk | cont
  | err (e : Err)
  deriving Repr, DecidableEq

structure St where
  loops : List LoopObj       -- `context.loops`, top first
  out : String               -- the output buffer (what was written stays written)
  deriving Repr

structure Env where
  maxDepth : Nat             -- how many nested `extend`s fit under `context_depth_limit`
  depth : Nat                -- namespaces pushed by enclosing loops
  forloop : Option LoopObj   -- what the name `forloop` resolves to in the current scope
  deriving Repr

inductive Ref where
  | index | length | defined
  deriving Repr, DecidableEq

inductive Node where
  | nop
  | text (s : String)
  | fail                                  -- an output statement / tag that raises a LiquidError before writing
  | ref (up : Nat) (f : Ref)              -- `{{ forloop.parentloop….f }}`
  | seq (a b : Node)                      -- `BlockNode`: a then b
  | for_ (n : Nat) (body : Node)          -- `{% for v in (1..n) %}body{% endfor %}`
  | tablerow (n : Nat) (body : Node)      -- `{% tablerow v in (1..n) %}body{% endtablerow %}` (cols = n)
  | brk
  | cont
  deriving Repr

def showRef (o : Option LoopObj) (f : Ref) : String :=
  match o, f with
  | none, .defined => "-"
  | some _, .defined => "P"
  | none, _ => ""
  | some l, .index => toString (l.idx + 1)
  | some l, .length => toString l.length

/-- replace the entry that sits `pos` places above the bottom of the stack (the `ForLoop` object is
mutated in place: whoever holds a reference sees the new `_index`) -/
def setFromBottom (l : List LoopObj) (pos : Nat) (o : LoopObj) : List LoopObj :=
  if pos < l.length then l.set (l.length - 1 - pos) o else l

/-- `for itm in forloop:` with `except ContinueLoop: continue / except BreakLoop: break`; any other
exception leaves the loop -/
def iterLoop (f : St → Nat → St × Outcome) : St → Nat → Nat → St × Outcome
  | st, _, 0 => (st, .normal)
  | st, k, r + 1 =>
    match f st k with
    | (st', .normal) => iterLoop f st' (k + 1) r
    | (st', .cont) => iterLoop f st' (k + 1) r
    | (st', .brk) => (st', .normal)
    | (st', .err e) => (st', .err e)

/-- the `for item in tablerow:` loop: cell open, body, cell close, `if _break: break`, row separator never
(cols = length) -/
def iterRow (f : St → Nat → St × Outcome) : St → Nat → Nat → St × Outcome
  | st, _, 0 => (st, .normal)
  | st, k, r + 1 =>
    let st1 := { st with out := st.out ++ "<td class=\"col" ++ toString (k + 1) ++ "\">" }
    match f st1 k with
    | (st', .err e) => (st', .err e)
    | (st', .brk) => ({ st' with out := st'.out ++ "</td>" }, .normal)
    | (st', _) => iterRow f { st' with out := st'.out ++ "</td>" } (k + 1) r

def render (env : Env) (st : St) : Node → St × Outcome
  | .nop => (st, .normal)
  | .text s => ({ st with out := st.out ++ s }, .normal)
  | .fail => (st, .err .liquid)
  | .ref up f => ({ st with out := st.out ++ showRef (LoopObj.up env.forloop up) f }, .normal)
  | .seq a b =>
    match render env st a with
    | (st', .normal) => render env st' b
    | r => r
  | .brk => (st, .brk)
  | .cont => (st, .cont)
  | .for_ n body =>
    if n = 0 then (st, .normal) else
    let parent := st.loops.head?                       -- context.parentloop()
    if env.depth ≥ env.maxDepth then (st, .err .depth)  -- `extend` raises: nothing was pushed
    else
      let pos := st.loops.length
      let st1 := { st with loops := LoopObj.mk n (-1) parent :: st.loops }      -- self.loops.append(forloop)
      let (st2, o) := iterLoop (fun s k =>
          let obj := LoopObj.mk n k parent                                       -- forloop.step()
          render { env with depth := env.depth + 1, forloop := some obj }
                 { s with loops := setFromBottom s.loops pos obj } body) st1 0 n
      ({ st2 with loops := st2.loops.tail }, o)         -- finally: self.loops.pop()
  | .tablerow n body =>
    if env.depth ≥ env.maxDepth then ({ st with out := st.out ++ "<tr class=\"row1\">\n" }, .err .depth)
    else
      let st1 := { st with out := st.out ++ "<tr class=\"row1\">\n" }
      match iterRow (fun s _ => render { env with depth := env.depth + 1 } s body) st1 0 n with
      | (st2, .err e) => (st2, .err e)
      | (st2, _) => ({ st2 with out := st2.out ++ "</tr>\n" }, .normal)

inductive Mode where
  | strict | lax
  deriving Repr, DecidableEq

/-- `BoundTemplate.render_with_context`: every top-level node in turn; a LiquidError is handed to
`env.error` (strict: raise; lax/warn: go on); a stray interrupt becomes a syntax error -/
def renderTemplate (mode : Mode) (maxDepth : Nat) : St → List Node → St × Option Err
  | st, [] => (st, none)
  | st, n :: ns =>
    match render { maxDepth, depth := 0, forloop := none } st n with
    | (st', .normal) => renderTemplate mode maxDepth st' ns
    | (st', .err e) => if mode = .strict then (st', some e) else renderTemplate mode maxDepth st' ns
    | (st', _) => if mode = .strict then (st', some .liquid) else renderTemplate mode maxDepth st' ns

end LiquidVerif.LoopStack
