import LiquidVerif.Model.Printer
/-!
Token-level model of the expression parsers that read back what the printers of `Model/Printer.lean`
write: `parse_primitive` (with `RangeLiteral.parse` and `Path.parse`), `Filter.parse`,
`FilteredExpression.parse` / `TernaryFilteredExpression.parse`, `parse_identifier`,
`LoopExpression.parse` (mode strict, `keyword_assignment` off, `shorthand_indexes` off), and of the token
sequences the expression lexer yields for the printed text (`tok…`).  Tokens are the lexer's kinds.
All parsers are total by well-founded recursion on the remaining token list — no fuel.
-/
namespace LiquidVerif.ExprParse
open LiquidVerif.Printer LiquidVerif.BoolParse

/-- token kinds of `liquid/builtin/expressions/_tokenize.py` (keywords carry their own kind) -/
inductive XTok where
  | word (s : String) | identstring (s : String) | identindex (i : Int)
  | lbracket | rbracket | dot
  | str (v : String) | int (i : Int) | float (t : String)
  | kw (k : String)          -- true false nil null empty blank and or not contains in offset limit reversed cols continue with for as if else required
  | rangelit | range | lparen | rparen | colon | comma | pipe | dpipe
  | op (c : Cmp) | lg | assign
  deriving DecidableEq

/-- the path parser of `Model/Printer.lean` sees only the path tokens -/
def view : XTok → PTok
  | .word s => .word s
  | .identstring s => .identstring s
  | .identindex i => .identindex i
  | .lbracket => .lbracket
  | .rbracket => .rbracket
  | .dot => .dot
  | _ => .other 0

/-- `Path.parse` on expression tokens: run the path parser on the path view, keep the unread suffix -/
def pathX (ts : List XTok) : Option (Segs × {r : List XTok // r.length ≤ ts.length}) :=
  match parsePath (ts.map view) with
  | some (p, r) => some (p, ⟨ts.drop (ts.length - r.length), by simp⟩)
  | none => none

/-- `parse_primitive`; `none` = `LiquidSyntaxError` -/
def primS (ts : List XTok) : Option (Prim × {r : List XTok // r.length ≤ ts.length}) :=
  match ts with
  | .kw "true" :: r => some (.tru, ⟨r, by simp⟩)
  | .kw "false" :: r => some (.fals, ⟨r, by simp⟩)
  | .kw "nil" :: r => some (.nil, ⟨r, by simp⟩)
  | .kw "null" :: r => some (.nil, ⟨r, by simp⟩)
  | .kw "empty" :: r => some (.empty, ⟨r, by simp⟩)
  | .kw "blank" :: r => some (.blank, ⟨r, by simp⟩)
  | .int i :: r => some (.int i, ⟨r, by simp⟩)
  | .float t :: r => some (.float t, ⟨r, by simp⟩)
  | .str v :: r => some (.str v, ⟨r, by simp⟩)
  | .rangelit :: r =>
    -- RangeLiteral.parse: eat `(`, parse_primitive, eat `..`, parse_primitive, eat `)`
    match primS r with
    | some (a, ⟨.range :: r1, h1⟩) =>
      match primS r1 with
      | some (b, ⟨.rparen :: r2, h2⟩) => some (.range a b, ⟨r2, by
          simp only [List.length_cons] at h1 h2 ⊢; omega⟩)
      | _ => none
    | _ => none
  | .word s :: r =>
    match pathX (.word s :: r) with
    | some (p, r') => some (.path p, r')
    | none => none
  | .identstring s :: r =>
    match pathX (.identstring s :: r) with
    | some (p, r') => some (.path p, r')
    | none => none
  | .lbracket :: r =>
    match pathX (.lbracket :: r) with
    | some (p, r') => some (.path p, r')
    | none => none
  | _ => none
termination_by ts.length
decreasing_by
  all_goals simp_wf
  all_goals (try simp only [List.length_cons] at *)
  all_goals omega

def prim (ts : List XTok) : Option (Prim × List XTok) := (primS ts).map fun x => (x.1, x.2.1)

mutual
/-- `tokSeg`/`tokSegs` of `Model/Printer.lean` as expression tokens -/
def xSeg (first : Bool) : Seg → List XTok
  | .name s => if isProperty s then (if first then [.word s] else [.dot, .word s]) else [.identstring s]
  | .idx i => [.identindex i]
  | .sub p => [.lbracket] ++ xSegs true p ++ [.rbracket]
def xSegs (first : Bool) : Segs → List XTok
  | .nil => []
  | .cons s r => xSeg first s ++ xSegs false r
end

/-- tokens of `str(primitive)` -/
def tokPrim : Prim → List XTok
  | .nil => []
  | .tru => [.kw "true"]
  | .fals => [.kw "false"]
  | .empty => []
  | .blank => []
  | .int i => [.int i]
  | .float t => [.float t]
  | .str v => [.str v]
  | .range a b => [.rangelit] ++ tokPrim a ++ [.range] ++ tokPrim b ++ [.rparen]
  | .path p => xSegs true p
  | .word s => [.word s]

/-! ## filters -/

/-- `tokens.current.kind in FILTER_TOKENS` -/
def isFilterTok : XTok → Bool
  | .int _ => true | .float _ => true | .str _ => true
  | .kw k => k == "false" || k == "true" || k == "nil" || k == "null"
  | .rangelit => true | .lbracket => true | .lparen => true | .word _ => true
  | _ => false

def headIs (p : XTok → Bool) : List XTok → Bool
  | t :: _ => p t
  | [] => false

/-- the `while True:` argument loop of `Filter.parse` -/
def argsS (ts : List XTok) : Option (List Arg × {r : List XTok // r.length ≤ ts.length}) :=
  match ts with
  | .word n :: .colon :: r =>
    -- keyword argument: word, `:`, parse_primitive
    match primS r with
    | some (v, ⟨r1, h1⟩) =>
      if headIs isFilterTok r1 then none      -- "expected a comma separated list of arguments"
      else match argsS r1 with
        | some (as, r2) => some ({ name := some n, val := v } :: as, ⟨r2.1, by
            have := r2.2; simp only [List.length_cons]; omega⟩)
        | none => none
    | none => none
  | .comma :: r =>
    if headIs (· == .comma) r then none       -- strict: two commas
    else match argsS r with
      | some (as, r2) => some (as, ⟨r2.1, by have := r2.2; simp only [List.length_cons]; omega⟩)
      | none => none
  | t :: r =>
    if isFilterTok t then
      match primS (t :: r) with
      | some (v, ⟨r1, h1⟩) =>
        if headIs isFilterTok r1 then none
        else if r1.length < (t :: r).length then
          match argsS r1 with
          | some (as, r2) => some ({ name := none, val := v } :: as, ⟨r2.1, by have := r2.2; omega⟩)
          | none => none
        else none   -- unreachable: a primitive starting with a FILTER token consumes it
      | none => none
    else some ([], ⟨t :: r, Nat.le_refl _⟩)
  | [] => some ([], ⟨[], Nat.le_refl _⟩)
termination_by ts.length
decreasing_by
  all_goals simp_wf
  all_goals (try simp only [List.length_cons] at *)
  all_goals omega

/-- `Filter.parse(env, tokens, delim=…)`; `dp` = `TOKEN_DPIPE in delim` -/
def filtersS (dp : Bool) (ts : List XTok) : Option (List Filter × {r : List XTok // r.length ≤ ts.length}) :=
  match ts with
  | t :: r =>
    if t == .pipe || (dp && t == .dpipe) then
      match r with
      | .word n :: .colon :: r1 =>
        match argsS r1 with
        | some (as, ⟨r2, h2⟩) =>
          match filtersS dp r2 with
          | some (fs, r3) => some ({ name := n, args := as } :: fs, ⟨r3.1, by
              have := r3.2; simp only [List.length_cons]; omega⟩)
          | none => none
        | none => none
      | .word n :: r1 =>
        match filtersS dp r1 with
        | some (fs, r3) => some ({ name := n, args := [] } :: fs, ⟨r3.1, by
            have := r3.2; simp only [List.length_cons]; omega⟩)
        | none => none
      | _ => none                              -- `tokens.eat(TOKEN_WORD)` fails
    else some ([], ⟨t :: r, Nat.le_refl _⟩)
  | [] => some ([], ⟨[], Nat.le_refl _⟩)
termination_by ts.length
decreasing_by
  all_goals simp_wf
  all_goals (try simp only [List.length_cons] at *)
  all_goals omega

def args (ts : List XTok) : Option (List Arg × List XTok) := (argsS ts).map fun x => (x.1, x.2.1)
def filters (dp : Bool) (ts : List XTok) : Option (List Filter × List XTok) :=
  (filtersS dp ts).map fun x => (x.1, x.2.1)

def tokArg (a : Arg) : List XTok :=
  match a.name with
  | some n => [.word n, .colon] ++ tokPrim a.val
  | none => tokPrim a.val

def tokArgs : List Arg → List XTok
  | [] => []
  | [a] => tokArg a
  | a :: as => tokArg a ++ [.comma] ++ tokArgs as

def tokFilter (f : Filter) : List XTok :=
  if f.args.isEmpty then [.word f.name] else [.word f.name, .colon] ++ tokArgs f.args

/-- `" | " + " | ".join(str(f) …)`; `first` is the delimiter in front of the first filter -/
def tokFilters (first : XTok) : List Filter → List XTok
  | [] => []
  | f :: fs => [first] ++ tokFilter f ++ tokFilters .pipe fs

/-- `FilteredExpression.parse` without the ternary branch, and the ternary tail
(`TernaryFilteredExpression.parse`) relative to a parser `cond` for the inline condition. -/
inductive FExpr (C : Type) where
  | filtered (left : Prim) (filters : List Filter)
  | ternary (left : Prim) (lfilters : List Filter) (cond : C) (alt : Option Prim)
      (filters : List Filter) (tail : List Filter)

def filteredParse {C : Type} (cond : List XTok → Option (C × List XTok)) (ts : List XTok) : Option (FExpr C) :=
  match prim ts with
  | none => none
  | some (left, r) =>
    match filters false r with
    | none => none
    | some (lfs, r1) =>
      match r1 with
      | [] => some (.filtered left lfs)                        -- `tokens.eat(TOKEN_EOF)`
      | .kw "if" :: r2 =>
        match cond r2 with
        | none => none
        | some (c, r3) =>
          -- optional `else primitive [| filters]`
          let altPart : Option (Option Prim × List Filter × List XTok) :=
            match r3 with
            | .kw "else" :: r4 =>
              match prim r4 with
              | none => none
              | some (a, r5) =>
                if headIs (· == .pipe) r5 then
                  match filters false r5 with
                  | some (fs, r6) => some (some a, fs, r6)
                  | none => none
                else some (some a, [], r5)
            | _ => some (none, [], r3)
          match altPart with
          | none => none
          | some (alt, fs, r6) =>
            -- optional `|| tail filters`
            if headIs (· == .dpipe) r6 then
              match filters true r6 with
              | some (tail, []) => some (.ternary left lfs c alt fs tail)
              | _ => none
            else match r6 with
              | [] => some (.ternary left lfs c alt fs [])
              | _ => none
      | _ => none

def tokFExpr {C : Type} (tokCond : C → List XTok) : FExpr C → List XTok
  | .filtered l fs => tokPrim l ++ tokFilters .pipe fs
  | .ternary l lfs c alt fs tail =>
    tokPrim l ++ tokFilters .pipe lfs ++ [.kw "if"] ++ tokCond c
      ++ (match alt with | some a => [.kw "else"] ++ tokPrim a | none => [])
      ++ tokFilters .pipe fs ++ tokFilters .dpipe tail

/-! ## loop expressions -/

/-- `parse_identifier`: an integer literal or a one-word path -/
def identOf : Prim → Option String
  | .int i => some (toString i)
  | .path (.cons (.name s) .nil) => some s
  | _ => none

structure LoopSt where
  limit : Option Prim := none
  offset : Option Prim := none
  cols : Option Prim := none
  reversed : Bool := false

/-- the option loop of `LoopExpression.parse` (after the optional leading comma) -/
def loopOptsS (st : LoopSt) (ts : List XTok) : Option LoopSt :=
  match ts with
  | [] => some st                                            -- TOKEN_EOF: break
  | .kw "reversed" :: r => loopOptsS { st with reversed := true } r
  | .comma :: r =>
    -- `arg_token = next(tokens)` has already consumed the comma, so `tokens.peek` is the token *after* the
    -- next one: strict mode rejects `, X ,` here (not `, ,`)
    if headIs (· == .comma) (r.drop 1) then none else loopOptsS st r
  | .kw "limit" :: .colon :: r =>
    match primS r with
    | some (v, r1) => loopOptsS { st with limit := some v } r1.1
    | none => none
  | .kw "cols" :: .colon :: r =>
    match primS r with
    | some (v, r1) => loopOptsS { st with cols := some v } r1.1
    | none => none
  | .kw "offset" :: .colon :: .kw "continue" :: r => loopOptsS { st with offset := some (.str "continue") } r
  | .kw "offset" :: .colon :: r =>
    match primS r with
    | some (v, r1) => loopOptsS { st with offset := some v } r1.1
    | none => none
  | _ => none
termination_by ts.length
decreasing_by
  all_goals simp_wf
  all_goals (try (have := r1.2))
  all_goals (try simp only [List.length_cons] at *)
  all_goals omega

/-- "Leading commas are OK": `if tokens.current.kind == TOKEN_COMMA: next(tokens)` -/
def skipComma : List XTok → List XTok
  | .comma :: r => r
  | ts => ts

/-- `LoopExpression.parse` -/
def loopParse (ts : List XTok) : Option LoopX :=
  match prim ts with
  | none => none
  | some (p, r) =>
    match identOf p, r with
    | some ident, .kw "in" :: r1 =>
      match prim r1 with
      | none => none
      | some (it, r2) =>
        match loopOptsS {} (skipComma r2) with
        | some st => some { ident := ident, iterable := it, limit := st.limit, offset := st.offset,
                            cols := st.cols, reversed := st.reversed }
        | none => none
    | _, _ => none

def tokOpt (k : String) : Option Prim → List XTok
  | some v => [.kw k, .colon] ++ tokPrim v
  | none => []

/-- tokens of `LoopExpression.__str__` -/
def tokLoop (l : LoopX) : List XTok :=
  [.word l.ident, .kw "in"] ++ tokPrim l.iterable ++ tokOpt "limit" l.limit ++ tokOpt "offset" l.offset
    ++ tokOpt "cols" l.cols ++ (if l.reversed then [.kw "reversed"] else [])

end LiquidVerif.ExprParse
