/-!
Model of the logical-expression parser of `liquid/builtin/expressions/logical.py`
(`parse_boolean_primitive`, `parse_infix_expression`, `parse_grouped_expression`,
`LogicalNotExpression.parse`) at token level, with the `PRECEDENCES` and `BINARY_OPERATORS`
tables as they are written:

* `and`, `or`                    → `PRECEDENCE_LOGICAL_RIGHT = 2`
* `== != <> < > <= >=`           → `PRECEDENCE_RELATIONAL   = 5`
* `contains`                     → `PRECEDENCE_MEMBERSHIP   = 6`
* `not`                          → `PRECEDENCE_PREFIX       = 7`
* `)` and every other token kind → `PRECEDENCE_LOWEST       = 1` (`PRECEDENCES.get(kind, LOWEST)`)

Primitive operands (literals, ranges, paths) are opaque atoms here; their own printers are in
`Model/Printer.lean`.  The parser is total: recursion is on the length of the remaining token
list (every call consumes a token), no fuel.
-/
namespace LiquidVerif.BoolParse

inductive Cmp where
  | eq | ne | lt | gt | le | ge | contains
  deriving DecidableEq, Repr

inductive Tok where
  | atom (n : Nat)            -- a primitive operand (one token here)
  | and | or | not | lp | rp
  | cmp (c : Cmp)
  | lg                        -- `<>`, parsed to the same node as `!=`
  | other (n : Nat)           -- any other token kind (`else`, `|`, `||`, `,` …)
  deriving DecidableEq, Repr

inductive E where
  | atom (n : Nat)
  | and (l r : E)
  | or (l r : E)
  | not (e : E)
  | cmp (c : Cmp) (l r : E)
  deriving DecidableEq, Repr

/-- `PRECEDENCES.get(token.kind, PRECEDENCE_LOWEST)` -/
def prec : Tok → Nat
  | .cmp .contains => 6
  | .cmp _ => 5
  | .lg => 5
  | .and => 2
  | .or => 2
  | .not => 7
  | _ => 1

/-- `token.kind in BINARY_OPERATORS` -/
def isBin : Tok → Bool
  | .cmp _ => true
  | .lg => true
  | .and => true
  | .or => true
  | _ => false

/-- the node `parse_infix_expression` builds for an operator token -/
def mkInfix : Tok → E → E → E
  | .and, a, b => .and a b
  | .or, a, b => .or a b
  | .cmp c, a, b => .cmp c a b
  | .lg, a, b => .cmp .ne a b
  | _, a, _ => a      -- unreachable: only called when `isBin`

mutual
/-- `parse_boolean_primitive(env, tokens, precedence)`; `none` = `LiquidSyntaxError`. -/
def parsePrimS (p : Nat) (ts : List Tok) : Option (E × {r : List Tok // r.length < ts.length}) :=
  match ts with
  | [] => none
  | .atom n :: r =>
    match loopS p (.atom n) r with
    | some (e, r') => some (e, ⟨r'.1, by have := r'.2; simp only [List.length_cons]; omega⟩)
    | none => none
  | .lp :: r =>
    -- parse_grouped_expression: eat `(`, parse_boolean_primitive(LOWEST), next token must be `)`
    match parsePrimS 1 r with
    | some (e, ⟨.rp :: r', h⟩) =>
      match loopS p e r' with
      | some (e', r'') => some (e', ⟨r''.1, by
          have := r''.2; simp only [List.length_cons] at h ⊢; omega⟩)
      | none => none
    | _ => none
  | .not :: r =>
    -- LogicalNotExpression.parse: eat `not`, parse_boolean_primitive(LOWEST)
    match parsePrimS 1 r with
    | some (e, ⟨r', h⟩) =>
      match loopS p (.not e) r' with
      | some (e', r'') => some (e', ⟨r''.1, by
          have := r''.2; simp only [List.length_cons] at h ⊢; omega⟩)
      | none => none
    | none => none
  | _ :: _ => none
termination_by 2 * ts.length
decreasing_by
  all_goals simp_wf
  all_goals (try simp only [List.length_cons] at *)
  all_goals omega

/-- the `while True:` loop of `parse_boolean_primitive` with `left` already parsed -/
def loopS (p : Nat) (left : E) (ts : List Tok) : Option (E × {r : List Tok // r.length ≤ ts.length}) :=
  match ts with
  | [] => some (left, ⟨[], Nat.le_refl _⟩)
  | t :: r =>
    if prec t < p then some (left, ⟨t :: r, Nat.le_refl _⟩)
    else if !isBin t then some (left, ⟨t :: r, Nat.le_refl _⟩)
    else
      match parsePrimS (prec t) r with
      | some (right, ⟨r', h⟩) =>
        match loopS p (mkInfix t left right) r' with
        | some (e, r'') => some (e, ⟨r''.1, by
            have := r''.2; simp only [List.length_cons]; omega⟩)
        | none => none
      | none => none
termination_by 2 * ts.length + 1
decreasing_by
  all_goals simp_wf
  all_goals (try simp only [List.length_cons] at *)
  all_goals omega
end

/-- `parse_boolean_primitive` with the remaining tokens (proof component forgotten) -/
def parsePrim (p : Nat) (ts : List Tok) : Option (E × List Tok) :=
  (parsePrimS p ts).map fun x => (x.1, x.2.1)

def loop (p : Nat) (left : E) (ts : List Tok) : Option (E × List Tok) :=
  (loopS p left ts).map fun x => (x.1, x.2.1)

/-- `BooleanExpression.parse(env, tokens, inline=False)`: the whole token list must be consumed -/
def parseAll (ts : List Tok) : Option E :=
  match parsePrim 1 ts with
  | some (e, []) => some e
  | _ => none

/-! ### Meaning.  Generic in the value domain: `av` gives each atom its value, `cs` is the
comparison semantics (`_eq`, `_lt`, `_contains`), `tr` is `is_truthy`. -/
structure Sem (V : Type) where
  av : Nat → V
  cs : Cmp → V → V → V
  tr : V → Bool
  ofBool : Bool → V

def evalB {V : Type} (s : Sem V) : E → V
  | .atom n => s.av n
  | .and l r => s.ofBool (s.tr (evalB s l) && s.tr (evalB s r))
  | .or l r => s.ofBool (s.tr (evalB s l) || s.tr (evalB s r))
  | .not e => s.ofBool (!s.tr (evalB s e))
  | .cmp c l r => s.cs c (evalB s l) (evalB s r)

end LiquidVerif.BoolParse
