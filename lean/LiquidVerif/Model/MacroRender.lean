import LiquidVerif.Model.MacroArgs
/-!
A small render model for C27: `with` blocks (`liquid/extra/tags/_with.py`), `macro` / `call`
(`liquid/extra/tags/macro_tag.py`), `assign`, output and text, over the scope chain of
`liquid/context.py`.

* `RenderContext.scope` = pushed namespaces (innermost first), then `locals`, then `globals`
  (`builtin` and `counters` come last and are not modelled: the generators never use `now`, `today` or
  counters).  `globals` is itself a chain: `context.copy` builds `ReadOnlyChainMap(namespace, self.globals)`.
* `WithNode.render_to_output`: `with context.extend({a.name: a.value.evaluate(context) for a in self.args})`
  — every argument is evaluated in the *outer* scope, duplicates: last wins; `extend` raises
  `ContextDepthError` when `scope.size() > context_depth_limit` (size = `base` + number of pushed
  namespaces, where `base` = 5 in a template — locals, globals, builtin, counters and the namespace that
  `BoundTemplate.render_with_context` pushes — and 4 in a macro body, whose context is a fresh copy)
  and pops the namespace on exit (the pushed list is an argument here, not part of the returned state).
* `assign` writes to `locals` — *behind* the pushed namespaces.
* **Interrupts.** `break` / `continue` raise `BreakLoop` / `ContinueLoop`, a failing node raises a
  `LiquidError`; all three propagate as Python exceptions through blocks, `with` blocks and macro calls
  until a `for` catches the interrupt or `BoundTemplate.render_with_context` handles it (an interrupt
  outside a loop becomes `LiquidSyntaxError`; in lax mode the top-level node is abandoned and rendering
  goes on with the next one; what was written to the buffer stays).  The pushed namespaces are therefore
  part of the *state* here: `with` and `for` push explicitly and pop on **every** exit (the
  `try … finally: self.scope.pop()` of `RenderContext.extend`), and `with_scoped_on_every_exit` proves the
  stack is balanced whatever the signal.
* `{% include 'p' %}` renders the partial **in the same context**: `context.extend({})` in the tag and once
  more in `render_with_context(partial=True)` (two pushes, each with its depth check, both popped on every
  exit); locals, macros (`tag_namespace["macros"]`) are shared in both directions; interrupts pass through to
  an enclosing loop of the parent.  `{% render 'p', k: v %}` renders the partial in `context.copy(args)`:
  fresh locals, **fresh macros**, arguments in front of the caller's globals; the caller's state is
  untouched; an interrupt that reaches the partial's top level is a `LiquidSyntaxError`
  (`block_scope=True`).  Both are modelled for strict mode (in lax mode the partial's own top-level loop goes
  on after an error, which is not modelled; generators use them in strict mode only).  The harness inlines
  the partial's nodes.
* `for v in (1..n)`: `context.loop(namespace)` = `extend` (depth check, push `{forloop, v: None}`), then for
  each item `namespace[v] = item`, render the block, `ContinueLoop` → next item, `BreakLoop` → leave.
* `MacroNode` stores `(params, block)` under its name in `tag_namespace["macros"]`.
* `CallNode`: unknown macro → `str(Undefined)` = "" ; otherwise `macro_args`, then the namespace
  `{"args": [...], "kwargs": {...}}` updated with every parameter (a parameter called `args` therefore
  hides the surplus list), everything evaluated in the caller's scope; `context.copy(namespace)` raises
  `ContextDepthError` when `_copy_depth > context_depth_limit`; the copy has no locals, no pushed
  namespaces, no macros, and `globals = namespace` in front of the caller's globals.  The caller's state is
  untouched by the call.
-/
namespace LiquidVerif.MacroRender
open LiquidVerif.MacroArgs

inductive Val where
  | str (s : String)
  | int (i : Nat)            -- an item of a `(1..n)` range
  | undef
  deriving Repr, DecidableEq

/-- what a name can be bound to -/
inductive Obj where
  | val (v : Val)
  | list (xs : List Val)                 -- `args`
  | dict (kvs : List (Name × Val))       -- `kwargs`
  deriving Repr, DecidableEq

abbrev NS := List (Name × Obj)

inductive Node where
  | text (s : String)
  | out (e : Expr)                                                            -- `{{ e }}`
  | assign (n : Name) (e : Expr)                                              -- `{% assign n = e %}`
  | withB (args : List (Name × Expr)) (body : List Node)                      -- `{% with … %}…{% endwith %}`
  | macroDef (name : Name) (params : List (Name × Option Expr)) (body : List Node)
  | call (name : Name) (pos : List Expr) (kw : List (Name × Expr))
  | dumpList (n : Name)            -- `{% for x in n %}<{{ x }}>{% endfor %}`
  | dumpDict (n : Name)            -- `{% for x in n %}<{{ x[0] }}={{ x[1] }}>{% endfor %}`
  | forRange (v : Name) (n : Nat) (body : List Node)   -- `{% for v in (1..n) %}…{% endfor %}`
  | ifEq (v : Name) (k : Nat) (body : List Node)       -- `{% if v == k %}…{% endif %}`
  | brk                                                -- `{% break %}`
  | cont                                               -- `{% continue %}`
  | fail                                               -- `{{ 1 | divided_by: 0 }}`: raises a LiquidError
  | included (body : List Node)     -- `{% include 'p' %}`, `body` = the nodes of template `p` (strict mode)
  | isolated (args : List (Name × Expr)) (body : List Node)   -- `{% render 'p', k: v, … %}` (strict mode)

structure Macro where
  params : List (Name × Option Expr)     -- `macro.args`, already a dict
  body : List Node

/-- the part of the context a node can change; `pushed` = the namespaces in front of the scope chain,
innermost first -/
structure State where
  pushed : List NS
  locals : NS
  macros : List (Name × Macro)

inductive Err where
  | contextDepth           -- ContextDepthError
  | failed                 -- the error of a `fail` node (FilterArgumentError)
  | strayInterrupt         -- LiquidSyntaxError: break / continue outside a loop
  deriving Repr, DecidableEq

/-- how a node was left -/
inductive Sig where
  | normal
  | brk
  | cont
  | error (e : Err)
  deriving Repr, DecidableEq

/-- `ReadOnlyChainMap.__getitem__` over pushed namespaces, locals, the globals chain -/
def lookupChain : List NS → Name → Option Obj
  | [], _ => none
  | ns :: rest, k =>
    match dictGet ns k with
    | some o => some o
    | none => lookupChain rest k

def resolve (pushed : List NS) (locals : NS) (globals : List NS) (k : Name) : Obj :=
  match lookupChain (pushed ++ locals :: globals) k with
  | some o => o
  | none => .val .undef

def eval (pushed : List NS) (locals : NS) (globals : List NS) : Expr → Obj
  | .lit s => .val (.str s)
  | .var n => resolve pushed locals globals n

def valStr : Val → String
  | .str s => s
  | .int i => toString i
  | .undef => ""

/-- `to_liquid_string` for the values that occur (a list is joined; `kwargs` is never printed whole) -/
def objStr : Obj → String
  | .val v => valStr v
  | .list xs => String.join (xs.map valStr)
  | .dict _ => "{…}"

/-- a value stored in `args` / `kwargs`: only plain values are generated -/
def asVal : Obj → Val
  | .val v => v
  | _ => .undef

def dumpListStr : Obj → String
  | .list xs => String.join (xs.map fun v => "<" ++ valStr v ++ ">")
  | .val (.str s) => "<" ++ s ++ ">"       -- a string is a one-item sequence
  | .val (.int i) => "<" ++ toString i ++ ">"
  | .val .undef => ""
  | .dict kvs => String.join (kvs.map fun _ => "<?>")

def dumpDictStr : Obj → String
  | .dict kvs => String.join (kvs.map fun p => "<" ++ p.1 ++ "=" ++ valStr p.2 ++ ">")
  | .val .undef => ""
  | _ => "<?>"

/-- `{a.name: a.value.evaluate(context) for a in self.args}` -/
def evalArgs (pushed : List NS) (locals : NS) (globals : List NS) (args : List (Name × Expr)) : NS :=
  dictOf (args.map fun a => (a.1, eval pushed locals globals a.2))

/-- the value of a parameter: `env.undefined(name)` when nothing is bound, else the bound expression
evaluated in the caller's scope -/
def paramVal (pushed : List NS) (locals : NS) (globals : List NS) : Option Expr → Obj
  | none => .val .undef
  | some e => eval pushed locals globals e

/-- the namespace a `call` builds for the macro -/
def callNamespace (pushed : List NS) (locals : NS) (globals : List NS) (b : Bound) : NS :=
  let ev := eval pushed locals globals
  let base : NS :=
    [("args", .list (b.excessArgs.map fun e => asVal (ev e))),
     ("kwargs", .dict (b.excessKwargs.map fun p => (p.1, asVal (ev p.2))))]
  b.args.foldl (fun ns p => dictSet ns p.1 (paramVal pushed locals globals p.2)) base

/-- `self.scope.pop()` -/
def State.pop (st : State) : State := { st with pushed := st.pushed.tail }
/-- `self.scope.push(ns)` -/
def State.push (st : State) (ns : NS) : State := { st with pushed := ns :: st.pushed }

mutual
/-- `limit` = `context_depth_limit`, `depth` = `_copy_depth`, `base` = maps in the scope chain besides the
pushed ones.  Returns the state, the text written so far and how the node was left. -/
def render (limit depth base : Nat) (globals : List NS) (st : State) : Node → State × String × Sig
  | .text s => (st, s, .normal)
  | .out e => (st, objStr (eval st.pushed st.locals globals e), .normal)
  | .assign n e => ({ st with locals := dictSet st.locals n (eval st.pushed st.locals globals e) }, "", .normal)
  | .dumpList n => (st, dumpListStr (resolve st.pushed st.locals globals n), .normal)
  | .dumpDict n => (st, dumpDictStr (resolve st.pushed st.locals globals n), .normal)
  | .brk => (st, "", .brk)
  | .cont => (st, "", .cont)
  | .fail => (st, "", .error .failed)
  | .withB args body =>
    let ns := evalArgs st.pushed st.locals globals args
    if base + st.pushed.length > limit then (st, "", .error .contextDepth)
    else
      let r := renderList limit depth base globals (st.push ns) body
      -- `finally: self.scope.pop()`: on every exit
      (r.1.pop, r.2.1, r.2.2)
  | .ifEq v k body =>
    if resolve st.pushed st.locals globals v = .val (.int k) then renderList limit depth base globals st body
    else (st, "", .normal)
  | .forRange v n body =>
    if n = 0 then (st, "", .normal)
    else if base + st.pushed.length > limit then (st, "", .error .contextDepth)
    else
      let r := renderLoop limit depth base globals (st.push [(v, .val .undef)]) v 1 n body
      (r.1.pop, r.2.1, r.2.2)
  | .included body =>
    if base + st.pushed.length > limit then (st, "", .error .contextDepth)                -- extend in the tag
    else if base + (st.pushed.length + 1) > limit then (st, "", .error .contextDepth)     -- extend in render_with_context
    else
      let r := renderList limit depth base globals ((st.push []).push []) body
      (r.1.pop.pop, r.2.1, r.2.2)
  | .isolated args body =>
    let ns := evalArgs st.pushed st.locals globals args
    if depth > limit then (st, "", .error .contextDepth)
    else
      let r := renderList limit (depth + 1) 5 (ns :: globals) { pushed := [], locals := [], macros := [] } body
      (st, r.2.1, match r.2.2 with
        | .brk => .error .strayInterrupt
        | .cont => .error .strayInterrupt
        | s => s)
  | .macroDef name params body =>
    ({ st with macros := dictSet st.macros name { params := parseParams params, body := body } }, "", .normal)
  | .call name pos kw =>
    match dictGet st.macros name with
    | none => (st, "", .normal)
    | some m =>
      let ns := callNamespace st.pushed st.locals globals (macroArgs m.params pos kw)
      if depth > limit then (st, "", .error .contextDepth)
      else
        -- a fresh context; interrupts and errors of the body propagate to the caller
        let r := renderList limit (depth + 1) 4 (ns :: globals) { pushed := [], locals := [], macros := [] } m.body
        (st, r.2.1, r.2.2)
termination_by n => (limit + 1 - depth, sizeOf n, 0)
decreasing_by
  all_goals simp_wf
  all_goals first
    | (apply Prod.Lex.left; omega)
    | (apply Prod.Lex.right; apply Prod.Lex.left; omega)

def renderList (limit depth base : Nat) (globals : List NS) (st : State) : List Node → State × String × Sig
  | [] => (st, "", .normal)
  | n :: ns =>
    let r := render limit depth base globals st n
    match r.2.2 with
    | .normal =>
      let r2 := renderList limit depth base globals r.1 ns
      (r2.1, r.2.1 ++ r2.2.1, r2.2.2)
    | s => (r.1, r.2.1, s)     -- the exception leaves the block
termination_by ns => (limit + 1 - depth, sizeOf ns, 0)
decreasing_by
  all_goals simp_wf
  all_goals first
    | (apply Prod.Lex.left; omega)
    | (apply Prod.Lex.right; apply Prod.Lex.left; omega)

/-- the iterations `i, i+1, …` (`rem` of them) of a `for` block; the loop's namespace is on top of `pushed` -/
def renderLoop (limit depth base : Nat) (globals : List NS) (st : State) (v : Name) (i rem : Nat)
    (body : List Node) : State × String × Sig :=
  match rem with
  | 0 => (st, "", .normal)
  | rem' + 1 =>
    -- `namespace[name] = itm`
    let st1 : State := { st with pushed := [(v, .val (.int i))] :: st.pushed.tail }
    let r := renderList limit depth base globals st1 body
    match r.2.2 with
    | .brk => (r.1, r.2.1, .normal)
    | .error e => (r.1, r.2.1, .error e)
    | _ =>      -- normal end of the block, or `continue`
      let r2 := renderLoop limit depth base globals r.1 v (i + 1) rem' body
      (r2.1, r.2.1 ++ r2.2.1, r2.2.2)
termination_by (limit + 1 - depth, sizeOf body + 1, rem)
decreasing_by
  all_goals simp_wf
  all_goals first
    | (apply Prod.Lex.left; omega)
    | (apply Prod.Lex.right; apply Prod.Lex.left; omega)
    | (apply Prod.Lex.right; apply Prod.Lex.right; omega)
end

inductive Mode where
  | strict | lax
  deriving Repr, DecidableEq

/-- `BoundTemplate.render_with_context` over the top-level nodes: an interrupt that reaches the top is a
`LiquidSyntaxError`; `env.error` raises in strict mode and goes on with the next node in lax / warn mode. -/
def renderTop (limit : Nat) (mode : Mode) (globals : List NS) (st : State) : List Node → Except Err String
  | [] => .ok ""
  | n :: ns =>
    let r := render limit 0 5 globals st n
    let err? : Option Err := match r.2.2 with
      | .normal => none
      | .brk => some .strayInterrupt
      | .cont => some .strayInterrupt
      | .error e => some e
    match err?, mode with
    | some e, .strict => .error e
    | _, _ =>
      match renderTop limit mode globals r.1 ns with
      | .ok o => .ok (r.2.1 ++ o)
      | .error e => .error e

/-- a whole template: empty locals, no macros, depth 0 -/
def renderTemplate (limit : Nat) (mode : Mode) (globals : NS) (nodes : List Node) : Except Err String :=
  renderTop limit mode [globals] { pushed := [], locals := [], macros := [] } nodes

end LiquidVerif.MacroRender
