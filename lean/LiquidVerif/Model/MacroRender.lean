import LiquidVerif.Model.MacroArgs
/-!
A small render model for C27: `with` blocks (`liquid/extra/tags/_with.py`), `macro` / `call`
(`liquid/extra/tags/macro_tag.py`), `assign`, output and text, over the scope chain of
`liquid/context.py`.

* `RenderContext.scope` = pushed namespaces (innermost first), then `locals`, then `globals`
  (`builtin` and `counters` come last and are not modelled: the generators never use `now`, `today` or
  counters).  `globals` is itself a chain: `context.copy` builds `ReadOnlyChainMap(namespace, self.globals)`.
* `WithNode.render_to_output`: `with context.extend({a.name: a.value.evaluate(context) for a in self.args})`
  — every argument is evaluated in the *outer* scope, duplicates: last wins; `extend` raises
  `ContextDepthError` when `scope.size() > context_depth_limit` (size = `base` + number of pushed
  namespaces, where `base` = 5 in a template — locals, globals, builtin, counters and the namespace that
  `BoundTemplate.render_with_context` pushes — and 4 in a macro body, whose context is a fresh copy)
  and pops the namespace on exit (the pushed list is an argument here, not part of the returned state).
* `assign` writes to `locals` — *behind* the pushed namespaces.
* `MacroNode` stores `(params, block)` under its name in `tag_namespace["macros"]`.
* `CallNode`: unknown macro → `str(Undefined)` = "" ; otherwise `macro_args`, then the namespace
  `{"args": [...], "kwargs": {...}}` updated with every parameter (a parameter called `args` therefore
  hides the surplus list), everything evaluated in the caller's scope; `context.copy(namespace)` raises
  `ContextDepthError` when `_copy_depth > context_depth_limit`; the copy has no locals, no pushed
  namespaces, no macros, and `globals = namespace` in front of the caller's globals.  The caller's state is
  untouched by the call.
-/
namespace LiquidVerif.MacroRender
open LiquidVerif.MacroArgs

inductive Val where
  | str (s : String)
  | undef
  deriving Repr, DecidableEq

/-- what a name can be bound to -/
inductive Obj where
  | val (v : Val)
  | list (xs : List Val)                 -- `args`
  | dict (kvs : List (Name × Val))       -- `kwargs`
  deriving Repr, DecidableEq

abbrev NS := List (Name × Obj)

inductive Node where
  | text (s : String)
  | out (e : Expr)                                                            -- `{{ e }}`
  | assign (n : Name) (e : Expr)                                              -- `{% assign n = e %}`
  | withB (args : List (Name × Expr)) (body : List Node)                      -- `{% with … %}…{% endwith %}`
  | macroDef (name : Name) (params : List (Name × Option Expr)) (body : List Node)
  | call (name : Name) (pos : List Expr) (kw : List (Name × Expr))
  | dumpList (n : Name)            -- `{% for x in n %}<{{ x }}>{% endfor %}`
  | dumpDict (n : Name)            -- `{% for x in n %}<{{ x[0] }}={{ x[1] }}>{% endfor %}`

structure Macro where
  params : List (Name × Option Expr)     -- `macro.args`, already a dict
  body : List Node

/-- the part of the context a node can change -/
structure State where
  locals : NS
  macros : List (Name × Macro)

inductive Err where
  | contextDepth
  deriving Repr, DecidableEq

/-- `ReadOnlyChainMap.__getitem__` over pushed namespaces, locals, the globals chain -/
def lookupChain : List NS → Name → Option Obj
  | [], _ => none
  | ns :: rest, k =>
    match dictGet ns k with
    | some o => some o
    | none => lookupChain rest k

def resolve (pushed : List NS) (locals : NS) (globals : List NS) (k : Name) : Obj :=
  match lookupChain (pushed ++ locals :: globals) k with
  | some o => o
  | none => .val .undef

def eval (pushed : List NS) (locals : NS) (globals : List NS) : Expr → Obj
  | .lit s => .val (.str s)
  | .var n => resolve pushed locals globals n

def valStr : Val → String
  | .str s => s
  | .undef => ""

/-- `to_liquid_string` for the values that occur (a list is joined; `kwargs` is never printed whole) -/
def objStr : Obj → String
  | .val v => valStr v
  | .list xs => String.join (xs.map valStr)
  | .dict _ => "{…}"

/-- a value stored in `args` / `kwargs`: only plain values are generated -/
def asVal : Obj → Val
  | .val v => v
  | _ => .undef

def dumpListStr : Obj → String
  | .list xs => String.join (xs.map fun v => "<" ++ valStr v ++ ">")
  | .val (.str s) => "<" ++ s ++ ">"       -- a string is a one-item sequence
  | .val .undef => ""
  | .dict kvs => String.join (kvs.map fun _ => "<?>")

def dumpDictStr : Obj → String
  | .dict kvs => String.join (kvs.map fun p => "<" ++ p.1 ++ "=" ++ valStr p.2 ++ ">")
  | .val .undef => ""
  | _ => "<?>"

/-- `{a.name: a.value.evaluate(context) for a in self.args}` -/
def evalArgs (pushed : List NS) (locals : NS) (globals : List NS) (args : List (Name × Expr)) : NS :=
  dictOf (args.map fun a => (a.1, eval pushed locals globals a.2))

/-- the value of a parameter: `env.undefined(name)` when nothing is bound, else the bound expression
evaluated in the caller's scope -/
def paramVal (pushed : List NS) (locals : NS) (globals : List NS) : Option Expr → Obj
  | none => .val .undef
  | some e => eval pushed locals globals e

/-- the namespace a `call` builds for the macro -/
def callNamespace (pushed : List NS) (locals : NS) (globals : List NS) (b : Bound) : NS :=
  let ev := eval pushed locals globals
  let base : NS :=
    [("args", .list (b.excessArgs.map fun e => asVal (ev e))),
     ("kwargs", .dict (b.excessKwargs.map fun p => (p.1, asVal (ev p.2))))]
  b.args.foldl (fun ns p => dictSet ns p.1 (paramVal pushed locals globals p.2)) base

mutual
/-- `limit` = `context_depth_limit`, `depth` = `_copy_depth`, `base` = maps in the scope chain besides the pushed ones -/
def render (limit depth base : Nat) (pushed : List NS) (globals : List NS) (st : State) :
    Node → Except Err (State × String)
  | .text s => .ok (st, s)
  | .out e => .ok (st, objStr (eval pushed st.locals globals e))
  | .assign n e => .ok ({ st with locals := dictSet st.locals n (eval pushed st.locals globals e) }, "")
  | .dumpList n => .ok (st, dumpListStr (resolve pushed st.locals globals n))
  | .dumpDict n => .ok (st, dumpDictStr (resolve pushed st.locals globals n))
  | .withB args body =>
    let ns := evalArgs pushed st.locals globals args
    if base + pushed.length > limit then .error .contextDepth
    else renderList limit depth base (ns :: pushed) globals st body
  | .macroDef name params body =>
    .ok ({ st with macros := dictSet st.macros name { params := parseParams params, body := body } }, "")
  | .call name pos kw =>
    match dictGet st.macros name with
    | none => .ok (st, "")
    | some m =>
      let ns := callNamespace pushed st.locals globals (macroArgs m.params pos kw)
      if depth > limit then .error .contextDepth
      else
        match renderList limit (depth + 1) 4 [] (ns :: globals) { locals := [], macros := [] } m.body with
        | .error e => .error e
        | .ok (_, o) => .ok (st, o)
termination_by n => (limit + 1 - depth, sizeOf n)
decreasing_by
  all_goals simp_wf
  · apply Prod.Lex.right; omega
  · apply Prod.Lex.left; omega

def renderList (limit depth base : Nat) (pushed : List NS) (globals : List NS) (st : State) :
    List Node → Except Err (State × String)
  | [] => .ok (st, "")
  | n :: ns =>
    match render limit depth base pushed globals st n with
    | .error e => .error e
    | .ok (st1, o1) =>
      match renderList limit depth base pushed globals st1 ns with
      | .error e => .error e
      | .ok (st2, o2) => .ok (st2, o1 ++ o2)
termination_by ns => (limit + 1 - depth, sizeOf ns)
decreasing_by
  all_goals simp_wf
  · apply Prod.Lex.right; omega
  · apply Prod.Lex.right; omega
end

/-- a whole template: empty locals, no macros, depth 0 -/
def renderTemplate (limit : Nat) (globals : NS) (nodes : List Node) : Except Err String :=
  match renderList limit 0 5 [] [globals] { locals := [], macros := [] } nodes with
  | .ok (_, o) => .ok o
  | .error e => .error e

end LiquidVerif.MacroRender
