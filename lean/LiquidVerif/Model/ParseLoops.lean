/-!
Model of every loop of the template parser of python-liquid (property C09, sentence "Parsing any source text
finishes promptly … including unterminated and unbalanced block tags").

Anchors, mirrored as written (stream = the list of tokens not yet consumed; `stream.current` = its head, EOF when
empty; `next(stream)` = tail, a no-op at EOF):

* `liquid/parser.py`  `Parser._parse` and `Parser.parse_block` (`blockLoop`, `parseBlock`): dispatch on the current
                      token to `Tag.get_node`, `except LiquidError: env.error(err)`, then **`next(stream)`**;
                      `parse_block` raises BlockNestingError when `stream.block_depth` exceeds
                      `block_nesting_limit` and decrements the depth only on normal exit;
                      `eat_block` (`eatBlock`).
* `liquid/tag.py`     `Tag.get_node` (`recover`): `except LiquidError: env.error(err)` (STRICT re-raises); for a block
                      tag `eat_block(stream, (self.end,))`; `IllegalNode`.
* `liquid/builtin/tags/if_tag.py`, `unless_tag.py` (`parseIf`, `ifTail`, `ifElse`, `ifEnd`): the `elsif` loop with
                      its own `try/except` + `eat_block`, the `else` part (a superfluous expression is skipped), the
                      loop that ignores extraneous `else`/`elsif` blocks, `expect(endif)`.
* `liquid/builtin/tags/case_tag.py` (`parseCase`, `caseLoop`): the junk-skipping loop after `case`, the
                      `while not endcase` loop — the loop of the 2.2.1 `{% case %}` hang.
* `for_tag.py`, `capture_tag.py` (`parseFor`, `parseSimpleBlock`), `comment_tag.py`, `doc_tag.py` (`docScan`),
  `liquid_tag.py` (`parseLiquid`, as fixed by eb7b1a1: no expression → empty block and nothing consumed; else
  `parse_block` on the stream of the tag's own line tokens, carried by the token as `inner`), `assign_tag.py`, `for_tag.BreakTag`, `builtin/illegal.py`,
  `builtin/output.py`, `builtin/content.py`.

Abstracted: token values other than tag names; expressions are assumed well-formed when present (a *missing*
expression is modelled: the token is absent).  The parse tree is reduced to a bracketed skeleton of node kinds.

Every function returns its result together with a proof that the remaining stream is not heavier than the one
it was given (`Res`); that is what lets Lean accept the loops **without fuel**: a loop continues on the tail of
what the dispatched tag parser left, which is strictly lighter than what the iteration started with.
`iters` (ghost) counts the completed iterations of all loops (a pass that raises ends the loop and is not counted).
-/
namespace LiquidVerif.ParseLoops

inductive Tok where
  | tag (name : String)
  /-- an expression token; `inner` = what `LiquidTag._tokenize` makes of its text (used after a `liquid` tag) -/
  | expr (inner : List Tok)
  | content | output | comment | doc

structure Cfg where
  lax : Bool        -- env.mode != STRICT
  limit : Nat       -- block_nesting_limit

inductive Err where
  | syntax | nesting     -- LiquidSyntaxError, BlockNestingError
  deriving DecidableEq, Repr

structure PR where
  out : List String      -- skeleton of the nodes produced
  rest : List Tok        -- the stream afterwards
  depth : Nat            -- stream.block_depth afterwards
  iters : Nat            -- GHOST: loop iterations
  err : Option Err       -- an exception is propagating
  repl : Bool := false   -- the tag parser returned an IllegalNode instead of its node

mutual
def Tok.weight : Tok → Nat
  | .expr inner => 1 + wl inner
  | _ => 1
def wl : List Tok → Nat
  | [] => 0
  | t :: ts => t.weight + wl ts
end

theorem Tok.weight_pos (t : Tok) : 1 ≤ t.weight := by
  cases t <;> simp [Tok.weight] <;> omega

theorem wl_cons (t : Tok) (ts : List Tok) : wl (t :: ts) = t.weight + wl ts := by simp [wl]

theorem wl_le_cons (t : Tok) (r : List Tok) : wl r ≤ wl (t :: r) := by simp only [wl_cons]; omega

theorem wl_tail_le (ts : List Tok) : wl ts.tail ≤ wl ts := by
  cases ts with
  | nil => simp [wl]
  | cons t r => simp only [List.tail, wl_cons]; omega

/-- `next(stream)` after a tag parser that started at a non-empty stream: strictly lighter than that stream -/
theorem wl_tail_lt {us : List Tok} {t : Tok} {r : List Tok} (h : wl us ≤ wl (t :: r)) : wl us.tail < wl (t :: r) := by
  cases us with
  | nil => simp only [List.tail, wl_cons]; have := t.weight_pos; simp [wl]; omega
  | cons u us' =>
    simp only [List.tail, wl_cons] at *
    have := u.weight_pos; omega

abbrev Res (ts : List Tok) := { r : PR // wl r.rest ≤ wl ts }

def Res.lift {ts ts' : List Tok} (h : wl ts' ≤ wl ts) (r : Res ts') : Res ts := ⟨r.1, Nat.le_trans r.2 h⟩

def Tok.isTag (n : String) : Tok → Bool
  | .tag m => m == n
  | _ => false

def Tok.isTagIn (ns : List String) : Tok → Bool
  | .tag m => ns.contains m
  | _ => false

def Tok.anyTag : Tok → Bool
  | .tag _ => true
  | _ => false

/-- `while current != EOF: if p(current): break; next(stream)` -/
def skipUntil (p : Tok → Bool) : List Tok → List Tok
  | [] => []
  | t :: r => if p t then t :: r else skipUntil p r

theorem skipUntil_le (p : Tok → Bool) (ts : List Tok) : wl (skipUntil p ts) ≤ wl ts := by
  induction ts with
  | nil => simp [skipUntil]
  | cons t r ih =>
    simp only [skipUntil]
    split
    · exact Nat.le_refl _
    · simp only [wl_cons]; omega

/-- `eat_block(stream, end)` -/
def eatBlock (ends : List String) (ts : List Tok) : List Tok := skipUntil (Tok.isTagIn ends) ts

def ok (out : List String) (rest : List Tok) (d it : Nat) : PR := ⟨out, rest, d, it, none, false⟩
def failed (e : Err) (rest : List Tok) (d it : Nat) : PR := ⟨[], rest, d, it, some e, false⟩

/-- `Tag.get_node` around a tag's `parse`: what happens to an exception -/
def recover (cfg : Cfg) (blockEnd : Option String) {ts : List Tok} (p : Res ts) (kind : String) : Res ts :=
  match p.1.err with
  | none => if p.1.repl then ⟨{ p.1 with out := ["illegal"], repl := false }, p.2⟩
            else ⟨{ p.1 with out := kind :: p.1.out }, p.2⟩
  | some _ =>
    if !cfg.lax then p else
    match blockEnd with
    | none => ⟨ok ["illegal"] p.1.rest p.1.depth p.1.iters, p.2⟩
    | some en =>
      ⟨ok ["illegal"] (eatBlock [en] p.1.rest) p.1.depth (p.1.iters + (p.1.rest.length - (eatBlock [en] p.1.rest).length)),
       Nat.le_trans (skipUntil_le _ _) p.2⟩

/-- the end of `IfTag.parse`: ignore extraneous blocks up to the end tag, `stream.expect(TOKEN_TAG, end)` -/
def ifEnd (endName : String) (d : Nat) (out : List String) (it : Nat) (ts : List Tok) : Res ts :=
  let rest := skipUntil (Tok.isTag endName) ts
  match rest with
  | [] => ⟨failed .syntax [] d (it + ts.length), by simp [failed, wl]⟩
  | _ => ⟨ok out rest d (it + (ts.length - rest.length)), skipUntil_le _ _⟩

/-- the loop of `DocTag.parse` (malformed `doc` tag): `some rest` = reached `enddoc`; `none` = raised, at `rest` -/
def docScan : List Tok → (Bool × List Tok)
  | [] => (false, [])
  | t :: r => if t.isTag "doc" then (false, t :: r) else if t.isTag "enddoc" then (true, t :: r) else docScan r

theorem docScan_le (ts : List Tok) : wl (docScan ts).2 ≤ wl ts := by
  induction ts with
  | nil => simp [docScan]
  | cons t r ih =>
    simp only [docScan]
    split
    · exact Nat.le_refl _
    · split
      · exact Nat.le_refl _
      · simp only [wl_cons]; omega

def headIsExpr : List Tok → Bool
  | .expr _ :: _ => true
  | _ => false

def blockTagEnd (n : String) : Option String :=
  if n == "if" then some "endif" else if n == "unless" then some "endunless" else if n == "case" then some "endcase"
  else if n == "for" then some "endfor" else if n == "capture" then some "endcapture"
  else if n == "comment" then some "endcomment" else if n == "doc" then some "enddoc" else none

/-- termination of the parser loops: same stream and a lower rank, or a strictly lighter stream -/
macro "parse_dec" : tactic => `(tactic|
  (all_goals simp_wf
   all_goals first
     | (apply Prod.Lex.right; omega)
     | (apply Prod.Lex.left; exact wl_tail_lt (by assumption))
     | (apply Prod.Lex.left; simp only [wl_cons, Tok.weight] at *; omega)
     | (apply Prod.Lex.left
        have := skipUntil_le Tok.anyTag ‹List Tok›
        simp only [wl_cons, Tok.weight] at *; omega)))

mutual
/-- the `while stream.current.kind != TOKEN_EOF` loop of `parse_block` (and, with `ends = []`, of `_parse`);
`d` is `stream.block_depth` -/
def blockLoop (cfg : Cfg) (ends : List String) (d : Nat) (ts : List Tok) : Res ts :=
  match ts with
  | [] => ⟨ok [] [] d 0, Nat.le_refl _⟩
  | t :: r =>
    if t.isTagIn ends then ⟨ok [] (t :: r) d 0, Nat.le_refl _⟩ else
    match getNode cfg d t r with
    | ⟨g, hg⟩ =>
      match g.err with
      | some _ => ⟨g, hg⟩                                       -- STRICT: `env.error` re-raises (a pass that raises is not counted)
      | none =>
        match blockLoop cfg ends g.depth g.rest.tail with        -- `next(stream)`
        | ⟨l, hl⟩ =>
          ⟨{ out := g.out ++ l.out, rest := l.rest, depth := l.depth, iters := g.iters + 1 + l.iters, err := l.err },
           Nat.le_trans hl (Nat.le_trans (wl_tail_le _) hg)⟩
termination_by (wl ts, 5)
decreasing_by parse_dec

/-- `Parser.parse_block(stream, end)` -/
def parseBlock (cfg : Cfg) (ends : List String) (d : Nat) (ts : List Tok) : Res ts :=
  if d + 1 > cfg.limit then ⟨failed .nesting ts (d + 1) 0, Nat.le_refl _⟩
  else
    match blockLoop cfg ends (d + 1) ts with
    | ⟨l, hl⟩ =>
      match l.err with
      | some _ => ⟨l, hl⟩
      | none => ⟨{ l with out := "(" :: l.out ++ [")"], depth := l.depth - 1 }, hl⟩
termination_by (wl ts, 6)
decreasing_by parse_dec

/-- `tags.get(…).get_node(stream)` for the current token `t` (the stream is `t :: r`) -/
def getNode (cfg : Cfg) (d : Nat) (t : Tok) (r : List Tok) : Res (t :: r) :=
  match t with
  | .output =>
    -- `Output.parse`: eat OUTPUT, expect EXPRESSION
    if headIsExpr r then ⟨ok ["output"] r d 0, (wl_le_cons _ _)⟩
    else recover cfg none ⟨failed .syntax r d 0, (wl_le_cons _ _)⟩ "output"
  | .doc => ⟨ok ["doc"] (.doc :: r) d 0, Nat.le_refl _⟩
  | .comment => ⟨ok ["comment"] (.comment :: r) d 0, Nat.le_refl _⟩
  | .content => ⟨ok ["content"] (.content :: r) d 0, Nat.le_refl _⟩
  | .expr inner => recover cfg none ⟨failed .syntax (.expr inner :: r) d 0, Nat.le_refl _⟩ "content"
  | .tag n =>
    if n == "if" then recover cfg (some "endif") ((parseIf cfg "endif" d r).lift (wl_le_cons _ _)) "if"
    else if n == "unless" then recover cfg (some "endunless") ((parseIf cfg "endunless" d r).lift (wl_le_cons _ _)) "unless"
    else if n == "case" then recover cfg (some "endcase") ((parseCase cfg d r).lift (wl_le_cons _ _)) "case"
    else if n == "for" then recover cfg (some "endfor") ((parseFor cfg d r).lift (wl_le_cons _ _)) "for"
    else if n == "capture" then recover cfg (some "endcapture") ((parseCapture cfg d r).lift (wl_le_cons _ _)) "capture"
    else if n == "liquid" then
      -- `LiquidTag.parse` (repo fix eb7b1a1): `expect(TOKEN_TAG)`; no expression next → empty block, nothing consumed
      if headIsExpr r then recover cfg none ((parseLiquid cfg d r).lift (wl_le_cons _ _)) "liquid"
      else ⟨ok ["liquid", "(", ")"] (.tag n :: r) d 0, Nat.le_refl _⟩
    else if n == "comment" then
      -- `{% comment %}` as a tag: scan to `endcomment`; EOF raises
      recover cfg (some "endcomment")
        (if (skipUntil (Tok.isTag "endcomment") r).isEmpty then ⟨failed .syntax [] d r.length, by simp [failed, wl]⟩
         else ⟨ok [] (skipUntil (Tok.isTag "endcomment") r) d (r.length - (skipUntil (Tok.isTag "endcomment") r).length),
               Nat.le_trans (skipUntil_le _ _) (wl_le_cons _ _)⟩) "comment"
    else if n == "doc" then
      recover cfg (some "enddoc")
        (if headIsExpr r then ⟨failed .syntax r d 0, (wl_le_cons _ _)⟩                       -- unexpected expression
         else if (docScan r).1 then ⟨ok [] (docScan r).2 d (r.length - (docScan r).2.length), Nat.le_trans (docScan_le _) (wl_le_cons _ _)⟩
         else ⟨failed .syntax (docScan r).2 d (r.length - (docScan r).2.length), Nat.le_trans (docScan_le _) (wl_le_cons _ _)⟩) "doc"
    else if n == "assign" then
      if headIsExpr r then ⟨ok ["assign"] r d 0, (wl_le_cons _ _)⟩                           -- into_inner(eat=False)
      else recover cfg none ⟨failed .syntax r d 0, (wl_le_cons _ _)⟩ "assign"
    else if n == "break" then ⟨ok ["break"] (.tag n :: r) d 0, Nat.le_refl _⟩
    else
      -- `Illegal.parse`: `if stream.peek.kind == TOKEN_EXPRESSION: next(stream)`; raise
      if headIsExpr r then recover cfg none ⟨failed .syntax r d 0, (wl_le_cons _ _)⟩ "illegal"
      else recover cfg none ⟨failed .syntax (.tag n :: r) d 0, Nat.le_refl _⟩ "illegal"
termination_by (wl (t :: r), 4)
decreasing_by parse_dec

/-- `IfTag.parse` / `UnlessTag.parse` after `stream.eat(TOKEN_TAG)` -/
def parseIf (cfg : Cfg) (endName : String) (d : Nat) (r : List Tok) : Res r :=
  match r with
  | .expr i :: r1 =>                                                        -- into_inner (eats)
    match parseBlock cfg [endName, "elsif", "else"] d r1 with
    | ⟨b, hb⟩ =>
      match b.err with
      | some _ => ⟨b, Nat.le_trans hb (wl_le_cons _ _)⟩
      | none =>
        match ifTail cfg endName b.depth b.rest with
        | ⟨a, ha⟩ =>
          ⟨{ a with out := b.out ++ a.out, iters := b.iters + a.iters }, Nat.le_trans ha (Nat.le_trans hb (wl_le_cons _ _))⟩
  | rest => ⟨failed .syntax rest d 0, Nat.le_refl _⟩                            -- missing expression
termination_by (wl r, 3)
decreasing_by parse_dec

/-- the `while stream.current.is_tag(TAG_ELSIF)` loop, then the rest of `IfTag.parse` -/
def ifTail (cfg : Cfg) (endName : String) (d : Nat) (ts : List Tok) : Res ts :=
  match ts with
  | .tag n :: r =>
    if n == "elsif" then
      match r with                                                          -- `next(stream)` took the elsif tag
      | .expr i :: r1 =>
        match parseBlock cfg [endName, "elsif", "else"] d r1 with
        | ⟨b, hb⟩ =>
          match b.err with
          | some _ => ⟨{ b with iters := b.iters + 1 }, Nat.le_trans hb (Nat.le_trans (wl_le_cons _ _) (wl_le_cons _ _))⟩
          | none =>
            match ifTail cfg endName b.depth b.rest with
            | ⟨a, ha⟩ =>
              ⟨{ a with out := b.out ++ a.out, iters := b.iters + 1 + a.iters },
               Nat.le_trans ha (Nat.le_trans hb (Nat.le_trans (wl_le_cons _ _) (wl_le_cons _ _)))⟩
      | rest =>
        -- missing expression: `except LiquidSyntaxError: env.error(err); eat_block(stream, ENDELSIFBLOCK); return IllegalNode`
        if !cfg.lax then ⟨failed .syntax rest d 1, (wl_le_cons _ _)⟩
        else
          ⟨{ out := [], rest := eatBlock [endName, "elsif", "else"] rest, depth := d,
             iters := 1 + (rest.length - (eatBlock [endName, "elsif", "else"] rest).length), err := none, repl := true },
           Nat.le_trans (skipUntil_le _ _) (wl_le_cons _ _)⟩
    else ifElse cfg endName d (.tag n :: r)
  | ts => ifElse cfg endName d ts
termination_by (wl ts, 2)
decreasing_by parse_dec

/-- `if stream.current.is_tag(TAG_ELSE)` … to the end of `IfTag.parse` -/
def ifElse (cfg : Cfg) (endName : String) (d : Nat) (ts : List Tok) : Res ts :=
  match ts with
  | .tag n :: r =>
    if n == "else" then
      -- `next(stream)`; a superfluous expression is skipped (the tag's own mode is LAX)
      match r with
      | .expr i :: r1 =>
        match parseBlock cfg [endName, "else", "elsif"] d r1 with
        | ⟨b, hb⟩ =>
          match b.err with
          | some _ => ⟨b, Nat.le_trans hb (Nat.le_trans (wl_le_cons _ _) (wl_le_cons _ _))⟩
          | none => (ifEnd endName b.depth b.out b.iters b.rest).lift (Nat.le_trans hb (Nat.le_trans (wl_le_cons _ _) (wl_le_cons _ _)))
      | r =>
        match parseBlock cfg [endName, "else", "elsif"] d r with
        | ⟨b, hb⟩ =>
          match b.err with
          | some _ => ⟨b, Nat.le_trans hb (wl_le_cons _ _)⟩
          | none => (ifEnd endName b.depth b.out b.iters b.rest).lift (Nat.le_trans hb (wl_le_cons _ _))
    else ifEnd endName d [] 0 (.tag n :: r)
  | ts => ifEnd endName d [] 0 ts
termination_by (wl ts, 1)
decreasing_by parse_dec

/-- `CaseTag.parse` after `stream.eat(TOKEN_TAG)` -/
def parseCase (cfg : Cfg) (d : Nat) (r : List Tok) : Res r :=
  match r with
  | .expr i :: r1 =>
    -- "Eat whitespace or junk between `case` and when/else/endcase"
    match caseLoop cfg d (skipUntil Tok.anyTag r1) with
    | ⟨a, ha⟩ =>
      ⟨{ a with iters := a.iters + (r1.length - (skipUntil Tok.anyTag r1).length) },
       Nat.le_trans ha (Nat.le_trans (skipUntil_le _ _) (wl_le_cons _ _))⟩
  | rest => ⟨failed .syntax rest d 0, Nat.le_refl _⟩
termination_by (wl r, 3)
decreasing_by parse_dec

/-- `while not stream.current.is_tag(TAG_ENDCASE)`, then `expect(endcase)` -/
def caseLoop (cfg : Cfg) (d : Nat) (ts : List Tok) : Res ts :=
  match ts with
  | .tag n :: r =>
    if n == "endcase" then ⟨ok [] (.tag n :: r) d 0, Nat.le_refl _⟩
    else if n == "else" then
      match parseBlock cfg ["endcase", "when", "else"] d r with
      | ⟨b, hb⟩ =>
        match b.err with
        | some _ => ⟨{ b with iters := b.iters + 1 }, Nat.le_trans hb (wl_le_cons _ _)⟩
        | none =>
          match caseLoop cfg b.depth b.rest with
          | ⟨a, ha⟩ => ⟨{ a with out := b.out ++ a.out, iters := b.iters + 1 + a.iters }, Nat.le_trans ha (Nat.le_trans hb (wl_le_cons _ _))⟩
    else if n == "when" then
      match r with
      | .expr i :: r1 =>
        match parseBlock cfg ["endcase", "when", "else"] d r1 with
        | ⟨b, hb⟩ =>
          match b.err with
          | some _ => ⟨{ b with iters := b.iters + 1 }, Nat.le_trans hb (Nat.le_trans (wl_le_cons _ _) (wl_le_cons _ _))⟩
          | none =>
            match caseLoop cfg b.depth b.rest with
            | ⟨a, ha⟩ =>
              ⟨{ a with out := b.out ++ a.out, iters := b.iters + 1 + a.iters },
               Nat.le_trans ha (Nat.le_trans hb (Nat.le_trans (wl_le_cons _ _) (wl_le_cons _ _)))⟩
      | rest => ⟨failed .syntax rest d 1, (wl_le_cons _ _)⟩                             -- `when` without an expression
    else ⟨failed .syntax (.tag n :: r) d 0, Nat.le_refl _⟩                -- unexpected tag
  | ts => ⟨failed .syntax ts d 0, Nat.le_refl _⟩                          -- EOF (the 2.2.1 hang) or a stray token
termination_by (wl ts, 2)
decreasing_by parse_dec

/-- `ForTag.parse` after `stream.eat(TOKEN_TAG)` -/
def parseFor (cfg : Cfg) (d : Nat) (r : List Tok) : Res r :=
  match r with
  | .expr i :: r1 =>
    match parseBlock cfg ["endfor", "else"] d r1 with
    | ⟨b, hb⟩ =>
      match b.err with
      | some _ => ⟨b, Nat.le_trans hb (wl_le_cons _ _)⟩
      | none =>
        match b.rest, hb with
        | .tag n :: r2, hb =>
          if n == "else" then
            match parseBlock cfg ["endfor"] b.depth r2 with
            | ⟨b2, hb2⟩ =>
              match b2.err with
              | some _ => ⟨{ b2 with iters := b.iters + b2.iters }, Nat.le_trans hb2 (Nat.le_trans (wl_le_cons _ _) (Nat.le_trans hb (wl_le_cons _ _)))⟩
              | none =>
                match b2.rest, hb2 with
                | .tag m :: r3, hb2 =>
                  if m == "endfor" then
                    ⟨ok (b.out ++ b2.out) (.tag m :: r3) b2.depth (b.iters + b2.iters), Nat.le_trans hb2 (Nat.le_trans (wl_le_cons _ _) (Nat.le_trans hb (wl_le_cons _ _)))⟩
                  else ⟨failed .syntax (.tag m :: r3) b2.depth (b.iters + b2.iters), Nat.le_trans hb2 (Nat.le_trans (wl_le_cons _ _) (Nat.le_trans hb (wl_le_cons _ _)))⟩
                | rest, hb2 => ⟨failed .syntax rest b2.depth (b.iters + b2.iters), Nat.le_trans hb2 (Nat.le_trans (wl_le_cons _ _) (Nat.le_trans hb (wl_le_cons _ _)))⟩
          else if n == "endfor" then ⟨ok b.out (.tag n :: r2) b.depth b.iters, Nat.le_trans hb (wl_le_cons _ _)⟩
          else ⟨failed .syntax (.tag n :: r2) b.depth b.iters, Nat.le_trans hb (wl_le_cons _ _)⟩
        | rest, hb => ⟨failed .syntax rest b.depth b.iters, Nat.le_trans hb (wl_le_cons _ _)⟩
  | rest => ⟨failed .syntax rest d 0, Nat.le_refl _⟩
termination_by (wl r, 3)
decreasing_by parse_dec

/-- `CaptureTag.parse` after `stream.eat(TOKEN_TAG)` -/
def parseCapture (cfg : Cfg) (d : Nat) (r : List Tok) : Res r :=
  match r with
  | .expr i :: r1 =>
    match parseBlock cfg ["endcapture"] d r1 with
    | ⟨b, hb⟩ =>
      match b.err with
      | some _ => ⟨b, Nat.le_trans hb (wl_le_cons _ _)⟩
      | none =>
        match b.rest, hb with
        | .tag n :: r2, hb =>
          if n == "endcapture" then ⟨ok b.out (.tag n :: r2) b.depth b.iters, Nat.le_trans hb (wl_le_cons _ _)⟩
          else ⟨failed .syntax (.tag n :: r2) b.depth b.iters, Nat.le_trans hb (wl_le_cons _ _)⟩
        | rest, hb => ⟨failed .syntax rest b.depth b.iters, Nat.le_trans hb (wl_le_cons _ _)⟩
  | rest => ⟨failed .syntax rest d 0, Nat.le_refl _⟩
termination_by (wl r, 3)
decreasing_by parse_dec

/-- `LiquidTag.parse` after `next(stream)` moved to the expression token -/
def parseLiquid (cfg : Cfg) (d : Nat) (r : List Tok) : Res r :=
  match r with
  | .expr inner :: r1 =>
    -- a new stream of the tag's own line tokens, `block_depth_carry=stream.block_depth`; the outer stream stays
    -- on the expression token and keeps its depth
    match parseBlock cfg [] d inner with
    | ⟨b, _⟩ => ⟨{ b with rest := .expr inner :: r1, depth := d }, Nat.le_refl _⟩
  | rest => ⟨failed .syntax rest d 0, Nat.le_refl _⟩                      -- expect(TOKEN_EXPRESSION) (not reached: the caller looked)
termination_by (wl r, 7)
decreasing_by parse_dec
end

/-- `Parser.parse(stream)` = `list(self._parse(stream))`: the same loop with no end tags, at block depth 0 -/
def parseTemplate (cfg : Cfg) (ts : List Tok) : PR := (blockLoop cfg [] 0 ts).1

end LiquidVerif.ParseLoops
