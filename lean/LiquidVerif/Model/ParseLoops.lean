/-!
Model of every loop of the template parser of python-liquid (property C09, sentence "Parsing any source text
finishes promptly … including unterminated and unbalanced block tags").

Anchors, mirrored as written (stream = the list of tokens not yet consumed; `stream.current` = its head, EOF when
empty; `next(stream)` = tail, a no-op at EOF):

* `liquid/parser.py`  `Parser._parse` and `Parser.parse_block` (`blockLoop`, `parseBlock`): dispatch on the current
                      token to `Tag.get_node`, `except LiquidError: env.error(err)`, then **`next(stream)`**;
                      `parse_block` raises BlockNestingError when `stream.block_depth` exceeds
                      `block_nesting_limit` and decrements the depth only on normal exit;
                      `eat_block` (`eatBlock`).
* `liquid/tag.py`     `Tag.get_node` (`recover`): `except LiquidError: env.error(err)` (STRICT re-raises); for a block
                      tag `eat_block(stream, (self.end,))`; `IllegalNode`.
* `liquid/builtin/tags/if_tag.py`, `unless_tag.py` (`parseIf`, `ifTail`, `ifElse`, `ifEnd`): the `elsif` loop with
                      its own `try/except` + `eat_block`, the `else` part (a superfluous expression is skipped), the
                      loop that ignores extraneous `else`/`elsif` blocks, `expect(endif)`.
* `liquid/builtin/tags/case_tag.py` (`parseCase`, `caseLoop`): the junk-skipping loop after `case`, the
                      `while not endcase` loop — the loop of the 2.2.1 `{% case %}` hang.
* `for_tag.py`, `capture_tag.py` (`parseFor`, `parseSimpleBlock`), `comment_tag.py`, `doc_tag.py` (`docScan`),
  `liquid_tag.py` (`parseLiquid`, as fixed by eb7b1a1: no expression → empty block and nothing consumed; else
  `parse_block` on the stream of the tag's own line tokens, carried by the token as `inner`), `assign_tag.py`, `for_tag.BreakTag`, `builtin/illegal.py`,
  `builtin/output.py`, `builtin/content.py`.

Abstracted: token values other than tag names; expressions are assumed well-formed when present (a *missing*
expression is modelled: the token is absent).  The parse tree is reduced to a bracketed skeleton of node kinds.

Every function returns its result together with a proof (`Good`, `GoodN`) that the remaining stream is not heavier
than the one it was given and that the loop passes it made are paid for by the tokens it consumed; that is what lets Lean accept the loops **without fuel**: a loop continues on the tail of
what the dispatched tag parser left, which is strictly lighter than what the iteration started with.
`iters` (ghost) counts the completed iterations of all loops (a pass that raises ends the loop and is not counted).
-/
namespace LiquidVerif.ParseLoops

inductive Tok where
  | tag (name : String)
  /-- an expression token; `inner` = what `LiquidTag._tokenize` makes of its text (used after a `liquid` tag) -/
  | expr (inner : List Tok)
  | content | output | comment | doc

structure Cfg where
  lax : Bool        -- env.mode != STRICT
  limit : Nat       -- block_nesting_limit

inductive Err where
  | syntax | nesting     -- LiquidSyntaxError, BlockNestingError
  deriving DecidableEq, Repr

structure PR where
  out : List String      -- skeleton of the nodes produced
  rest : List Tok        -- the stream afterwards
  depth : Nat            -- stream.block_depth afterwards
  iters : Nat            -- GHOST: loop iterations
  err : Option Err       -- an exception is propagating
  repl : Bool := false   -- the tag parser returned an IllegalNode instead of its node

mutual
def Tok.weight : Tok → Nat
  | .expr inner => 1 + wl inner
  | _ => 1
def wl : List Tok → Nat
  | [] => 0
  | t :: ts => t.weight + wl ts
end

theorem Tok.weight_pos (t : Tok) : 1 ≤ t.weight := by
  cases t <;> simp [Tok.weight] <;> omega

theorem wl_cons (t : Tok) (ts : List Tok) : wl (t :: ts) = t.weight + wl ts := by simp [wl]

theorem wl_le_cons (t : Tok) (r : List Tok) : wl r ≤ wl (t :: r) := by simp only [wl_cons]; omega

theorem wl_tail_le (ts : List Tok) : wl ts.tail ≤ wl ts := by
  cases ts with
  | nil => simp [wl]
  | cons t r => simp only [List.tail, wl_cons]; omega

/-- `next(stream)` after a tag parser that started at a non-empty stream: strictly lighter than that stream -/
theorem wl_tail_lt {us : List Tok} {t : Tok} {r : List Tok} (h : wl us ≤ wl (t :: r)) : wl us.tail < wl (t :: r) := by
  cases us with
  | nil => simp only [List.tail, wl_cons]; have := t.weight_pos; simp [wl]; omega
  | cons u us' =>
    simp only [List.tail, wl_cons] at *
    have := u.weight_pos; omega

def Tok.isTag (n : String) : Tok → Bool
  | .tag m => m == n
  | _ => false

def Tok.isTagIn (ns : List String) : Tok → Bool
  | .tag m => ns.contains m
  | _ => false

def Tok.anyTag : Tok → Bool
  | .tag _ => true
  | _ => false

/-- `while current != EOF: if p(current): break; next(stream)` -/
def skipUntil (p : Tok → Bool) : List Tok → List Tok
  | [] => []
  | t :: r => if p t then t :: r else skipUntil p r

theorem skipUntil_le (p : Tok → Bool) (ts : List Tok) : wl (skipUntil p ts) ≤ wl ts := by
  induction ts with
  | nil => simp [skipUntil]
  | cons t r ih =>
    simp only [skipUntil]
    split
    · exact Nat.le_refl _
    · simp only [wl_cons]; omega

/-- `eat_block(stream, end)` -/
def eatBlock (ends : List String) (ts : List Tok) : List Tok := skipUntil (Tok.isTagIn ends) ts


theorem length_le_wl (ts : List Tok) : ts.length ≤ wl ts := by
  induction ts with
  | nil => simp [wl]
  | cons t r ih => simp only [List.length_cons, wl_cons]; have := t.weight_pos; omega

theorem skipUntil_length_le (p : Tok → Bool) (ts : List Tok) : (skipUntil p ts).length ≤ ts.length := by
  induction ts with
  | nil => simp [skipUntil]
  | cons a b ih => simp only [skipUntil]; split <;> simp <;> omega

/-- a skipping loop makes one pass per token it drops, and every token weighs at least 1 -/
theorem skip_cost (p : Tok → Bool) (ts : List Tok) :
    (ts.length - (skipUntil p ts).length) + wl (skipUntil p ts) ≤ wl ts := by
  induction ts with
  | nil => simp [skipUntil, wl]
  | cons t r ih =>
    simp only [skipUntil]
    split
    · simp
    · have := t.weight_pos
      have hl : (skipUntil p r).length ≤ r.length := by
        clear ih; induction r with
        | nil => simp [skipUntil]
        | cons a b ihb => simp only [skipUntil]; split <;> simp <;> omega
      simp only [List.length_cons, wl_cons]; omega

/-- **The potential of a stream for counting loop passes**: the head token counts 1 whatever it carries (the
line tokens inside the expression of a `liquid` tag are spent by the passes over the inner stream while the
expression token itself is still the current token), the rest counts its weight. -/
def phi : List Tok → Nat
  | [] => 0
  | _ :: r => 1 + wl r

theorem phi_le_wl (ts : List Tok) : phi ts ≤ wl ts := by
  cases ts with
  | nil => simp [phi]
  | cons t r => simp only [phi, wl_cons]; have := t.weight_pos; omega

theorem phi_le_tail (ts : List Tok) : phi ts ≤ 1 + wl ts.tail := by
  cases ts with
  | nil => simp [phi]
  | cons t r => simp [phi]

/-- from the potential bound on `r` to "the pass is paid after `next`" on `t :: r` -/
theorem pay_next (t : Tok) (r : List Tok) (rest : List Tok) (it : Nat) (hk : it + phi rest ≤ wl r) :
    it + 1 + wl rest.tail ≤ wl (t :: r) := by
  have := t.weight_pos
  cases rest with
  | nil => simp only [phi, List.tail, wl, wl_cons] at *; omega
  | cons a b => simp only [phi, List.tail, wl_cons] at *; omega

/-- What every parser function guarantees about its result on the stream `ts`:
`w` it never rewinds; `k` passes made + potential of what is left ≤ weight of what it was given — also when an
exception is propagating; `j` when it returns normally, the same with the full weight of what is left. -/
structure Good (ts : List Tok) (r : PR) : Prop where
  w : wl r.rest ≤ wl ts
  k : r.iters + phi r.rest ≤ wl ts
  j : r.err = none → r.iters + wl r.rest ≤ wl ts

abbrev Res (ts : List Tok) := { r : PR // Good ts r }

/-- What `Tag.get_node` guarantees on the non-empty stream `t :: r`: after the `next(stream)` of the loop that
called it, the pass it belongs to is paid for. -/
structure GoodN (t : Tok) (r : List Tok) (g : PR) : Prop where
  w : wl g.rest ≤ wl (t :: r)
  n : g.iters + 1 + wl g.rest.tail ≤ wl (t :: r)

abbrev ResN (t : Tok) (r : List Tok) := { g : PR // GoodN t r g }

theorem Good.mono {ts ts' : List Tok} {r : PR} (h : wl ts' ≤ wl ts) (g : Good ts' r) : Good ts r :=
  ⟨Nat.le_trans g.w h, Nat.le_trans g.k h, fun e => Nat.le_trans (g.j e) h⟩

def Res.lift {ts ts' : List Tok} (h : wl ts' ≤ wl ts) (r : Res ts') : Res ts := ⟨r.1, r.2.mono h⟩

def ok (out : List String) (rest : List Tok) (d it : Nat) : PR := ⟨out, rest, d, it, none, false⟩
def failed (e : Err) (rest : List Tok) (d it : Nat) : PR := ⟨[], rest, d, it, some e, false⟩

/-- a result that made no pass and left the stream where it was, or further on -/
theorem Good.still {ts rest : List Tok} (h : wl rest ≤ wl ts) (p : PR) (hr : p.rest = rest) (hi : p.iters = 0) : Good ts p :=
  ⟨by rw [hr]; exact h, by rw [hr, hi]; have := phi_le_wl rest; omega, fun _ => by rw [hr, hi]; omega⟩

theorem GoodN.still {t : Tok} {r rest : List Tok} (h : rest = t :: r ∨ rest = r) (p : PR) (hr : p.rest = rest) (hi : p.iters = 0) :
    GoodN t r p := by
  have := t.weight_pos
  rcases h with h | h <;> subst h
  · exact ⟨by rw [hr]; exact Nat.le_refl _, by rw [hr, hi]; simp only [List.tail, wl_cons]; omega⟩
  · exact ⟨by rw [hr]; exact wl_le_cons _ _, by rw [hr, hi]; have := wl_tail_le rest; simp only [wl_cons]; omega⟩

/-- `Tag.get_node` around the `parse` of a tag whose tag token has been consumed (`p` is the result on `r`):
what happens to an exception -/
def recover (cfg : Cfg) (blockEnd : Option String) (t : Tok) (r : List Tok) (p : PR)
    (hw : wl p.rest ≤ wl r) (hk : p.iters + phi p.rest ≤ wl r) (kind : String) : ResN t r :=
  have ht := t.weight_pos
  have base : GoodN t r p := ⟨Nat.le_trans hw (wl_le_cons _ _), pay_next t r p.rest p.iters hk⟩
  match p.err with
  | none => if p.repl then ⟨{ p with out := ["illegal"], repl := false }, ⟨base.w, base.n⟩⟩
            else ⟨{ p with out := kind :: p.out }, ⟨base.w, base.n⟩⟩
  | some _ =>
    if !cfg.lax then ⟨p, base⟩ else
    match blockEnd with
    | none => ⟨ok ["illegal"] p.rest p.depth p.iters, ⟨base.w, base.n⟩⟩
    | some en =>
      ⟨ok ["illegal"] (eatBlock [en] p.rest) p.depth (p.iters + (p.rest.length - (eatBlock [en] p.rest).length)),
       ⟨Nat.le_trans (skipUntil_le _ _) base.w, by
          -- the passes of `eat_block` are paid by the tokens it drops
          show p.iters + (p.rest.length - (eatBlock [en] p.rest).length) + 1 + wl (eatBlock [en] p.rest).tail ≤ wl (t :: r)
          unfold eatBlock
          cases hp : p.rest with
          | nil => rw [hp] at hk; simp only [skipUntil, phi, wl, List.length_nil, List.tail, wl_cons] at *; omega
          | cons a b =>
            rw [hp] at hk
            simp only [skipUntil]
            split
            · simp only [List.tail, phi, wl_cons, List.length_cons] at *; omega
            · have hc2 := skip_cost (Tok.isTagIn [en]) b
              have h3 := wl_tail_le (skipUntil (Tok.isTagIn [en]) b)
              have h4 := skipUntil_length_le (Tok.isTagIn [en]) b
              simp only [phi, wl_cons, List.length_cons] at *; omega⟩⟩

/-- the end of `IfTag.parse`: ignore extraneous blocks up to the end tag, `stream.expect(TOKEN_TAG, end)`;
`it` = passes made so far by the tag parser -/
def ifEnd (endName : String) (d : Nat) (out : List String) (it : Nat) (ts : List Tok) :
    { r : PR // wl r.rest ≤ wl ts ∧ r.iters + wl r.rest ≤ it + wl ts } :=
  match h : skipUntil (Tok.isTag endName) ts with
  | [] => ⟨failed .syntax [] d (it + ts.length), by
      have := length_le_wl ts; simp only [failed, wl]; omega⟩
  | a :: b => ⟨ok out (a :: b) d (it + (ts.length - (a :: b).length)), by
      have h1 := skip_cost (Tok.isTag endName) ts
      have h2 := skipUntil_le (Tok.isTag endName) ts
      rw [h] at h1 h2
      simp only [ok]; omega⟩

/-- the loop of `DocTag.parse` (malformed `doc` tag): `true` = reached `enddoc`; `false` = raised, at the stream given -/
def docScan : List Tok → (Bool × List Tok)
  | [] => (false, [])
  | t :: r => if t.isTag "doc" then (false, t :: r) else if t.isTag "enddoc" then (true, t :: r) else docScan r

theorem docScan_le (ts : List Tok) : wl (docScan ts).2 ≤ wl ts := by
  induction ts with
  | nil => simp [docScan]
  | cons t r ih =>
    simp only [docScan]
    split
    · exact Nat.le_refl _
    · split
      · exact Nat.le_refl _
      · simp only [wl_cons]; omega

theorem docScan_cost (ts : List Tok) : (ts.length - (docScan ts).2.length) + wl (docScan ts).2 ≤ wl ts := by
  induction ts with
  | nil => simp [docScan, wl]
  | cons t r ih =>
    simp only [docScan]
    split
    · simp
    · split
      · simp
      · have := t.weight_pos
        have hl : (docScan r).2.length ≤ r.length := by
          clear ih; induction r with
          | nil => simp [docScan]
          | cons a b ihb => simp only [docScan]; split <;> (try split) <;> simp <;> omega
        simp only [List.length_cons, wl_cons]; omega

def headIsExpr : List Tok → Bool
  | .expr _ :: _ => true
  | _ => false

/-- termination of the parser loops: same stream and a lower rank, or a strictly lighter stream -/
macro "parse_dec" : tactic => `(tactic|
  (all_goals simp_wf
   all_goals first
     | (apply Prod.Lex.right; omega)
     | (apply Prod.Lex.left; assumption)
     | (apply Prod.Lex.left; exact wl_tail_lt (GoodN.w (by assumption)))
     | (apply Prod.Lex.left
        have hh := Good.w (by assumption)
        simp only [wl_cons, Tok.weight] at *; omega)
     | (apply Prod.Lex.left; simp only [wl_cons, Tok.weight] at *; omega)
     | (apply Prod.Lex.left
        have := skipUntil_le Tok.anyTag ‹List Tok›
        simp only [wl_cons, Tok.weight] at *; omega)))

/-- discharge a `Good` / `GoodN` obligation from the facts in context -/
macro "good" : tactic => `(tactic|
  (constructor <;> (intros; simp only [ok, failed, wl_cons, Tok.weight, phi, List.tail, List.length_cons] at *; omega)))

mutual
/-- the `while stream.current.kind != TOKEN_EOF` loop of `parse_block` (and, with `ends = []`, of `_parse`);
`d` is `stream.block_depth` -/
def blockLoop (cfg : Cfg) (ends : List String) (d : Nat) (ts : List Tok) : Res ts :=
  match ts with
  | [] => ⟨ok [] [] d 0, Good.still (Nat.le_refl _) _ rfl rfl⟩
  | t :: r =>
    if t.isTagIn ends then ⟨ok [] (t :: r) d 0, Good.still (Nat.le_refl _) _ rfl rfl⟩ else
    match getNode cfg d t r with
    | ⟨g, hg⟩ =>
      match he : g.err with
      | some _ =>                                               -- STRICT: `env.error` re-raises (a pass that raises is not counted)
        ⟨g, ⟨hg.w, by have := hg.n; have := phi_le_tail g.rest; omega, fun e => by rw [he] at e; cases e⟩⟩
      | none =>
        match blockLoop cfg ends g.depth g.rest.tail with        -- `next(stream)`
        | ⟨l, hl⟩ =>
          ⟨{ out := g.out ++ l.out, rest := l.rest, depth := l.depth, iters := g.iters + 1 + l.iters, err := l.err },
           ⟨Nat.le_trans hl.w (Nat.le_trans (wl_tail_le _) hg.w),
            by have := hl.k; have := hg.n; show g.iters + 1 + l.iters + phi l.rest ≤ wl (t :: r); omega,
            fun e => by have := hl.j e; have := hg.n; show g.iters + 1 + l.iters + wl l.rest ≤ wl (t :: r); omega⟩⟩
termination_by (wl ts, 5)
decreasing_by parse_dec

/-- `Parser.parse_block(stream, end)` -/
def parseBlock (cfg : Cfg) (ends : List String) (d : Nat) (ts : List Tok) : Res ts :=
  if d + 1 > cfg.limit then ⟨failed .nesting ts (d + 1) 0, Good.still (Nat.le_refl _) _ rfl rfl⟩
  else
    match blockLoop cfg ends (d + 1) ts with
    | ⟨l, hl⟩ =>
      match l.err with
      | some _ => ⟨l, hl⟩
      | none => ⟨{ l with out := "(" :: l.out ++ [")"], depth := l.depth - 1 }, ⟨hl.w, hl.k, hl.j⟩⟩
termination_by (wl ts, 6)
decreasing_by parse_dec

/-- `tags.get(…).get_node(stream)` for the current token `t` (the stream is `t :: r`) -/
def getNode (cfg : Cfg) (d : Nat) (t : Tok) (r : List Tok) : ResN t r :=
  match t with
  | .output =>
    -- `Output.parse`: eat OUTPUT, expect EXPRESSION
    if headIsExpr r then ⟨ok ["output"] r d 0, GoodN.still (Or.inr rfl) _ rfl rfl⟩
    else if cfg.lax then ⟨ok ["illegal"] r d 0, GoodN.still (Or.inr rfl) _ rfl rfl⟩
    else ⟨failed .syntax r d 0, GoodN.still (Or.inr rfl) _ rfl rfl⟩
  | .doc => ⟨ok ["doc"] (.doc :: r) d 0, GoodN.still (Or.inl rfl) _ rfl rfl⟩
  | .comment => ⟨ok ["comment"] (.comment :: r) d 0, GoodN.still (Or.inl rfl) _ rfl rfl⟩
  | .content => ⟨ok ["content"] (.content :: r) d 0, GoodN.still (Or.inl rfl) _ rfl rfl⟩
  | .expr inner =>
    -- `Literal.parse`: `expect(TOKEN_CONTENT)` fails; not a block tag
    if cfg.lax then ⟨ok ["illegal"] (.expr inner :: r) d 0, GoodN.still (Or.inl rfl) _ rfl rfl⟩
    else ⟨failed .syntax (.expr inner :: r) d 0, GoodN.still (Or.inl rfl) _ rfl rfl⟩
  | .tag n =>
    if n == "if" then
      match parseIf cfg "endif" d r with
      | ⟨p, hp⟩ => recover cfg (some "endif") (.tag n) r p hp.w hp.k "if"
    else if n == "unless" then
      match parseIf cfg "endunless" d r with
      | ⟨p, hp⟩ => recover cfg (some "endunless") (.tag n) r p hp.w hp.k "unless"
    else if n == "case" then
      match parseCase cfg d r with
      | ⟨p, hp⟩ => recover cfg (some "endcase") (.tag n) r p hp.w hp.k "case"
    else if n == "for" then
      match parseFor cfg d r with
      | ⟨p, hp⟩ => recover cfg (some "endfor") (.tag n) r p hp.w hp.k "for"
    else if n == "capture" then
      match parseCapture cfg d r with
      | ⟨p, hp⟩ => recover cfg (some "endcapture") (.tag n) r p hp.w hp.k "capture"
    else if n == "liquid" then
      -- `LiquidTag.parse` (repo fix eb7b1a1): `expect(TOKEN_TAG)`; no expression next → empty block, nothing consumed
      match r with
      | .expr inner :: r1 =>
        -- `next(stream)`; a new stream of the tag's own line tokens, `block_depth_carry=stream.block_depth`; the outer
        -- stream stays on the expression token and keeps its depth
        match parseBlock cfg [] d inner with
        | ⟨b, hb⟩ =>
          recover cfg none (.tag n) (.expr inner :: r1) { b with rest := .expr inner :: r1, depth := d } (Nat.le_refl _)
            (by have := hb.k; show b.iters + phi (Tok.expr inner :: r1) ≤ wl (Tok.expr inner :: r1)
                simp only [phi, wl_cons, Tok.weight]; omega) "liquid"
      | rest => ⟨ok ["liquid", "(", ")"] (.tag n :: rest) d 0, GoodN.still (Or.inl rfl) _ rfl rfl⟩
    else if n == "comment" then
      -- `{% comment %}` as a tag: scan to `endcomment`; EOF raises
      if (skipUntil (Tok.isTag "endcomment") r).isEmpty then
        recover cfg (some "endcomment") (.tag n) r (failed .syntax [] d r.length) (by simp [failed, wl])
          (by have := length_le_wl r; simp only [failed, phi]; omega) "comment"
      else
        recover cfg (some "endcomment") (.tag n) r
          (ok [] (skipUntil (Tok.isTag "endcomment") r) d (r.length - (skipUntil (Tok.isTag "endcomment") r).length))
          (skipUntil_le _ _)
          (by have := skip_cost (Tok.isTag "endcomment") r; have := phi_le_wl (skipUntil (Tok.isTag "endcomment") r)
              simp only [ok]; omega) "comment"
    else if n == "doc" then
      if headIsExpr r then                                                   -- unexpected expression
        recover cfg (some "enddoc") (.tag n) r (failed .syntax r d 0) (Nat.le_refl _)
          (by have := phi_le_wl r; simp only [failed]; omega) "doc"
      else if (docScan r).1 then
        recover cfg (some "enddoc") (.tag n) r (ok [] (docScan r).2 d (r.length - (docScan r).2.length)) (docScan_le _)
          (by have := docScan_cost r; have := phi_le_wl (docScan r).2; simp only [ok]; omega) "doc"
      else
        recover cfg (some "enddoc") (.tag n) r (failed .syntax (docScan r).2 d (r.length - (docScan r).2.length)) (docScan_le _)
          (by have := docScan_cost r; have := phi_le_wl (docScan r).2; simp only [failed]; omega) "doc"
    else if n == "assign" then
      if headIsExpr r then ⟨ok ["assign"] r d 0, GoodN.still (Or.inr rfl) _ rfl rfl⟩   -- into_inner(eat=False)
      else if cfg.lax then ⟨ok ["illegal"] r d 0, GoodN.still (Or.inr rfl) _ rfl rfl⟩
      else ⟨failed .syntax r d 0, GoodN.still (Or.inr rfl) _ rfl rfl⟩
    else if n == "break" then ⟨ok ["break"] (.tag n :: r) d 0, GoodN.still (Or.inl rfl) _ rfl rfl⟩
    else
      -- `Illegal.parse`: `if stream.peek.kind == TOKEN_EXPRESSION: next(stream)`; raise
      if headIsExpr r then
        (if cfg.lax then ⟨ok ["illegal"] r d 0, GoodN.still (Or.inr rfl) _ rfl rfl⟩
         else ⟨failed .syntax r d 0, GoodN.still (Or.inr rfl) _ rfl rfl⟩)
      else
        (if cfg.lax then ⟨ok ["illegal"] (.tag n :: r) d 0, GoodN.still (Or.inl rfl) _ rfl rfl⟩
         else ⟨failed .syntax (.tag n :: r) d 0, GoodN.still (Or.inl rfl) _ rfl rfl⟩)
termination_by (wl (t :: r), 4)
decreasing_by parse_dec

/-- `IfTag.parse` / `UnlessTag.parse` after `stream.eat(TOKEN_TAG)` -/
def parseIf (cfg : Cfg) (endName : String) (d : Nat) (r : List Tok) : Res r :=
  match r with
  | .expr i :: r1 =>                                                        -- into_inner (eats)
    match parseBlock cfg [endName, "elsif", "else"] d r1 with
    | ⟨b, hb⟩ =>
      match hbe : b.err with
      | some _ => ⟨b, hb.mono (wl_le_cons _ _)⟩
      | none =>
        match ifTail cfg endName b.depth b.rest with
        | ⟨a, ha⟩ =>
          have hbj := hb.j hbe
          ⟨{ a with out := b.out ++ a.out, iters := b.iters + a.iters },
           ⟨Nat.le_trans ha.w (Nat.le_trans hb.w (wl_le_cons _ _)),
            by have := ha.k; show b.iters + a.iters + phi a.rest ≤ wl (Tok.expr i :: r1); simp only [wl_cons]; omega,
            fun e => by have := ha.j e; show b.iters + a.iters + wl a.rest ≤ wl (Tok.expr i :: r1); simp only [wl_cons]; omega⟩⟩
  | rest => ⟨failed .syntax rest d 0, Good.still (Nat.le_refl _) _ rfl rfl⟩    -- missing expression
termination_by (wl r, 3)
decreasing_by parse_dec

/-- the `while stream.current.is_tag(TAG_ELSIF)` loop, then the rest of `IfTag.parse` -/
def ifTail (cfg : Cfg) (endName : String) (d : Nat) (ts : List Tok) : Res ts :=
  match ts with
  | .tag n :: r =>
    if n == "elsif" then
      match r with                                                          -- `next(stream)` took the elsif tag
      | .expr i :: r1 =>
        match parseBlock cfg [endName, "elsif", "else"] d r1 with
        | ⟨b, hb⟩ =>
          match hbe : b.err with
          | some _ =>
            ⟨{ b with iters := b.iters + 1 },
             ⟨Nat.le_trans hb.w (Nat.le_trans (wl_le_cons _ _) (wl_le_cons _ _)),
              by have := hb.k; show b.iters + 1 + phi b.rest ≤ wl (Tok.tag n :: Tok.expr i :: r1); simp only [wl_cons, Tok.weight]; omega,
              fun e => by have h : b.err = none := e; rw [hbe] at h; cases h⟩⟩
          | none =>
            match ifTail cfg endName b.depth b.rest with
            | ⟨a, ha⟩ =>
              have hbj := hb.j hbe
              ⟨{ a with out := b.out ++ a.out, iters := b.iters + 1 + a.iters },
               ⟨Nat.le_trans ha.w (Nat.le_trans hb.w (Nat.le_trans (wl_le_cons _ _) (wl_le_cons _ _))),
                by have := ha.k; show b.iters + 1 + a.iters + phi a.rest ≤ wl (Tok.tag n :: Tok.expr i :: r1); simp only [wl_cons, Tok.weight]; omega,
                fun e => by have := ha.j e; show b.iters + 1 + a.iters + wl a.rest ≤ wl (Tok.tag n :: Tok.expr i :: r1); simp only [wl_cons, Tok.weight]; omega⟩⟩
      | rest =>
        -- missing expression: `except LiquidSyntaxError: env.error(err); eat_block(stream, ENDELSIFBLOCK); return IllegalNode`
        if !cfg.lax then
          ⟨failed .syntax rest d 1, ⟨wl_le_cons _ _, by have := phi_le_wl rest; simp only [failed, wl_cons, Tok.weight]; omega,
                                    fun e => by simp [failed] at e⟩⟩
        else
          ⟨{ out := [], rest := eatBlock [endName, "elsif", "else"] rest, depth := d,
             iters := 1 + (rest.length - (eatBlock [endName, "elsif", "else"] rest).length), err := none, repl := true },
           by have hc := skip_cost (Tok.isTagIn [endName, "elsif", "else"]) rest
              have h2 := phi_le_wl (eatBlock [endName, "elsif", "else"] rest)
              have h3 := skipUntil_le (Tok.isTagIn [endName, "elsif", "else"]) rest
              unfold eatBlock at *
              exact ⟨by simp only [wl_cons]; omega, by simp only [wl_cons, Tok.weight]; omega, fun _ => by simp only [wl_cons, Tok.weight]; omega⟩⟩
    else ifElse cfg endName d (.tag n :: r)
  | ts => ifElse cfg endName d ts
termination_by (wl ts, 2)
decreasing_by parse_dec

/-- `if stream.current.is_tag(TAG_ELSE)` … to the end of `IfTag.parse` -/
def ifElse (cfg : Cfg) (endName : String) (d : Nat) (ts : List Tok) : Res ts :=
  match ts with
  | .tag n :: r =>
    if n == "else" then
      -- `next(stream)`; a superfluous expression is skipped (the tag's own mode is LAX)
      match r with
      | .expr i :: r1 =>
        match parseBlock cfg [endName, "else", "elsif"] d r1 with
        | ⟨b, hb⟩ =>
          match hbe : b.err with
          | some _ => ⟨b, hb.mono (Nat.le_trans (wl_le_cons _ _) (wl_le_cons _ _))⟩
          | none =>
            have hbj := hb.j hbe
            match ifEnd endName b.depth b.out b.iters b.rest with
            | ⟨e, he⟩ =>
              ⟨e, by have := phi_le_wl e.rest
                     exact ⟨by simp only [wl_cons, Tok.weight]; omega, by simp only [wl_cons, Tok.weight]; omega, fun _ => by simp only [wl_cons, Tok.weight]; omega⟩⟩
      | r =>
        match parseBlock cfg [endName, "else", "elsif"] d r with
        | ⟨b, hb⟩ =>
          match hbe : b.err with
          | some _ => ⟨b, hb.mono (wl_le_cons _ _)⟩
          | none =>
            have hbj := hb.j hbe
            match ifEnd endName b.depth b.out b.iters b.rest with
            | ⟨e, he⟩ =>
              ⟨e, by have := phi_le_wl e.rest
                     exact ⟨by simp only [wl_cons, Tok.weight]; omega, by simp only [wl_cons, Tok.weight]; omega, fun _ => by simp only [wl_cons, Tok.weight]; omega⟩⟩
    else
      match ifEnd endName d [] 0 (.tag n :: r) with
      | ⟨e, he⟩ => ⟨e, by have := phi_le_wl e.rest; exact ⟨he.1, by omega, fun _ => by omega⟩⟩
  | ts =>
    match ifEnd endName d [] 0 ts with
    | ⟨e, he⟩ => ⟨e, by have := phi_le_wl e.rest; exact ⟨he.1, by omega, fun _ => by omega⟩⟩
termination_by (wl ts, 1)
decreasing_by parse_dec

/-- `CaseTag.parse` after `stream.eat(TOKEN_TAG)` -/
def parseCase (cfg : Cfg) (d : Nat) (r : List Tok) : Res r :=
  match r with
  | .expr i :: r1 =>
    -- "Eat whitespace or junk between `case` and when/else/endcase"
    match caseLoop cfg d (skipUntil Tok.anyTag r1) with
    | ⟨a, ha⟩ =>
      ⟨{ a with iters := a.iters + (r1.length - (skipUntil Tok.anyTag r1).length) },
       by have hc := skip_cost Tok.anyTag r1
          have h2 := skipUntil_le Tok.anyTag r1
          have := ha.w; have := ha.k
          exact ⟨by simp only [wl_cons]; omega, by show a.iters + _ + phi a.rest ≤ _; simp only [wl_cons]; omega,
                 fun e => by have := ha.j e; show a.iters + _ + wl a.rest ≤ _; simp only [wl_cons]; omega⟩⟩
  | rest => ⟨failed .syntax rest d 0, Good.still (Nat.le_refl _) _ rfl rfl⟩
termination_by (wl r, 3)
decreasing_by parse_dec

/-- `while not stream.current.is_tag(TAG_ENDCASE)`, then `expect(endcase)` -/
def caseLoop (cfg : Cfg) (d : Nat) (ts : List Tok) : Res ts :=
  match ts with
  | .tag n :: r =>
    if n == "endcase" then ⟨ok [] (.tag n :: r) d 0, Good.still (Nat.le_refl _) _ rfl rfl⟩
    else if n == "else" then
      match parseBlock cfg ["endcase", "when", "else"] d r with
      | ⟨b, hb⟩ =>
        match hbe : b.err with
        | some _ =>
          ⟨{ b with iters := b.iters + 1 },
           ⟨Nat.le_trans hb.w (wl_le_cons _ _),
            by have := hb.k; show b.iters + 1 + phi b.rest ≤ wl (Tok.tag n :: r); simp only [wl_cons, Tok.weight]; omega,
            fun e => by have h : b.err = none := e; rw [hbe] at h; cases h⟩⟩
        | none =>
          match caseLoop cfg b.depth b.rest with
          | ⟨a, ha⟩ =>
            have hbj := hb.j hbe
            ⟨{ a with out := b.out ++ a.out, iters := b.iters + 1 + a.iters },
             ⟨Nat.le_trans ha.w (Nat.le_trans hb.w (wl_le_cons _ _)),
              by have := ha.k; show b.iters + 1 + a.iters + phi a.rest ≤ wl (Tok.tag n :: r); simp only [wl_cons, Tok.weight]; omega,
              fun e => by have := ha.j e; show b.iters + 1 + a.iters + wl a.rest ≤ wl (Tok.tag n :: r); simp only [wl_cons, Tok.weight]; omega⟩⟩
    else if n == "when" then
      match r with
      | .expr i :: r1 =>
        match parseBlock cfg ["endcase", "when", "else"] d r1 with
        | ⟨b, hb⟩ =>
          match hbe : b.err with
          | some _ =>
            ⟨{ b with iters := b.iters + 1 },
             ⟨Nat.le_trans hb.w (Nat.le_trans (wl_le_cons _ _) (wl_le_cons _ _)),
              by have := hb.k; show b.iters + 1 + phi b.rest ≤ wl (Tok.tag n :: Tok.expr i :: r1); simp only [wl_cons, Tok.weight]; omega,
              fun e => by have h : b.err = none := e; rw [hbe] at h; cases h⟩⟩
          | none =>
            match caseLoop cfg b.depth b.rest with
            | ⟨a, ha⟩ =>
              have hbj := hb.j hbe
              ⟨{ a with out := b.out ++ a.out, iters := b.iters + 1 + a.iters },
               ⟨Nat.le_trans ha.w (Nat.le_trans hb.w (Nat.le_trans (wl_le_cons _ _) (wl_le_cons _ _))),
                by have := ha.k; show b.iters + 1 + a.iters + phi a.rest ≤ wl (Tok.tag n :: Tok.expr i :: r1); simp only [wl_cons, Tok.weight]; omega,
                fun e => by have := ha.j e; show b.iters + 1 + a.iters + wl a.rest ≤ wl (Tok.tag n :: Tok.expr i :: r1); simp only [wl_cons, Tok.weight]; omega⟩⟩
      | rest =>                                                            -- `when` without an expression
        ⟨failed .syntax rest d 1, ⟨wl_le_cons _ _, by have := phi_le_wl rest; simp only [failed, wl_cons, Tok.weight]; omega,
                                  fun e => by simp [failed] at e⟩⟩
    else ⟨failed .syntax (.tag n :: r) d 0, Good.still (Nat.le_refl _) _ rfl rfl⟩                -- unexpected tag
  | ts => ⟨failed .syntax ts d 0, Good.still (Nat.le_refl _) _ rfl rfl⟩                          -- EOF (the 2.2.1 hang) or a stray token
termination_by (wl ts, 2)
decreasing_by parse_dec

/-- `ForTag.parse` after `stream.eat(TOKEN_TAG)` -/
def parseFor (cfg : Cfg) (d : Nat) (r : List Tok) : Res r :=
  match r with
  | .expr i :: r1 =>
    match parseBlock cfg ["endfor", "else"] d r1 with
    | ⟨b, hb⟩ =>
      match hbe : b.err with
      | some _ => ⟨b, hb.mono (wl_le_cons _ _)⟩
      | none =>
        have hbj := hb.j hbe
        match hbr : b.rest with
        | .tag n :: r2 =>
          if n == "else" then
            have _hw2 : wl r2 < wl (Tok.expr i :: r1) := by
              have := hb.w; rw [hbr] at this; simp only [wl_cons, Tok.weight] at *; omega
            match parseBlock cfg ["endfor"] b.depth r2 with
            | ⟨b2, hb2⟩ =>
              match hb2e : b2.err with
              | some _ =>
                ⟨{ b2 with iters := b.iters + b2.iters },
                 by have := hb2.w; have := hb2.k; rw [hbr] at hbj
                    exact ⟨by simp only [wl_cons, Tok.weight] at *; omega,
                           by show b.iters + b2.iters + phi b2.rest ≤ _; simp only [wl_cons, Tok.weight] at *; omega,
                           fun e => by have h : b2.err = none := e; rw [hb2e] at h; cases h⟩⟩
              | none =>
                have hb2j := hb2.j hb2e
                match hb2r : b2.rest with
                | .tag m :: r3 =>
                  if m == "endfor" then
                    ⟨ok (b.out ++ b2.out) (.tag m :: r3) b2.depth (b.iters + b2.iters),
                     by rw [hbr] at hbj; rw [hb2r] at hb2j
                        exact ⟨by simp only [ok, wl_cons, Tok.weight] at *; omega, by simp only [ok, phi, wl_cons, Tok.weight] at *; omega,
                               fun _ => by simp only [ok, wl_cons, Tok.weight] at *; omega⟩⟩
                  else
                    ⟨failed .syntax (.tag m :: r3) b2.depth (b.iters + b2.iters),
                     by rw [hbr] at hbj; rw [hb2r] at hb2j
                        exact ⟨by simp only [failed, wl_cons, Tok.weight] at *; omega, by simp only [failed, phi, wl_cons, Tok.weight] at *; omega,
                               fun e => by simp [failed] at e⟩⟩
                | rest =>
                  ⟨failed .syntax rest b2.depth (b.iters + b2.iters),
                   by rw [hbr] at hbj; rw [hb2r] at hb2j; have := phi_le_wl rest
                      exact ⟨by simp only [failed, wl_cons, Tok.weight] at *; omega, by simp only [failed, wl_cons, Tok.weight] at *; omega,
                             fun e => by simp [failed] at e⟩⟩
          else if n == "endfor" then
            ⟨ok b.out (.tag n :: r2) b.depth b.iters,
             by rw [hbr] at hbj
                exact ⟨by simp only [ok, wl_cons, Tok.weight] at *; omega, by simp only [ok, phi, wl_cons, Tok.weight] at *; omega,
                       fun _ => by simp only [ok, wl_cons, Tok.weight] at *; omega⟩⟩
          else
            ⟨failed .syntax (.tag n :: r2) b.depth b.iters,
             by rw [hbr] at hbj
                exact ⟨by simp only [failed, wl_cons, Tok.weight] at *; omega, by simp only [failed, phi, wl_cons, Tok.weight] at *; omega,
                       fun e => by simp [failed] at e⟩⟩
        | rest =>
          ⟨failed .syntax rest b.depth b.iters,
           by rw [hbr] at hbj; have := phi_le_wl rest
              exact ⟨by simp only [failed, wl_cons, Tok.weight] at *; omega, by simp only [failed, wl_cons, Tok.weight] at *; omega,
                     fun e => by simp [failed] at e⟩⟩
  | rest => ⟨failed .syntax rest d 0, Good.still (Nat.le_refl _) _ rfl rfl⟩
termination_by (wl r, 3)
decreasing_by parse_dec

/-- `CaptureTag.parse` after `stream.eat(TOKEN_TAG)` -/
def parseCapture (cfg : Cfg) (d : Nat) (r : List Tok) : Res r :=
  match r with
  | .expr i :: r1 =>
    match parseBlock cfg ["endcapture"] d r1 with
    | ⟨b, hb⟩ =>
      match hbe : b.err with
      | some _ => ⟨b, hb.mono (wl_le_cons _ _)⟩
      | none =>
        have hbj := hb.j hbe
        match hbr : b.rest with
        | .tag n :: r2 =>
          if n == "endcapture" then
            ⟨ok b.out (.tag n :: r2) b.depth b.iters,
             by rw [hbr] at hbj
                exact ⟨by simp only [ok, wl_cons, Tok.weight] at *; omega, by simp only [ok, phi, wl_cons, Tok.weight] at *; omega,
                       fun _ => by simp only [ok, wl_cons, Tok.weight] at *; omega⟩⟩
          else
            ⟨failed .syntax (.tag n :: r2) b.depth b.iters,
             by rw [hbr] at hbj
                exact ⟨by simp only [failed, wl_cons, Tok.weight] at *; omega, by simp only [failed, phi, wl_cons, Tok.weight] at *; omega,
                       fun e => by simp [failed] at e⟩⟩
        | rest =>
          ⟨failed .syntax rest b.depth b.iters,
           by rw [hbr] at hbj; have := phi_le_wl rest
              exact ⟨by simp only [failed, wl_cons, Tok.weight] at *; omega, by simp only [failed, wl_cons, Tok.weight] at *; omega,
                     fun e => by simp [failed] at e⟩⟩
  | rest => ⟨failed .syntax rest d 0, Good.still (Nat.le_refl _) _ rfl rfl⟩
termination_by (wl r, 3)
decreasing_by parse_dec
end

/-- `Parser.parse(stream)` = `list(self._parse(stream))`: the same loop with no end tags, at block depth 0 -/
def parseTemplate (cfg : Cfg) (ts : List Tok) : PR := (blockLoop cfg [] 0 ts).1

end LiquidVerif.ParseLoops
