import LiquidVerif.Gen.C02Tables
import LiquidVerif.Model.FilterShape
/-!
# The shape of every registered filter  (C16)

`Gen/C02Tables.lean` (regenerated from the source on every run) lists every filter registered by
`Environment(extra=True)` with its decorator chain.  `decoPokes` / `decoConv` say what each decorator does to an
undefined left value; `bodyIn` what the body then does to it when the decorator passes it on; `argOps` how each
positional argument is converted (`[]`: not looked at; `[.cls]`: only `is_undefined` / `isinstance` / `num_arg(…,
default)` tests, after which the argument stands for the given plain value; `[.cls, .str]`: stringified or otherwise used).
`bodyIn` and `argOps` are total matches over the generated `FilterName`: a newly registered filter does not build
until it is classified.  Every row is checked against the implementation by the `shapes` stream (which operand
positions raise `UndefinedError` under which undefined type, and that a missing operand renders like the plain value
it stands for).  Core Lean only (the driver links this file).
-/
namespace LiquidVerif.UndefKind
open LiquidVerif.Gen.C02 (FilterName Deco)

/-- what the decorator does to an undefined left value before the body runs -/
def decoPokes : Deco → List Poke
  | .string_filter => [.cls, .str]      -- `val is None`, `isinstance(val, str)`, `str(val)`
  | .math_filter => [.cls]              -- `num_arg(val, default=0)`: only `isinstance` tests
  | .sequence_filter => [.cls]          -- `isinstance` tests; the value is passed on
  | .array_filter => [.cls]             -- `isinstance(val, (list, tuple, Undefined, range))`
  | .liquid_filter => []
  | .unit_filter => []

/-- the plain value an undefined left value stands for after a converting decorator -/
def decoConv : Deco → Option Data
  | .string_filter => some (.str "")
  | .math_filter => some (.int 0)
  | _ => none

/-- what the body does to an undefined left value that reaches it (pokes, then what it stands for) -/
def bodyIn : FilterName → List Poke × UndefIn
  | .abs_ => ([], .fail)   -- converted by the decorator
  | .at_most_ => ([], .fail)   -- converted by the decorator
  | .at_least_ => ([], .fail)   -- converted by the decorator
  | .ceil_ => ([], .fail)   -- converted by the decorator
  | .divided_by_ => ([], .fail)   -- converted by the decorator
  | .floor_ => ([], .fail)   -- converted by the decorator
  | .minus_ => ([], .fail)   -- converted by the decorator
  | .plus_ => ([], .fail)   -- converted by the decorator
  | .round_ => ([], .fail)   -- converted by the decorator
  | .times_ => ([], .fail)   -- converted by the decorator
  | .modulo_ => ([], .fail)   -- converted by the decorator
  | .capitalize_ => ([], .fail)   -- converted by the decorator
  | .append_ => ([], .fail)   -- converted by the decorator
  | .downcase_ => ([], .fail)   -- converted by the decorator
  | .escape_ => ([], .fail)   -- converted by the decorator
  | .escape_once_ => ([], .fail)   -- converted by the decorator
  | .lstrip_ => ([], .fail)   -- converted by the decorator
  | .newline_to_br_ => ([], .fail)   -- converted by the decorator
  | .prepend_ => ([], .fail)   -- converted by the decorator
  | .remove_ => ([], .fail)   -- converted by the decorator
  | .remove_first_ => ([], .fail)   -- converted by the decorator
  | .remove_last_ => ([], .fail)   -- converted by the decorator
  | .replace_ => ([], .fail)   -- converted by the decorator
  | .replace_first_ => ([], .fail)   -- converted by the decorator
  | .replace_last_ => ([], .fail)   -- converted by the decorator
  | .slice_ => ([.cls, .getitem], .conv (.str ""))   -- isinstance tests, val[start:end] -> itself, list(...) -> []
  | .split_ => ([], .fail)   -- converted by the decorator
  | .upcase_ => ([], .fail)   -- converted by the decorator
  | .strip_ => ([], .fail)   -- converted by the decorator
  | .rstrip_ => ([], .fail)   -- converted by the decorator
  | .strip_html_ => ([], .fail)   -- converted by the decorator
  | .strip_newlines_ => ([], .fail)   -- converted by the decorator
  | .truncate_ => ([], .fail)   -- converted by the decorator
  | .truncatewords_ => ([], .fail)   -- converted by the decorator
  | .url_encode_ => ([], .fail)   -- converted by the decorator
  | .url_decode_ => ([], .fail)   -- converted by the decorator
  | .base64_encode_ => ([], .fail)   -- converted by the decorator
  | .base64_decode_ => ([], .fail)   -- converted by the decorator
  | .base64_url_safe_encode_ => ([], .fail)   -- converted by the decorator
  | .base64_url_safe_decode_ => ([], .fail)   -- converted by the decorator
  | .squish_ => ([], .fail)   -- converted by the decorator
  | .find_ => ([.iter], .conv (.list []))   -- the body iterates it
  | .find_index_ => ([.iter], .conv (.list []))   -- the body iterates it
  | .join_ => ([.iter], .conv (.list []))   -- the body iterates it
  | .first_ => ([.cls, .getitem], .self)   -- isinstance(left, str/dict), getitem(left, 0) -> the object itself
  | .has_ => ([.iter], .conv (.list []))   -- the body iterates it
  | .last_ => ([.cls, .getitem], .self)   -- isinstance(obj, str), getitem(obj, -1) -> the object itself
  | .concat_ => ([], .arg 0)   -- is_undefined(sequence) -> return second_array
  | .map_ => ([.iter], .conv (.list []))   -- the body iterates it
  | .reject_ => ([.iter], .conv (.list []))   -- the body iterates it
  | .reverse_ => ([.iter], .conv (.list []))   -- the body iterates it
  | .sort_ => ([.iter], .conv (.list []))   -- the body iterates it
  | .sort_natural_ => ([.iter], .conv (.list []))   -- the body iterates it
  | .sum_ => ([.iter], .conv (.list []))   -- the body iterates it
  | .where_ => ([.iter], .conv (.list []))   -- the body iterates it
  | .uniq_ => ([.iter], .conv (.list []))   -- the body iterates it
  | .compact_ => ([.iter], .conv (.list []))   -- the body iterates it
  | .size_ => ([.len], .conv (.list []))   -- len(obj)
  | .default_ => ([], .fail)   -- not a shape: see `fDefault` (force_liquid_default is kind dependent)
  | .date_ => ([.cls, .attr], .conv (.str ""))   -- is_undefined(dat); dat.poke(); return ''
  | .safe_ => ([], .fail)   -- converted by the decorator
  | .escapejs_ => ([], .fail)   -- converted by the decorator
  | .gettext_ => ([.cls, .str], .conv (.str ""))   -- the message is stringified
  | .ngettext_ => ([.cls, .str], .conv (.str ""))   -- the message is stringified
  | .npgettext_ => ([.cls, .str], .conv (.str ""))   -- the message is stringified
  | .pgettext_ => ([.cls, .str], .conv (.str ""))   -- the message is stringified
  | .t_ => ([.cls, .str], .conv (.str ""))   -- the message is stringified
  | .currency_ => ([.cls], .conv (.int 0))   -- number conversion with default 0
  | .money_ => ([.cls], .conv (.int 0))   -- number conversion with default 0
  | .money_with_currency_ => ([.cls], .conv (.int 0))   -- number conversion with default 0
  | .money_without_currency_ => ([.cls], .conv (.int 0))   -- number conversion with default 0
  | .money_without_trailing_zeros_ => ([.cls], .conv (.int 0))   -- number conversion with default 0
  | .datetime_ => ([.cls], .fail)   -- not a date
  | .decimal_ => ([.cls], .conv (.int 0))   -- number conversion with default 0
  | .unit_ => ([.cls], .conv (.int 0))   -- number conversion with default
  | .index_ => ([.attr], .fail)   -- left.index -> AttributeError
  | .json_ => ([.cls], .fail)   -- json.dumps(undefined) -> TypeError
  | .script_tag_ => ([], .fail)   -- converted by the decorator
  | .sort_numeric_ => ([.iter], .conv (.list []))   -- the body iterates it
  | .stylesheet_tag_ => ([], .fail)   -- converted by the decorator

/-- (minimum number of positional arguments, how each positional argument is converted) -/
def argOps : FilterName → Nat × List Operand
  | .abs_ => (0, [])
  | .at_most_ => (1, [⟨[.cls], .nil⟩])
  | .at_least_ => (1, [⟨[.cls], .nil⟩])
  | .ceil_ => (0, [])
  | .divided_by_ => (1, [⟨[.cls], .nil⟩])
  | .floor_ => (0, [])
  | .minus_ => (1, [⟨[.cls], .nil⟩])
  | .plus_ => (1, [⟨[.cls], .nil⟩])
  | .round_ => (0, [⟨[.cls], .nil⟩])
  | .times_ => (1, [⟨[.cls], .nil⟩])
  | .modulo_ => (1, [⟨[.cls], .nil⟩])
  | .capitalize_ => (0, [])
  | .append_ => (1, [⟨[.cls, .str], .str ""⟩])
  | .downcase_ => (0, [])
  | .escape_ => (0, [])
  | .escape_once_ => (0, [])
  | .lstrip_ => (0, [])
  | .newline_to_br_ => (0, [])
  | .prepend_ => (1, [⟨[.cls, .str], .str ""⟩])
  | .remove_ => (1, [⟨[.cls, .str], .nil⟩])
  | .remove_first_ => (1, [⟨[.cls, .str], .nil⟩])
  | .remove_last_ => (1, [⟨[.cls, .str], .nil⟩])
  | .replace_ => (1, [⟨[.cls, .str], .str ""⟩, ⟨[.cls, .str], .str ""⟩])
  | .replace_first_ => (1, [⟨[.cls, .str], .str ""⟩, ⟨[.cls, .str], .str ""⟩])
  | .replace_last_ => (2, [⟨[.cls, .str], .str ""⟩, ⟨[.cls, .str], .str ""⟩])
  | .slice_ => (1, [⟨[.cls], .nil⟩, ⟨[.cls], .int 1⟩])   -- `if is_undefined(length): length = 1`
  | .split_ => (1, [⟨[.cls, .str], .nil⟩])
  | .upcase_ => (0, [])
  | .strip_ => (0, [])
  | .rstrip_ => (0, [])
  | .strip_html_ => (0, [])
  | .strip_newlines_ => (0, [])
  | .truncate_ => (0, [⟨[.cls], .nil⟩, ⟨[.cls, .str], .str ""⟩])
  | .truncatewords_ => (0, [⟨[.cls], .nil⟩, ⟨[.cls, .str], .str ""⟩])
  | .url_encode_ => (0, [])
  | .url_decode_ => (0, [])
  | .base64_encode_ => (0, [])
  | .base64_decode_ => (0, [])
  | .base64_url_safe_encode_ => (0, [])
  | .base64_url_safe_decode_ => (0, [])
  | .squish_ => (0, [])
  | .find_ => (1, [⟨[.cls], .nil⟩, ⟨[.cls], .nil⟩])
  | .find_index_ => (1, [⟨[.cls], .nil⟩, ⟨[.cls], .nil⟩])
  | .join_ => (0, [⟨[.cls, .str], .str ""⟩])
  | .first_ => (0, [])
  | .has_ => (1, [⟨[.cls], .nil⟩, ⟨[.cls], .nil⟩])
  | .last_ => (0, [])
  | .concat_ => (1, [⟨[.cls], .nil⟩])
  | .map_ => (1, [⟨[.cls, .str], .nil⟩])
  | .reject_ => (1, [⟨[.cls], .nil⟩, ⟨[.cls], .nil⟩])
  | .reverse_ => (0, [])
  | .sort_ => (0, [⟨[.cls], .nil⟩])
  | .sort_natural_ => (0, [⟨[.cls], .nil⟩])
  | .sum_ => (0, [⟨[.cls], .nil⟩])
  | .where_ => (1, [⟨[.cls], .nil⟩, ⟨[.cls], .nil⟩])
  | .uniq_ => (0, [⟨[.cls, .str], .str ""⟩])
  | .compact_ => (0, [⟨[.cls, .str], .str ""⟩])
  | .size_ => (0, [])
  | .default_ => (0, [⟨[], .nil⟩])   -- returned as it is, or ignored
  | .date_ => (1, [⟨[.cls, .str], .nil⟩])
  | .safe_ => (0, [])
  | .escapejs_ => (0, [])
  | .gettext_ => (0, [])
  | .ngettext_ => (2, [⟨[.cls, .str], .nil⟩, ⟨[.cls, .str], .int 0⟩])
  | .npgettext_ => (3, [⟨[.cls, .str], .nil⟩, ⟨[.cls, .str], .nil⟩, ⟨[.cls, .str], .int 0⟩])
  | .pgettext_ => (1, [⟨[.cls, .str], .nil⟩])
  | .t_ => (0, [⟨[.cls, .str], .nil⟩])
  | .currency_ => (0, [])
  | .money_ => (0, [])
  | .money_with_currency_ => (0, [])
  | .money_without_currency_ => (0, [])
  | .money_without_trailing_zeros_ => (0, [])
  | .datetime_ => (0, [])
  | .decimal_ => (0, [])
  | .unit_ => (1, [⟨[.cls], .nil⟩])
  | .index_ => (1, [⟨[.cls], .nil⟩])
  | .json_ => (0, [⟨[.cls], .nil⟩])
  | .script_tag_ => (0, [])
  | .sort_numeric_ => (0, [⟨[.cls], .nil⟩])
  | .stylesheet_tag_ => (0, [])

def shapeOf (n : FilterName) : Shape :=
  let ds := n.decos
  let conv := ds.findSome? decoConv
  { inPokes := (ds.map decoPokes).flatten ++ (match conv with | some _ => [] | none => (bodyIn n).1)
    inUndef := match conv with | some d => .conv d | none => (bodyIn n).2
    minArgs := (argOps n).1
    args := (argOps n).2 }

def filterByName (s : String) : Option FilterName := FilterName.all.find? (fun n => n.name == s)

/-- the filter table of `Environment(extra=True)`: every registered filter as its shape around an arbitrary plain
    computation `g`; `default` is the one filter whose treatment of an undefined input depends on the kind -/
def registeredFilters (g : FilterName → Data → List Data → Res) : FilterSem := fun name v args =>
  match filterByName name with
  | none => .error .other
  | some n =>
    if n.name = "default" then (match args with | [a] => fDefault v a | _ => .error .other)
    else shapeSem (shapeOf n) (g n) v args

end LiquidVerif.UndefKind
