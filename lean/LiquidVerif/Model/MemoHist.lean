/-!
# Process-wide memo caches and render histories  (C17)

`functools.lru_cache(maxsize=cap)` as a recency list keyed **by Python equality**: a call looks its key (built
from the argument tuple by `functools._make_key`, see `lruKeyEq`) up with `==` (after `hash`, which agrees with `==`), a hit returns the value that was computed for the
*stored* key — the first caller's — and refreshes the entry; a miss computes, stores and evicts the least recently
used entry beyond `cap`.

`PyKey` is the part of Python's value universe that reaches the caches of liquid/ as an argument: `None`, `bool`,
`int`, integral `float`, `str`, `markupsafe.Markup` (a `str` subclass that compares and hashes like its content),
objects compared by identity (an `Environment`, a class, an enum member, a loader) and aware `datetime`s (equal
when they denote the same instant, whatever their zone).

`Proc` / `renderP` is the process seen by `Environment.from_string(...).render(...)`: the `get_lexer` and
`get_parser` memos are the only state that outlives a render (everything else — `tag_namespace`, counters, loop
stack — is created in `RenderContext.__init__`), see `Gen/SharedState.lean` for the inventory.

Core Lean only (the driver links this file).
-/
namespace LiquidVerif.MemoHist

/-! ## `lru_cache` -/

section Memo
variable {K V : Type}

/-- first entry whose stored key equals the query: `keq query stored` -/
def find (keq : K → K → Bool) (k : K) : List (K × V) → Option (K × V)
  | [] => none
  | (k', v) :: r => if keq k k' then some (k', v) else find keq k r

/-- drop the first entry whose stored key equals the query -/
def remove (keq : K → K → Bool) (k : K) : List (K × V) → List (K × V)
  | [] => []
  | (k', v) :: r => if keq k k' then r else (k', v) :: remove keq k r

/-- one call of the memoised function: result and new cache (least recently used first) -/
def call (keq : K → K → Bool) (f : K → V) (cap : Nat) (m : List (K × V)) (k : K) : V × List (K × V) :=
  match find keq k m with
  | some (k', v) => (v, remove keq k m ++ [(k', v)])
  | none =>
    let v := f k
    if cap = 0 then (v, m) else (v, (m ++ [(k, v)]).drop (m.length + 1 - cap))

/-- the cache after a history of calls -/
def run (keq : K → K → Bool) (f : K → V) (cap : Nat) : List (K × V) → List K → List (K × V)
  | m, [] => m
  | m, k :: ks => run keq f cap (call keq f cap m k).2 ks

end Memo

/-! ## Python keys -/

inductive PyKey
  | none
  | bool (b : Bool)
  | int (i : Int)
  | float (i : Int)                          -- the float `i.0`
  | str (s : String)
  | markup (s : String)                      -- `Markup(s)`
  | obj (id : Nat)                           -- compared by identity
  | datetime (instant : Int) (offset : Int)  -- aware datetime: UTC instant (minutes), zone offset (minutes)
  deriving DecidableEq, Repr

/-- what Python's `==` (and `hash`) can see of a key -/
inductive Canon
  | none
  | num (i : Int)
  | text (s : String)
  | obj (id : Nat)
  | instant (i : Int)
  deriving DecidableEq, Repr

def canon : PyKey → Canon
  | .none => .none
  | .bool b => .num (if b then 1 else 0)
  | .int i => .num i
  | .float i => .num i
  | .str s => .text s
  | .markup s => .text s
  | .obj id => .obj id
  | .datetime i _ => .instant i

/-- Python `a == b` on keys: `True == 1 == 1.0`, `Markup("x") == "x"`, equal instants in different zones -/
def pyEq (a b : PyKey) : Bool := canon a == canon b

/-- `==` on argument tuples -/
def keyEq : List PyKey → List PyKey → Bool
  | [], [] => true
  | a :: as, b :: bs => pyEq a b && keyEq as bs
  | _, _ => false

/-- `functools._make_key` fast path: a call with exactly one positional argument whose type is exactly `int` or
    `str` is keyed by the bare value; every other call by a `_HashedSeq` (a list) of its arguments.  A bare value
    never equals a list, so `f(1)` and `f(True)` / `f(1.0)` — and `f("x")` and `f(Markup("x"))` — are different
    entries, while `f(1, "x")` and `f(True, Markup("x"))` are the same one. -/
def isFast : PyKey → Bool
  | .int _ => true
  | .str _ => true
  | _ => false

/-- equality of two `lru_cache` keys built from argument tuples -/
def lruKeyEq (a b : List PyKey) : Bool :=
  match a, b with
  | [x], [y] => if isFast x || isFast y then isFast x && isFast y && pyEq x y else pyEq x y
  | _, _ => keyEq a b

/-! ## The removed `date` memo (kept as the witness of why an equality-keyed memo is unsound for it) -/

/-- what `date(dat, fmt)` can depend on and `==` cannot see: the zone offset of `dat` (`%z`, `%H`) and whether
    `fmt` is a `Markup` (under autoescape the result is then marked safe).  `(local minutes, offset, safe)` -/
def dateF : List PyKey → Int × Int × Bool
  | [.datetime i off, .markup _] => (i + off, off, true)
  | [.datetime i off, _] => (i + off, off, false)
  | _ => (0, 0, false)

/-! ## The caching loaders' key (`CachingLoaderMixin.cache_key`) -/

/-- the namespace of a request: absent (no such keyword argument and no such context global), or present with the
    text `f"{value}"` (`0 → "0"`, `"" → ""`, `False → "False"`, `None → "None"`) -/
inductive Ns
  | absent
  | val (s : String)
  deriving DecidableEq, Repr

structure LReq where
  ns : Ns
  name : String
  deriving DecidableEq, Repr

/-- `cache_key(name, context, args)`: without a `namespace_key` the name; with one, `f"{namespace}/{name}"` when the
    request carries the namespace — **whatever its truth value** — else the name -/
def cacheKey (nsKeySet : Bool) (r : LReq) : String :=
  if !nsKeySet then r.name else
  match r.ns with
  | .absent => r.name
  | .val s => s ++ "/" ++ r.name

/-! ## The process -/

structure Proc (Lx Ps : Type) where
  lexers : List (List PyKey × Lx)
  parsers : List (List PyKey × Ps)

/-- one `env.from_string(src).render(data)`: the six delimiter strings, the environment, the request payload -/
structure Req (P : Type) where
  delims : List PyKey
  env : Nat
  payload : P

/-- `get_lexer(*delims)` (maxsize 128), `get_parser(env)` (maxsize 128), then everything else is a function of the
    lexer, the parser and the request -/
def renderP {Lx Ps P O : Type} (mkLexer : List PyKey → Lx) (mkParser : List PyKey → Ps) (out : Lx → Ps → Req P → O)
    (p : Proc Lx Ps) (r : Req P) : O × Proc Lx Ps :=
  let (lx, lc) := call lruKeyEq mkLexer 128 p.lexers r.delims
  let (ps, pc) := call lruKeyEq mkParser 128 p.parsers [.obj r.env]
  (out lx ps r, { lexers := lc, parsers := pc })

def runP {Lx Ps P O : Type} (mkLexer : List PyKey → Lx) (mkParser : List PyKey → Ps) (out : Lx → Ps → Req P → O) :
    Proc Lx Ps → List (Req P) → Proc Lx Ps
  | p, [] => p
  | p, r :: rs => runP mkLexer mkParser out (renderP mkLexer mkParser out p r).2 rs

end LiquidVerif.MemoHist
