import LiquidVerif.Model.Value
/-!
# Model of Liquid's condition operators and of the tags that branch on them

`liquid/builtin/expressions/logical.py`: `_eq` (its two swaps and the `bool` guard), `_lt`, `_contains`,
`Le/Ge = _eq or _lt`, `Ne = not _eq`, `Gt = _lt` with swapped operands;
`liquid/builtin/tags/if_tag.py`, `unless_tag.py`, `case_tag.py`: which block is rendered.
Same branch order as the code.  `_contains` is modelled **after** the two `fix:` commits of branch `fix-C12`
(membership in list / dict / range by `_eq`, booleans searched for as `"true"`).
Core Lean only.
-/
namespace LiquidVerif.Cond
open LiquidVerif.Value

/-- what evaluating a condition can do: a value, `LiquidTypeError`, or a host (non-Liquid) exception
    (`decimal.InvalidOperation` when a `Decimal` is ordered against a float NaN) -/
inductive Res (α : Type)
  | ok (a : α) | typeError | hostError
  deriving DecidableEq, Repr

def Res.bind {α β} : Res α → (α → Res β) → Res β
  | .ok a, f => f a
  | .typeError, _ => .typeError
  | .hostError, _ => .hostError

/-- `_eq(left, right)` -/
def liquidEq (a b : Val) : Bool :=
  let l := toLiquid a
  let r := toLiquid b
  -- if isinstance(right, (Empty, Blank)): left, right = right, left
  let (l, r) := if r.isSentinel then (r, l) else (l, r)
  -- if isinstance(right, bool): left, right = right, left
  let (l, r) := if r.isBool then (r, l) else (l, r)
  -- if isinstance(left, bool): return isinstance(right, bool) and left == right
  if l.isBool then r.isBool && pyEq l r else pyEq l r

/-- `Decimal.__lt__(float('nan'))` (either way round) signals `decimal.InvalidOperation` -/
def decVsNan (l r : Val) : Bool :=
  match l, r with
  | .dec _, .float .nan => true
  | .float .nan, .dec _ => true
  | _, _ => false

/-- `_lt(token, left, right)` -/
def liquidLt (a b : Val) : Res Bool :=
  let l := toLiquid a
  let r := toLiquid b
  match l.text?, r.text? with
  | some s, some t => .ok (decide (s < t))          -- both str: code-point lexicographic
  | _, _ =>
    if l.isBool || r.isBool then .ok false else      -- a bool on either side: False
    match l.num?, r.num? with
    | some x, some y => (match decVsNan l r with | true => .hostError | false => .ok (x.lt y))
    | _, _ => .typeError

/-- `needle in hay` for `str` -/
def isInfixB (needle : List Char) : List Char → Bool
  | [] => needle.isEmpty
  | c :: t => needle.isPrefixOf (c :: t) || isInfixB needle t

/-- `str(right)` as `_contains` uses it (a truthy right operand).  For float / Decimal / list / dict / range
    the text is CPython's `repr`-style rendering, supplied by the host (`hostStr`). -/
def strOfRight (hostStr : String) : Val → String
  | .str s => s
  | .markup s => s
  | .bool b => if b then "true" else "false"
  | .int i => toString i
  | .empty => ""
  | .blank => ""
  | _ => hostStr

/-- `any(_eq(i, right) for i in range(lo, hi))` -/
def rangeAny (lo hi : Int) (b : Val) : Bool :=
  (List.range (hi - lo).toNat).any fun k => liquidEq (.int (lo + (k : Int))) b

/-- `_contains(token, left, right)` -/
def liquidContains (hostStr : String) (a b : Val) : Res Bool :=
  if !isTruthy a || !isTruthy b then .ok false else
  match a with
  | .str s => .ok (isInfixB (strOfRight hostStr b).toList s.toList)
  | .markup s => .ok (isInfixB (strOfRight hostStr b).toList s.toList)
  | .list xs => .ok (xs.any fun x => liquidEq x b)
  | .dict kvs => .ok (kvs.any fun kv => liquidEq (.str kv.1) b)
  | .range lo hi => .ok (rangeAny lo hi b)
  | _ => .typeError

/-- the comparison / membership node classes (`!=` and `<>` both build `NeExpression`) -/
inductive Cmp | eq | ne | lt | gt | le | ge | contains
  deriving DecidableEq, Repr

/-- `XxExpression.evaluate` given the operand values -/
def evalCmp (hostStr : String) : Cmp → Val → Val → Res Bool
  | .eq, a, b => .ok (liquidEq a b)
  | .ne, a, b => .ok (!liquidEq a b)
  | .lt, a, b => liquidLt a b
  | .gt, a, b => liquidLt b a
  | .le, a, b => if liquidEq a b then .ok true else liquidLt a b
  | .ge, a, b => if liquidEq a b then .ok true else liquidLt b a
  | .contains, a, b => liquidContains hostStr a b

/-! ## tags -/

/-- walk the conditions of `if … elsif …` in order; `some i` = the i-th conditional block is rendered,
    `none` = the `else` block (or nothing).  A later condition is not evaluated once a block is chosen. -/
def selectFrom (i : Nat) : List (Res Bool) → Res (Option Nat)
  | [] => .ok none
  | .ok true :: _ => .ok (some i)
  | .ok false :: r => selectFrom (i + 1) r
  | .typeError :: _ => .typeError
  | .hostError :: _ => .hostError

/-- `IfNode.render_to_output` -/
def ifSelect (conds : List (Res Bool)) : Res (Option Nat) := selectFrom 0 conds

/-- `UnlessNode.render_to_output`: only the first condition is negated -/
def unlessSelect : List (Res Bool) → Res (Option Nat)
  | [] => .ok none
  | c :: r => selectFrom 0 (c.bind (fun b => .ok (!b)) :: r)

/-- `TernaryFilteredExpression.evaluate`: `some true` = left, `some false` = the alternative, `none` = nil -/
def ternarySelect (cond : Res Bool) (hasElse : Bool) : Res (Option Bool) :=
  cond.bind fun c => .ok (if c then some true else if hasElse then some false else none)

inductive CaseBlock
  | when (vals : List Val)
  | else_
  deriving Repr

/-- `CaseNode.render_to_output`: how many times each block is rendered (a `when` block once per matching
    value; an `else` block iff no earlier `when` matched) -/
def caseGo (subj : Val) : Bool → List CaseBlock → List Nat
  | _, [] => []
  | d, .when vs :: r =>
    let c := (vs.filter fun v => liquidEq subj v).length
    c :: caseGo subj (d && c == 0) r
  | d, .else_ :: r => (if d then 1 else 0) :: caseGo subj d r

def caseRender (subj : Val) (blocks : List CaseBlock) : List Nat := caseGo subj true blocks

end LiquidVerif.Cond
