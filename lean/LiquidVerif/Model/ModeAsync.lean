import LiquidVerif.Model.Mode
/-!
The asynchronous render loop of python-liquid as its own modelled function (property C03, deepening round).

`BoundTemplate.render_with_context_async` (`liquid/template.py`) is a hand-maintained copy of `render_with_context`:
the same three `except` arms around `await node.render_async(context, buffer)`.  `templateLoopAsync` mirrors it arm by
arm.  The node-level twins (`render_to_output_async` of every node class) are C01's subject: every such pair carries a
kernel-checked erase-equality obligation or a reviewed residual there, so here a node's async render is its sync render
with the *async* template renderer plugged in for partials (`include`/`render`/`extends` await
`render_with_context_async`).  No Mathlib.
-/
namespace LiquidVerif.Mode

/-- the `for node in self.nodes` loop of `BoundTemplate.render_with_context_async` -/
def templateLoopAsync {σ} (cfg : Cfg σ) (rnA : Node σ → RS σ → RS σ × Sig) (isPartial blockScope : Bool) :
    List (Node σ) → RS σ → RS σ × Sig
  | [], rs => (rs, .done)
  | n :: ns, rs =>
    match rnA n rs with                                   -- await node.render_async(context, buffer)
    | (rs', .done) => templateLoopAsync cfg rnA isPartial blockScope ns rs'
    | (rs', .stop) => (rs', .done)                       -- except StopRender: break
    | (rs', .err e) =>                                   -- except LiquidError: self.env.error(err, token=node.token)
      match cfg.error rs'.log e with
      | .error e' => (rs', .err e')
      | .ok log => templateLoopAsync cfg rnA isPartial blockScope ns { rs' with log := log }
    | (rs', s) =>                                        -- except LiquidInterrupt
      if !isPartial || blockScope then
        match cfg.error rs'.log synErr with
        | .error e' => (rs', .err e')
        | .ok log => templateLoopAsync cfg rnA isPartial blockScope ns { rs' with log := log }
      else (rs', s)                                      -- raise

/-- `render_with_context_async` with the remaining context-depth budget -/
def renderTemplateAsync {σ} (cfg : Cfg σ) : Nat → RenderTemplateFn σ
  | 0 => fun _ _ _ rs => (rs, .err depthErr)
  | d + 1 => fun nodes isPartial blockScope rs =>
    templateLoopAsync cfg (renderNode cfg (renderTemplateAsync cfg d)) isPartial blockScope nodes rs

/-- `BoundTemplate.render_async` -/
def renderAsync {σ} (cfg : Cfg σ) (nodes : List (Node σ)) (st : σ) (log : Log) : RS σ × Sig :=
  renderTemplateAsync cfg (cfg.depthLimit + 1) nodes false false ⟨st, "", log⟩

/-- `await env.from_string(src).render_async(data)` -/
def runAsync {σ} (cfg : Cfg σ) (src : List (Tok σ)) (st : σ) : Outcome :=
  match parseTemplate cfg src {} with
  | .error e => .parseError e
  | .ok (nodes, log) =>
    match renderAsync cfg nodes st log with
    | (rs, .done) => .ok rs.out rs.log
    | (rs, .err e) => .renderError e rs.log
    | _ => .interrupt

/-- the async loop is the sync loop -/
theorem templateLoopAsync_eq {σ} (cfg : Cfg σ) (rn : Node σ → RS σ → RS σ × Sig) (p b : Bool) :
    ∀ (ns : List (Node σ)) (rs : RS σ), templateLoopAsync cfg rn p b ns rs = templateLoop cfg rn p b ns rs := by
  intro ns
  induction ns with
  | nil => intro rs; rfl
  | cons n ns ih =>
    intro rs
    simp only [templateLoopAsync, templateLoop]
    cases rn n rs with
    | mk rs' s =>
      cases s with
      | done => exact ih rs'
      | stop => rfl
      | err e =>
        dsimp only
        cases cfg.error rs'.log e with
        | error e' => rfl
        | ok log => exact ih _
      | brk =>
        dsimp only
        split
        · cases cfg.error rs'.log synErr with
          | error e' => rfl
          | ok log => exact ih _
        · rfl
      | cont =>
        dsimp only
        split
        · cases cfg.error rs'.log synErr with
          | error e' => rfl
          | ok log => exact ih _
        · rfl

theorem renderTemplateAsync_eq {σ} (cfg : Cfg σ) : ∀ d, (renderTemplateAsync cfg d : RenderTemplateFn σ) = renderTemplate cfg d := by
  intro d
  induction d with
  | zero => rfl
  | succ d ih =>
    funext nodes p b rs
    simp only [renderTemplateAsync, renderTemplate, ih]
    exact templateLoopAsync_eq cfg _ p b nodes rs

theorem renderAsync_eq {σ} (cfg : Cfg σ) (nodes : List (Node σ)) (st : σ) (log : Log) :
    renderAsync cfg nodes st log = render cfg nodes st log := by
  unfold renderAsync render
  rw [renderTemplateAsync_eq]

theorem runAsync_eq {σ} (cfg : Cfg σ) (src : List (Tok σ)) (st : σ) : runAsync cfg src st = run cfg src st := by
  unfold runAsync run
  cases parseTemplate cfg src {} with
  | error e => rfl
  | ok r =>
    obtain ⟨nodes, log⟩ := r
    simp only [renderAsync_eq]
    cases render cfg nodes st log with
    | mk rs s => cases s <;> rfl

end LiquidVerif.Mode
