import LiquidVerif.Model.PyStr
import LiquidVerif.Model.Dec
/-!
Model of the built-in filters of `liquid/builtin/filters/{string,array,misc}.py`, the decorators of
`liquid/filter.py` (`string_filter`, `sequence_filter`/`flatten`, `liquid_filter`, `int_arg`/`to_int`)
and `liquid/utils/text.py` (`truncate_chars`), as the code is written.

* A Python `str` is a `List Char` (code points).  Case mapping and whitespace are the **ASCII**
  fragment of `str.upper/lower/capitalize/strip/split` (whitespace = 9..13, 28..31, 32).
* A Python value is a `Val` (nil, undefined, bool, int, float as the exact ratio of
  `float.as_integer_ratio()`, str, list, dict with string keys in insertion order).
* Every filter returns `Except Err Val`; `Err` is the *class* of the exception the caller sees.
  `Err.unmodelled` marks inputs outside the modelled fragment (never a Python behaviour).

Numbers (`math.py`, exact decimals, nearest-double rounding, `repr(float)`) are in `Model/Dec.lean`.
-/
namespace LiquidVerif.Filters

inductive Val where
  | nil
  | undef
  | bool (b : Bool)
  | int (i : Int)
  | flt (num : Int) (den : Nat)
  | str (s : Str)
  | list (xs : List Val)
  | dict (kvs : List (Str × Val))
  deriving Repr, Inhabited

/-- exception class seen by the caller of a filter -/
inductive Err where
  | arg         -- FilterArgumentError
  | value       -- FilterValueError
  | filter      -- FilterError
  | unmodelled  -- outside the modelled fragment (not a Python behaviour)
  deriving Repr, DecidableEq

abbrev R := Except Err Val

/-- `liquid.limits.to_int(val)` = `int(val)`; `none` stands for ValueError/TypeError (both end as
FilterArgumentError in every caller modelled here). -/
def toInt : Val → Option Int
  | .int i => some i
  | .bool b => some (if b then 1 else 0)
  | .flt n d => some (Int.tdiv n d)
  | .str s => parseIntStr s
  | .undef => some 0
  | _ => none

def isUndef : Val → Bool
  | .undef => true
  | _ => false


/-! ## Python `str(x)`, truthiness, `==`, `<` on values -/

/-- `str(val)`; `none`: a list/dict repr, outside the modelled fragment -/
def pyStr : Val → Option Str
  | .nil => some "None".toList
  | .undef => some []
  | .bool true => some "True".toList
  | .bool false => some "False".toList
  | .int i => some (toString i).toList
  | .flt n d => some (reprFloat n d)
  | .str s => some s
  | .list _ => none
  | .dict _ => none

/-- the `string_filter` decorator's conversion of the left value -/
def strLeft : Val → Option Str
  | .nil => some []
  | v => pyStr v

/-- Python truthiness (`if key:`) -/
def truthy : Val → Bool
  | .nil => false
  | .undef => false          -- `Undefined.__len__` is 0
  | .bool b => b
  | .int i => i != 0
  | .flt n _ => n != 0
  | .str s => !s.isEmpty
  | .list xs => !xs.isEmpty
  | .dict kvs => !kvs.isEmpty

/-- lexicographic `<` on code-point lists (Python `str.__lt__`) -/
def strLt : Str → Str → Bool
  | [], [] => false
  | [], _ :: _ => true
  | _ :: _, [] => false
  | a :: as, b :: bs => if a.toNat < b.toNat then true else if b.toNat < a.toNat then false else strLt as bs

/-- Python `==` is modelled as equality of a canonical serialisation: numbers by exact value
(`True == 1 == 1.0`), `None == Undefined`, lists element-wise, dicts as key-sorted entries. -/
inductive Tok where
  | nil | num (n : Int) (d : Nat) | str (s : Str) | lb | rb | lc | rc | key (s : Str)
  deriving Repr, DecidableEq

def insertEntry (e : Str × List Tok) : List (Str × List Tok) → List (Str × List Tok)
  | [] => [e]
  | f :: r => if strLt f.1 e.1 then f :: insertEntry e r else e :: f :: r

mutual
def ser : Val → List Tok
  | .nil => [.nil]
  | .undef => [.nil]
  | .bool b => [.num (if b then 1 else 0) 1]
  | .int i => [.num i 1]
  | .flt n d => [.num n d]
  | .str s => [.str s]
  | .list xs => .lb :: serList xs ++ [.rb]
  | .dict kvs => .lc :: ((serKvs kvs).foldr insertEntry []).flatMap (fun e => .key e.1 :: e.2) ++ [.rc]
def serList : List Val → List Tok
  | [] => []
  | x :: xs => ser x ++ serList xs
def serKvs : List (Str × Val) → List (Str × List Tok)
  | [] => []
  | (k, v) :: r => (k, ser v) :: serKvs r
end

def pyEq (a b : Val) : Bool := decide (ser a = ser b)

/-- ordering class of a value for Python `<`: numbers compare by value, strings lexicographically;
`none` = no `<` against anything modelled (TypeError) -/
inductive Key where
  | num (n : Int) (d : Nat)
  | str (s : Str)
  | bad        -- nil, undefined, dict: `<` raises TypeError
  | lst        -- list: Python compares lists lexicographically — outside the modelled fragment
  deriving Repr, DecidableEq

def keyOf : Val → Key
  | .bool b => .num (if b then 1 else 0) 1
  | .int i => .num i 1
  | .flt n d => .num n d
  | .str s => .str s
  | .list _ => .lst
  | _ => .bad

/-- exact `a/b < c/d` for positive denominators -/
def ratLt (a : Int) (b : Nat) (c : Int) (d : Nat) : Bool := a * (d : Int) < c * (b : Int)

def keyLt : Key → Key → Bool
  | .num a b, .num c d => ratLt a b c d
  | .str s, .str t => strLt s t
  | _, _ => false

def Key.isNum : Key → Bool | .num _ _ => true | _ => false
def Key.isStr : Key → Bool | .str _ => true | _ => false

/-- stable insertion: `x` goes before the first element that is not smaller than it -/
def insertBy {α} (lt : α → α → Bool) (x : α) : List α → List α
  | [] => [x]
  | y :: ys => if lt y x then y :: insertBy lt x ys else x :: y :: ys

/-- stable sort (the result of Python's `sorted` for a strict weak order) -/
def sortBy {α} (lt : α → α → Bool) : List α → List α
  | [] => []
  | x :: xs => insertBy lt x (sortBy lt xs)

inductive SortErr where | typeError | unmodelled deriving Repr, DecidableEq

/-- `sorted(xs, key=k)`: with fewer than two items nothing is compared; otherwise every key must be a
number, or every key a string (any mixture makes CPython's sort raise `TypeError`). -/
def pySorted (k : Val → Key) (xs : List Val) : Except SortErr (List Val) :=
  if xs.length ≤ 1 then .ok xs
  else if xs.all (fun x => (k x).isNum) || xs.all (fun x => (k x).isStr) then
    .ok (sortBy (fun a b => keyLt (k a) (k b)) xs)
  else if xs.any (fun x => k x == .lst) then .error .unmodelled
  else .error .typeError

/-! ## `sequence_filter`: `flatten` and coercion of the left value -/

mutual
/-- `flatten(it, level)` of `liquid/filter.py` -/
def flatten (level : Nat) : List Val → List Val
  | [] => []
  | x :: xs => flattenItem level x ++ flatten level xs
def flattenItem (level : Nat) : Val → List Val
  | .list ys => match level with
    | 0 => [.list ys]
    | l + 1 => flatten l ys
  | v => [v]
end

/-- the iteration content of the left value after `sequence_filter` (`Undefined` iterates as empty) -/
def seqOf : Val → List Val
  | .list xs => flatten 5 xs
  | .undef => []
  | v => [v]

/-! ## `_getitem` (array.py) with a string key -/

inductive GetErr where
  | itemType      -- FilterItemTypeError: the item is None — `sequence_filter` turns it into a `None` result
  | typeError     -- TypeError re-raised: the item has no `__getitem__`
  deriving Repr, DecidableEq

def lookup (k : Str) : List (Str × Val) → Option Val
  | [] => none
  | (k', v) :: r => if k' == k then some v else lookup k r

/-- `key in sequence` for strings (substring test) -/
def isInfix (p : Str) : Str → Bool
  | [] => p.isEmpty
  | c :: cs => hasPrefix p (c :: cs) || isInfix p cs

def getItem (itm : Val) (key : Str) (dflt : Val) : Except GetErr Val :=
  match itm with
  | .dict kvs => .ok ((lookup key kvs).getD dflt)
  | .undef => .ok .undef
  | .nil => .error .itemType
  | .str s => .ok (if isInfix key s then .str key else dflt)
  | .list _ => .ok dflt
  | _ => .error .typeError

def mapM' {α β ε} (f : α → Except ε β) : List α → Except ε (List β)
  | [] => .ok []
  | x :: xs => match f x with
    | .error e => .error e
    | .ok y => match mapM' f xs with
      | .error e => .error e
      | .ok ys => .ok (y :: ys)

def filterM' {α ε} (f : α → Except ε Bool) : List α → Except ε (List α)
  | [] => .ok []
  | x :: xs => match f x with
    | .error e => .error e
    | .ok b => match filterM' f xs with
      | .error e => .error e
      | .ok ys => .ok (if b then x :: ys else ys)

/-! ## array filters -/

/-- `x in (False, None)` -/
def isFalseOrNone (v : Val) : Bool := pyEq v (.bool false) || pyEq v .nil

/-- how `sequence_filter` + the wrapper turn a `_getitem` failure into the caller's outcome -/
def liftGet (dflt : Err) : Except GetErr Val → R
  | .ok v => .ok v
  | .error .itemType => .ok .nil            -- `except FilterItemTypeError: return None`
  | .error .typeError => .error dflt

def fSize : Val → Val
  | .str s => .int s.length
  | .list xs => .int xs.length
  | .dict kvs => .int kvs.length
  | _ => .int 0

def fFirst : Val → Val
  | .list (x :: _) => x
  | .dict ((k, v) :: _) => .list [.str k, v]
  | .undef => .undef
  | _ => .nil

def fLast : Val → Val
  | .list xs => xs.getLast?.getD .nil
  | .undef => .undef
  | _ => .nil

def fReverse (v : Val) : Val := .list (seqOf v).reverse

def fConcat (left second : Val) : R :=
  match second with
  | .list ys => if isUndef left then .ok (.list ys) else .ok (.list (seqOf left ++ ys))
  | _ => .error .arg

def fCompact (left : Val) : Val := .list ((seqOf left).filter fun v => match v with | .nil => false | _ => true)

/-- `uniq` without a key: keep an item iff no earlier item is `==` to it (`sequence.index(obj) == i`) -/
def uniqFrom (seen : List Val) : List Val → List Val
  | [] => []
  | x :: r => if seen.any (fun y => pyEq y x) then uniqFrom (seen ++ [x]) r else x :: uniqFrom (seen ++ [x]) r

def fUniq (left : Val) : Val := .list (uniqFrom [] (seqOf left))

def fMap (left key : Val) : R :=
  match pyStr key with
  | none => .error .unmodelled
  | some k =>
    match mapM' (fun itm => getItem itm k .nil) (seqOf left) with
    | .ok ys => .ok (.list ys)
    | .error .itemType => .ok .nil
    | .error .typeError => .error .filter      -- `except TypeError: raise FilterError("can't map sequence")`

/-- `where`/`reject` share this: the test applied to `_getitem(itm, attr)` -/
def attrTest (value : Val) (positive : Bool) (got : Val) : Bool :=
  match value with
  | .nil | .undef => if positive then !isFalseOrNone got else isFalseOrNone got
  | v => if positive then pyEq got v else !pyEq got v

def selectBy (positive : Bool) (left : Val) (attr : Str) (value : Val) : R :=
  match filterM' (fun itm => (getItem itm attr .nil).map (attrTest value positive)) (seqOf left) with
  | .ok ys => .ok (.list ys)
  | .error .itemType => .ok .nil
  | .error .typeError => .error .arg

def fWhere (left attr value : Val) : R :=
  match attr with
  | .str a => selectBy true left a value
  | _ => .error .unmodelled

def fReject (left attr value : Val) : R :=
  match attr with
  | .nil | .undef => .ok (.list [])
  | .str a => selectBy false left a value
  | _ => .error .unmodelled

def MAX_CH : Str := [Char.ofNat 0x10FFFF]

def fSort (left key : Val) : R :=
  if truthy key then
    match pyStr key with
    | none => .error .unmodelled
    | some k =>
      match mapM' (fun itm => getItem itm k (.str MAX_CH)) (seqOf left) with
      | .error .itemType => .ok .nil
      | .error .typeError => .error .arg
      | .ok _ =>
        match pySorted (fun itm => match getItem itm k (.str MAX_CH) with | .ok v => keyOf v | .error _ => .bad) (seqOf left) with
        | .ok ys => .ok (.list ys)
        | .error .typeError => .error .arg
        | .error .unmodelled => .error .unmodelled
  else
    match pySorted keyOf (seqOf left) with
    | .ok ys => .ok (.list ys)
    | .error .typeError => .error .filter
    | .error .unmodelled => .error .unmodelled

/-- `_lower(obj)` = `str(obj).lower()` -/
def lowerKey (v : Val) : Option Str := (pyStr v).map downcase

def fSortNatural (left key : Val) : R :=
  if truthy key then
    match pyStr key with
    | none => .error .unmodelled
    | some k =>
      match mapM' (fun itm => getItem itm k (.str MAX_CH)) (seqOf left) with
      | .error .itemType => .ok .nil
      | .error .typeError => .error .arg
      | .ok ks =>
        if ks.all (fun v => (lowerKey v).isSome) then
          .ok (.list (sortBy (fun a b =>
            match getItem a k (.str MAX_CH), getItem b k (.str MAX_CH) with
            | .ok x, .ok y => strLt ((lowerKey x).getD []) ((lowerKey y).getD [])
            | _, _ => false) (seqOf left)))
        else .error .unmodelled
  else
    if (seqOf left).all (fun v => (lowerKey v).isSome) then
      .ok (.list (sortBy (fun a b => strLt ((lowerKey a).getD []) ((lowerKey b).getD [])) (seqOf left)))
    else .error .unmodelled

/-- `_str_if_not(item)`; the error is "outside the model" (list/dict repr) -/
def strItem (v : Val) : Except Unit Str :=
  match pyStr v with
  | some s => .ok s
  | none => .error ()

def fJoin (left sep : Val) : R :=
  match pyStr sep, mapM' strItem (seqOf left) with
  | some sp, .ok ss => .ok (.str (joinStr sp ss))
  | _, _ => .error .unmodelled

/-! ## string filters -/

def fSplit (left sep : Val) : R :=
  match strLeft left with
  | none => .error .unmodelled
  | some val =>
    let chars : Val := .list (val.map fun c => .str [c])
    match sep with
    | .undef => .ok chars
    | .nil => .ok chars
    | .str [] => .ok chars
    | _ =>
      match pyStr sep with
      | none => .error .unmodelled
      | some sp =>
        if val.isEmpty || val == sp then .ok (.list [])
        else if sp == [' '] then .ok (.list ((splitWs val).map .str))
        else if sp.isEmpty then .error .unmodelled
        else .ok (.list ((splitOn sp val).map .str))

def strOp (f : Str → Str) (left : Val) : R :=
  match strLeft left with
  | none => .error .unmodelled
  | some s => .ok (.str (f s))

def fTruncate (left num e : Val) : R :=
  match strLeft left with
  | none => .error .unmodelled
  | some val =>
    if isUndef num then .error .arg else
    match toInt num with
    | none => .error .arg
    | some n =>
      match pyStr e with
      | none => .error .unmodelled
      | some es => .ok (.str (truncateChars val n es))

def fTruncateWords (left num e : Val) : R :=
  match strLeft left with
  | none => .error .unmodelled
  | some val =>
    if isUndef num then .error .arg else
    match toInt num with
    | none => .error .arg
    | some n =>
      match pyStr e with
      | none => .error .unmodelled
      | some es => .ok (.str (truncateWords val n es))

/-! ## `slice` -/

def MAX_SLICE_ARG : Int := 9223372036854775807
def MIN_SLICE_ARG : Int := -9223372036854775808

def sliceArg : Val → Option Int
  | .flt _ _ => none
  | v => (toInt v).map fun rv => max (min rv MAX_SLICE_ARG) MIN_SLICE_ARG

/-- Python `xs[start:stop]` (`stop = none` is an omitted bound) -/
def pySlice {α} (xs : List α) (start : Int) (stop : Option Int) : List α :=
  let len : Int := xs.length
  let norm (i : Int) : Int := if i < 0 then max (i + len) 0 else min i len
  let a := norm start
  let b := match stop with | none => len | some s => norm s
  (xs.take b.toNat).drop a.toNat

def fSlice (val start length : Val) : R :=
  let target : Option (Sum Str (List Val)) := match val with
    | .list xs => some (.inr xs)
    | .str s => some (.inl s)
    | v => (pyStr v).map .inl
  match target with
  | none => .error .unmodelled
  | some t =>
    if isUndef start then .error .arg else
    let length := if isUndef length then Val.int 1 else length
    match sliceArg start, sliceArg length with
    | some st, some ln0 =>
      let ln := max ln0 0          -- `_length = max(_slice_arg(length), 0)`
      let e := st + ln
      let stop : Option Int := if st < 0 && 0 ≤ e then none else some e
      match t with
      | .inl s => .ok (.str (pySlice s st stop))
      | .inr xs => .ok (.list (pySlice xs st stop))
    | _, _ => .error .arg

/-! ## `default` -/

def isEmptyVal : Val → Bool
  | .str [] => true
  | .list [] => true
  | .dict [] => true
  | _ => false

/-- `default(obj, default_, allow_false=…)` as written -/
def fDefault (obj dflt : Val) (allowFalse : Bool) : Val :=
  match obj with
  | .int _ => obj
  | .flt _ _ => obj
  | _ =>
    -- `_obj = obj.__liquid__()` : Undefined ↦ None
    let o := match obj with | .undef => Val.nil | v => v
    if allowFalse && (match o with | .bool false => true | _ => false) then obj
    else if isFalseOrNone o || isEmptyVal o then dflt
    else obj

/-! ## math filters -/

inductive Num where
  | int (i : Int)
  | flt (n : Int) (d : Nat)
  deriving Repr, DecidableEq

def Num.toVal : Num → Val
  | .int i => .int i
  | .flt n d => .flt n d

/-- `num_arg(val, default)`; `dflt = none` is the call without a default (raises FilterArgumentError) -/
def numArg (v : Val) (dflt : Option Num) : Except Err Num :=
  match v with
  | .int i => .ok (.int i)
  | .bool _ => .error .unmodelled       -- a bool is returned as itself; kept out of the model
  | .flt n d => .ok (.flt n d)
  | .str s =>
    match parseIntStr s with
    | some i => .ok (.int i)
    | none =>
      if isSpecialFloatWord (strip s) then .error .unmodelled else
      match parseFloatDec s with
      | some (c, e) => match decToDouble c e with
        | some (n, d) => .ok (.flt n d)
        | none => .error .unmodelled
      | none => match dflt with
        | some x => .ok x
        | none => .error .arg
  | _ => match dflt with
    | some x => .ok x
    | none => .error .arg

def Num.dec : Num → Dec
  | .int i => Dec.ofInt i
  | .flt n d => Dec.ofFloat n d

def Num.ratio : Num → Int × Nat
  | .int i => (i, 1)
  | .flt n d => (n, d)

def numLt (a b : Num) : Bool := ratLt a.ratio.1 a.ratio.2 b.ratio.1 b.ratio.2

def ofDouble : Option (Int × Nat) → Except Err Num
  | some (n, d) => .ok (.flt n d)
  | none => .error .unmodelled

/-- `float(Decimal(str(a)) ∘ Decimal(str(b)))` -/
def decOp (op : Dec → Dec → Dec) (a b : Num) : Except Err Num := ofDouble (op a.dec b.dec).toDouble

def mPlus (a b : Num) : Except Err Num :=
  match a, b with
  | .int x, .int y => .ok (.int (x + y))
  | _, _ => decOp Dec.add a b

def mMinus (a b : Num) : Except Err Num :=
  match a, b with
  | .int x, .int y => .ok (.int (x - y))
  | _, _ => decOp Dec.sub a b

def mTimes (a b : Num) : Except Err Num :=
  match a, b with
  | .int x, .int y => .ok (.int (x * y))
  | _, _ => decOp Dec.mul a b

/-- `int → float` conversion of an operand of `/` -/
def Num.asDouble : Num → Option (Int × Nat)
  | .int i => toDouble i 1
  | .flt n d => some (n, d)

def mDividedBy (a b : Num) : Except Err Num :=
  match a, b with
  | .int x, .int y => if y == 0 then .error .arg else .ok (.int (pyFloorDiv x y))
  | _, _ =>
    match a.asDouble, b.asDouble with
    | some (n1, d1), some (n2, d2) =>
      if n2 == 0 then .error .arg
      else
        -- (n1/d1) / (n2/d2) = (n1*d2) / (d1*n2), denominator made positive
        let num := if n2 < 0 then -(n1 * (d2 : Int)) else n1 * (d2 : Int)
        ofDouble (toDouble num (d1 * n2.natAbs))
    | _, _ => .error .unmodelled

/-- `modulo`; `.error .filter` is never produced; a zero *decimal* divisor raises `decimal.InvalidOperation`
(not a Liquid error) — reported as `unmodelled` and kept out of the pools. -/
def mModulo (a b : Num) : Except Err Num :=
  match a, b with
  | .int x, .int y => if y == 0 then .error .arg else .ok (.int (pyMod x y))
  | _, _ => match Dec.rem a.dec b.dec with
    | some r => ofDouble r.toDouble
    | none => .error .unmodelled

def mAbs : Num → Num
  | .int i => .int (i.natAbs : Int)
  | .flt n d => .flt (n.natAbs : Int) d

def mCeil : Num → Num
  | .int i => .int i
  | .flt n d => .int (ceilQ n d)

def mFloor : Num → Num
  | .int i => .int i
  | .flt n d => .int (floorQ n d)

/-- `round(num)` -/
def round0 : Num → Num
  | .int i => .int i
  | .flt n d => .int (roundHalfEven n d)

/-- `round(num, k)` for `k > 0` -/
def roundK (k : Nat) : Num → Except Err Num
  | .int i => .ok (.int i)
  | .flt n d => ofDouble (toDouble (roundHalfEven (n * (10 ^ k : Nat)) d) (10 ^ k))

def mRound (a : Num) (ndigits : Option Val) : Except Err Num :=
  match ndigits with
  | none => .ok (round0 a)
  | some .nil => .ok (round0 a)
  | some .undef => .ok (round0 a)
  | some nd =>
    match numArg nd none with
    | .error .arg => .ok (round0 a)
    | .error e => .error e
    | .ok k =>
      let ki : Int := match k with | .int i => i | .flt n d => Int.tdiv n d
      if ki < 0 then .ok (.int 0)
      else if ki == 0 then .ok (round0 a)
      else roundK ki.toNat a

/-- `min(num, other)`: the first argument wins a tie -/
def mAtMost (a b : Num) : Num := if numLt b a then b else a
/-- `max(num, other)`: the first argument wins a tie -/
def mAtLeast (a b : Num) : Num := if numLt a b then b else a

/-! ## dispatch: filter name, left value, positional arguments (what a template passes) -/

def num2 (f : Num → Num → Except Err Num) (left : Val) (args : List Val) : R :=
  match args with
  | [o] =>
    match numArg left (some (.int 0)), numArg o (some (.int 0)) with
    | .ok a, .ok b => (f a b).map Num.toVal
    | .error e, _ => .error e
    | _, .error e => .error e
  | _ => .error .arg

def num1 (f : Num → Num) (left : Val) (args : List Val) : R :=
  match args with
  | [] => (numArg left (some (.int 0))).map fun a => (f a).toVal
  | _ => .error .arg

def applyFilter (name : String) (left : Val) (args : List Val) : R :=
  match name, args with
  | "size", [] => .ok (fSize left)
  | "first", [] => .ok (fFirst left)
  | "last", [] => .ok (fLast left)
  | "upcase", [] => strOp upcase left
  | "downcase", [] => strOp downcase left
  | "capitalize", [] => strOp capitalize left
  | "strip", [] => strOp strip left
  | "lstrip", [] => strOp lstrip left
  | "rstrip", [] => strOp rstrip left
  | "split", [sep] => fSplit left sep
  | "join", [] => fJoin left (.str [' '])
  | "join", [sep] => fJoin left sep
  | "reverse", [] => .ok (fReverse left)
  | "concat", [second] => fConcat left second
  | "compact", [] => .ok (fCompact left)
  | "uniq", [] => .ok (fUniq left)
  | "map", [key] => fMap left key
  | "where", [attr] => fWhere left attr .nil
  | "where", [attr, value] => fWhere left attr value
  | "reject", [attr] => fReject left attr .nil
  | "reject", [attr, value] => fReject left attr value
  | "sort", [] => fSort left .nil
  | "sort", [key] => fSort left key
  | "sort_natural", [] => fSortNatural left .nil
  | "sort_natural", [key] => fSortNatural left key
  | "slice", [start] => fSlice left start (.int 1)
  | "slice", [start, length] => fSlice left start length
  | "truncate", [] => fTruncate left (.int 50) (.str "...".toList)
  | "truncate", [n] => fTruncate left n (.str "...".toList)
  | "truncate", [n, e] => fTruncate left n e
  | "truncatewords", [] => fTruncateWords left (.int 15) (.str "...".toList)
  | "truncatewords", [n] => fTruncateWords left n (.str "...".toList)
  | "truncatewords", [n, e] => fTruncateWords left n e
  | "default", [] => .ok (fDefault left (.str []) false)
  | "default", [d] => .ok (fDefault left d false)
  | "default_allow_false", [d] => .ok (fDefault left d true)
  | "plus", _ => num2 mPlus left args
  | "minus", _ => num2 mMinus left args
  | "times", _ => num2 mTimes left args
  | "divided_by", _ => num2 mDividedBy left args
  | "modulo", _ => num2 mModulo left args
  | "at_least", _ => num2 (fun a b => .ok (mAtLeast a b)) left args
  | "at_most", _ => num2 (fun a b => .ok (mAtMost a b)) left args
  | "abs", _ => num1 mAbs left args
  | "ceil", _ => num1 mCeil left args
  | "floor", _ => num1 mFloor left args
  | "round", [] => (numArg left (some (.int 0))).bind fun a => (mRound a none).map Num.toVal
  | "round", [nd] => (numArg left (some (.int 0))).bind fun a => (mRound a (some nd)).map Num.toVal
  | _, _ => .error .arg      -- wrong number of arguments: TypeError → FilterArgumentError

end LiquidVerif.Filters
