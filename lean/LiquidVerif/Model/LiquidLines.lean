import LiquidVerif.Model.ExprLex
/-!
Model of `_tokenize_liquid_expression` (`liquid/builtin/tags/liquid_tag.py`): the line scanner run on
the expression of a `{% liquid … %}` tag.

Rules, in order (compiled with `re.DOTALL`):
  LIQUID_EXPR  `[ \t]*(?P<name>#|\w+)[ \t]*(?P<expr>.*?)[ \t\r]*?(\n+|$)`     (no comment marker)
               `[ \t]*(?P<name>(MARKER|\w+))[ \t]*(?P<expr>.*?)[ \t\r]*?(\n+|$)`  (marker =
               `env.comment_start_string.replace("{", "")`, when that is not empty)
  SKIP         `[\r\n]+`
  ILLEGAL      `.`
A line whose name equals the marker is dropped; the first ILLEGAL match raises a syntax error on the
*whole* liquid expression token.  Token offsets are `token.start_index + match.start(group)`.
Like `ExprLex`, every scanner consumes characters and offsets are computed by arithmetic.
-/
namespace LiquidVerif.LiquidLines
open LiquidVerif.ExprLex

def isBlank (c : Char) : Bool := c == ' ' || c == '\t'
def isTrail (c : Char) : Bool := c == ' ' || c == '\t' || c == '\r'
def isNL (c : Char) : Bool := c == '\n'
def isCRNL (c : Char) : Bool := c == '\r' || c == '\n'

/-- `LiquidTag.__init__`: `env.comment_start_string.replace("{", "")` -/
def markerOf (commentStart : List Char) : List Char := commentStart.filter (· != '{')

/-- `(?P<expr>.*?)[ \t\r]*?(\n+|$)`: the shortest expression followed by trailing blanks and a run of
newlines or the end.  Returns (expr, trailing blanks, newlines, rest). -/
def lineEnd : List Char → List Char × List Char × List Char × List Char
  | [] => ([], [], [], [])
  | c :: cs =>
    let tr := spanP isTrail (c :: cs)
    match tr.2 with
    | [] => ([], tr.1, [], [])
    | x :: xs =>
      if isNL x then ([], tr.1, (spanP isNL (x :: xs)).1, (spanP isNL (x :: xs)).2)
      else let r := lineEnd cs; (c :: r.1, r.2.1, r.2.2.1, r.2.2.2)

/-- the `name` group at the head of the input: `#|\w+` when `marker = []`; otherwise `MARKER|\w+`, where a
marker that ends in a word character carries `(?!\w)` (it must not be followed by a word character) -/
def name? (marker : List Char) : List Char → Option (List Char × List Char)
  | [] => none
  | c :: cs =>
    if marker.isEmpty then
      (if c == '#' then some ([c], cs)
       else if isWord c then some (c :: (spanP isWord cs).1, (spanP isWord cs).2) else none)
    else if marker.isPrefixOf (c :: cs) &&
        !((marker.getLast?.map isWord).getD false && (((c :: cs).drop marker.length).head?.map isWord).getD false) then
      some (marker, (c :: cs).drop marker.length)
    else if isWord c then some (c :: (spanP isWord cs).1, (spanP isWord cs).2)
    else none

inductive Kind | expr | skip | illegal
  deriving DecidableEq, Repr

structure LMatch where
  kind : Kind
  raw : List Char
  nameOff : Nat
  name : List Char
  exprOff : Nat
  expr : List Char
  rest : List Char
  deriving Repr

/-- one step of `rules.finditer` on a non-empty input -/
def lineAt (marker : List Char) (c : Char) (r : List Char) : LMatch :=
  let sp1 := spanP isBlank (c :: r)
  match name? marker sp1.2 with
  | some (nm, r2) =>
    let sp2 := spanP isBlank r2
    let le := lineEnd sp2.2
    { kind := .expr, raw := sp1.1 ++ (nm ++ (sp2.1 ++ (le.1 ++ (le.2.1 ++ le.2.2.1)))),
      nameOff := sp1.1.length, name := nm, exprOff := sp1.1.length + nm.length + sp2.1.length, expr := le.1,
      rest := le.2.2.2 }
  | none =>
    if isCRNL c then
      { kind := .skip, raw := c :: (spanP isCRNL r).1, nameOff := 0, name := [], exprOff := 0, expr := [],
        rest := (spanP isCRNL r).2 }
    else { kind := .illegal, raw := [c], nameOff := 0, name := [], exprOff := 0, expr := [], rest := r }

theorem lineEnd_app (cs : List Char) :
    (lineEnd cs).1 ++ ((lineEnd cs).2.1 ++ ((lineEnd cs).2.2.1 ++ (lineEnd cs).2.2.2)) = cs := by
  induction cs with
  | nil => rfl
  | cons c cs ih =>
    have h1 := spanP_app isTrail (c :: cs)
    simp only [lineEnd]
    split
    · next h => rw [h] at h1; simpa using h1
    · next x xs h =>
      rw [h] at h1
      split
      · have h2 := spanP_app isNL (x :: xs)
        simp only [List.nil_append]
        rw [h2]; exact h1
      · simp only [List.cons_append, ih]

theorem name_app (marker cs nm r : List Char) (h : name? marker cs = some (nm, r)) : nm ++ r = cs := by
  unfold name? at h
  split at h
  · cases h
  · next c cs =>
    split at h
    · split at h
      · cases h; rfl
      · split at h
        · cases h; simp [spanP_app]
        · cases h
    · split at h
      · next hp =>
        cases h
        have hp' : marker.isPrefixOf (c :: cs) = true := by
          simp only [Bool.and_eq_true] at hp; exact hp.1
        obtain ⟨t, ht⟩ := List.isPrefixOf_iff_prefix.mp hp'
        rw [← ht]; simp
      · split at h
        · cases h; simp [spanP_app]
        · cases h

/-- with a non-empty marker (or none) a name is never empty -/
theorem name_ne (marker cs nm r : List Char) (h : name? marker cs = some (nm, r)) : nm ≠ [] := by
  unfold name? at h
  split at h
  · cases h
  · split at h
    · split at h
      · cases h; simp
      · split at h
        · cases h; simp
        · cases h
    · next hm =>
      split at h
      · cases h; simpa using hm
      · split at h
        · cases h; simp
        · cases h

/-- a line match splits its input, is non-empty, and its groups lie at the recorded offsets -/
structure LMatch.Ok (m : LMatch) (cs : List Char) : Prop where
  app : m.raw ++ m.rest = cs
  ne : m.raw ≠ []
  nameAt : ∃ pre post, m.raw = pre ++ (m.name ++ post) ∧ pre.length = m.nameOff
  exprAt : ∃ pre post, m.raw = pre ++ (m.expr ++ post) ∧ pre.length = m.exprOff

theorem lineAt_ok (marker : List Char) (c : Char) (r : List Char) : (lineAt marker c r).Ok (c :: r) := by
  unfold lineAt
  simp only
  split
  · next nm r2 hn =>
    have h1 := spanP_app isBlank (c :: r)
    have h2 := name_app _ _ _ _ hn
    have h3 := spanP_app isBlank r2
    have h4 := lineEnd_app (spanP isBlank r2).2
    refine ⟨?_, ?_,
      ⟨(spanP isBlank (c :: r)).1,
       (spanP isBlank r2).1 ++ ((lineEnd (spanP isBlank r2).2).1 ++
         ((lineEnd (spanP isBlank r2).2).2.1 ++ (lineEnd (spanP isBlank r2).2).2.2.1)), rfl, rfl⟩,
      ⟨(spanP isBlank (c :: r)).1 ++ (nm ++ (spanP isBlank r2).1),
       (lineEnd (spanP isBlank r2).2).2.1 ++ (lineEnd (spanP isBlank r2).2).2.2.1,
       by simp only [List.append_assoc], by simp [Nat.add_assoc]⟩⟩
    · simp only [List.append_assoc]
      rw [h4, h3, h2, h1]
    · have := name_ne _ _ _ _ hn
      cases hnm : nm with
      | nil => exact absurd hnm this
      | cons a b => simp
  · split
    · exact ⟨by simp [spanP_app], by simp, ⟨[], c :: (spanP isCRNL r).1, by simp, rfl⟩,
        ⟨[], c :: (spanP isCRNL r).1, by simp, rfl⟩⟩
    · exact ⟨rfl, by simp, ⟨[], [c], by simp, rfl⟩, ⟨[], [c], by simp, rfl⟩⟩

theorem lineAt_rest_lt (marker : List Char) (c : Char) (r : List Char) :
    (lineAt marker c r).rest.length < (c :: r).length := by
  have h := lineAt_ok marker c r
  have h1 := congrArg List.length h.app
  have h2 : (lineAt marker c r).raw.length ≠ 0 := fun h0 => h.ne (List.eq_nil_of_length_eq_zero h0)
  simp only [List.length_append] at h1
  omega

/-- `rules.finditer(source)` with `match.start()` -/
def scanLines (marker : List Char) (pos : Nat) : List Char → List (Nat × LMatch)
  | [] => []
  | c :: r => (pos, lineAt marker c r) :: scanLines marker (pos + (lineAt marker c r).raw.length) (lineAt marker c r).rest
termination_by cs => cs.length
decreasing_by exact lineAt_rest_lt marker c r

/-- inner token: kind ("tag" | "expression"), value, start index -/
structure Token where
  kind : String
  value : List Char
  start : Nat
  deriving Repr, DecidableEq

/-- the generator body: tokens yielded before an ILLEGAL match; `true` when the syntax error is raised -/
def collect (marker : List Char) (base : Nat) : List (Nat × LMatch) → List Token × Bool
  | [] => ([], false)
  | (pos, m) :: ps =>
    match m.kind with
    | .illegal => ([], true)
    | .skip => collect marker base ps
    | .expr =>
      if m.name == marker then collect marker base ps
      else
        let r := collect marker base ps
        let tag : Token := ⟨"tag", m.name, base + (pos + m.nameOff)⟩
        if m.expr.isEmpty then (tag :: r.1, r.2)
        else (tag :: ⟨"expression", m.expr, base + (pos + m.exprOff)⟩ :: r.1, r.2)

/-- `_tokenize_liquid_expression(source, rules, token, comment_start_string)` where
`commentStart = env.comment_start_string`, `base = token.start_index`.
Note: `name == comment_start_string` compares with the *stripped* marker, also when it is empty. -/
def tokenizeLiquid (commentStart : List Char) (base : Nat) (src : List Char) : List Token × Bool :=
  let marker := markerOf commentStart
  collect marker base (scanLines marker 0 src)

end LiquidVerif.LiquidLines
