import LiquidVerif.Gen.C20Unicode
/-!
Model of `liquid/builtin/expressions/_tokenize.py` (`_RE`, `tokenize`) and of the line scanner of
`liquid/builtin/tags/liquid_tag.py` (`_tokenize_liquid_expression`).

A source is a `List Char` (Python `str` = sequence of code points; offsets are code-point offsets).
`matchAt` is a hand scanner equal to one step of `_RE.finditer`: the alternation of `_rules`, tried in
the order of the tuple, first rule that matches wins (not the longest).  Every rule *consumes*
characters: it returns the characters it matched (`raw`) and the remaining input (`rest`), never an
index pair; positions are obtained, as in the implementation, by arithmetic
(`parent_token.start_index + match.start()`).  That the two agree is `token_span_correct` (Props/C20).

Character classes are Python's `re` classes for `str` patterns (the patterns are compiled without
`re.ASCII`, so they are Unicode-aware): written out below U+0100, and from U+0100 up looked up in the
range tables `Gen/C20Unicode.lean` dumped from the interpreter's Unicode database; stream `charclass`
compares them with `re` on every code point.
-/
namespace LiquidVerif.ExprLex

/-! ## character classes -/

/-- membership in a list of inclusive code-point ranges -/
def inRanges (rs : List (Nat × Nat)) (n : Nat) : Bool := rs.any fun r => r.1 ≤ n && n ≤ r.2

def isDigit (c : Char) : Bool :=
  ('0' ≤ c && c ≤ '9') || (0x100 ≤ c.val && inRanges LiquidVerif.Gen.C20Unicode.digitRanges c.val.toNat)

def isWord (c : Char) : Bool :=
  isDigit c || ('a' ≤ c && c ≤ 'z') || ('A' ≤ c && c ≤ 'Z') || c == '_'
  || c.val == 0xAA || c.val == 0xB2 || c.val == 0xB3 || c.val == 0xB5 || c.val == 0xB9 || c.val == 0xBA
  || c.val == 0xBC || c.val == 0xBD || c.val == 0xBE
  || (0xC0 ≤ c.val && c.val ≤ 0xFF && c.val != 0xD7 && c.val != 0xF7)
  || (0x100 ≤ c.val && inRanges LiquidVerif.Gen.C20Unicode.wordRanges c.val.toNat)

/-- `\s` for `str` patterns (= `str.isspace`) -/
def isSpace (c : Char) : Bool :=
  c == ' ' || (0x09 ≤ c.val && c.val ≤ 0x0D) || (0x1C ≤ c.val && c.val ≤ 0x1F) || c.val == 0x85 || c.val == 0xA0
  || (0x100 ≤ c.val && inRanges LiquidVerif.Gen.C20Unicode.spaceRanges c.val.toNat)

/-- the class `[ \n\t\r]` of the SKIP rule -/
def isSkip (c : Char) : Bool := c == ' ' || c == '\n' || c == '\t' || c == '\r'

def isOpChar (c : Char) : Bool := c == '!' || c == '=' || c == '<' || c == '>'

/-! ## consuming combinators: each returns what it consumed and what is left -/

/-- greedy `p*` -/
def spanP (p : Char → Bool) : List Char → List Char × List Char
  | [] => ([], [])
  | c :: cs => if p c then let r := spanP p cs; (c :: r.1, r.2) else ([], c :: cs)

/-- optional single character `c?` (greedy) -/
def optC (c : Char) : List Char → List Char × List Char
  | [] => ([], [])
  | x :: xs => if x == c then ([x], xs) else ([], x :: xs)

/-- `q(.*?)q` after the opening quote: the shortest text up to the next `q` (DOTALL: any character) -/
def findQuote (q : Char) : List Char → Option (List Char × List Char)
  | [] => none
  | c :: cs =>
    if c == q then some ([], cs)
    else match findQuote q cs with
      | some (qd, r) => some (c :: qd, r)
      | none => none

/-- `(.*?)q\s*]` after the opening quote of an IDENTSTRING: the shortest text followed by the quote,
optional white space and `]`.  Returns (quoted, spaces, rest). -/
def findClose (q : Char) : List Char → Option (List Char × List Char × List Char)
  | [] => none
  | c :: cs =>
    let again := match findClose q cs with
      | some (qd, sp, r) => some (c :: qd, sp, r)
      | none => none
    if c == q then
      match (spanP isSpace cs).2 with
      | ']' :: r => some ([], (spanP isSpace cs).1, r)
      | _ => again
    else again

/-- state of the look-ahead of the range-literal rule -/
inductive Ahead | top | sq | dq
  deriving DecidableEq, Repr

/-- `(?=(?:[^()'"]|'[^']*'|"[^"]*")*?\.\.)` -/
def rangeAhead : Ahead → List Char → Bool
  | _, [] => false
  | .top, c :: cs =>
    match c, cs with
    | '.', '.' :: _ => true
    | _, _ =>
      if c == '(' || c == ')' then false
      else if c == '\'' then rangeAhead .sq cs
      else if c == '"' then rangeAhead .dq cs
      else rangeAhead .top cs
  | .sq, c :: cs => if c == '\'' then rangeAhead .top cs else rangeAhead .sq cs
  | .dq, c :: cs => if c == '"' then rangeAhead .top cs else rangeAhead .dq cs

/-! ## one step of `_RE.finditer` -/

/-- the names of `_rules`, in order -/
inductive Rule
  | rangeLit | identIndex | identString | string | range | float | integer | dot | word
  | lparen | rparen | lbracket | rbracket | colon | comma | dpipe | pipe | op | skip | illegal
  deriving DecidableEq, Repr

/-- A match: rule, the text matched, where the value group starts inside it and the group's text
(for rules without a group the whole match), and the rest of the input. -/
structure Match where
  rule : Rule
  raw : List Char
  gOff : Nat
  grp : List Char
  rest : List Char
  deriving Repr

def mk (rule : Rule) (raw rest : List Char) : Match := { rule, raw, gOff := 0, grp := raw, rest }

/-- `\[\s*(?P<path_index>\-?\d+)\s*]` -/
def identIndex? : List Char → Option Match
  | '[' :: r1 =>
    let sp1 := spanP isSpace r1
    let neg := optC '-' sp1.2
    let ds := spanP isDigit neg.2
    let sp2 := spanP isSpace ds.2
    match ds.1, sp2.2 with
    | _ :: _, ']' :: r =>
      some { rule := .identIndex, raw := '[' :: (sp1.1 ++ (neg.1 ++ (ds.1 ++ (sp2.1 ++ [']'])))),
             gOff := 1 + sp1.1.length, grp := neg.1 ++ ds.1, rest := r }
    | _, _ => none
  | _ => none

/-- `\[\s*(?P<identquote>["'])(?P<identquoted>.*?)(?P=identquote)\s*]` -/
def identString? : List Char → Option Match
  | '[' :: r1 =>
    let sp1 := spanP isSpace r1
    match sp1.2 with
    | q :: r2 =>
      if q == '"' || q == '\'' then
        match findClose q r2 with
        | some (qd, sp2, r) =>
          some { rule := .identString, raw := '[' :: (sp1.1 ++ (q :: (qd ++ (q :: (sp2 ++ [']']))))),
                 gOff := 1 + sp1.1.length + 1, grp := qd, rest := r }
        | none => none
      else none
    | [] => none
  | _ => none

/-- `(?P<quote>["'])(?P<quoted>.*?)(?P=quote)` -/
def string? : List Char → Option Match
  | q :: r =>
    if q == '"' || q == '\'' then
      match findQuote q r with
      | some (qd, r') => some { rule := .string, raw := q :: (qd ++ [q]), gOff := 1, grp := qd, rest := r' }
      | none => none
    else none
  | [] => none

/-- `-?\d+\.(?!\.)\d*` -/
def float? (cs : List Char) : Option Match :=
  let neg := optC '-' cs
  let ds := spanP isDigit neg.2
  match ds.1, ds.2 with
  | _ :: _, '.' :: r =>
    match r with
    | '.' :: _ => none
    | _ =>
      let fr := spanP isDigit r
      some (mk .float (neg.1 ++ (ds.1 ++ ('.' :: fr.1))) fr.2)
  | _, _ => none

/-- `-?\d+\b` -/
def integer? (cs : List Char) : Option Match :=
  let neg := optC '-' cs
  let ds := spanP isDigit neg.2
  match ds.1 with
  | _ :: _ =>
    match ds.2 with
    | [] => some (mk .integer (neg.1 ++ ds.1) [])
    | c :: r => if isWord c then none else some (mk .integer (neg.1 ++ ds.1) (c :: r))
  | [] => none

/-- `\w[\w\-]*\??` -/
def word? : List Char → Option Match
  | c :: r =>
    if isWord c then
      let body := spanP (fun x => isWord x || x == '-') r
      let q := optC '?' body.2
      some (mk .word (c :: (body.1 ++ q.1)) q.2)
    else none
  | [] => none

/-- `\((?=…\.\.)` -/
def rangeLit? : List Char → Option Match
  | c :: r => if c == '(' && rangeAhead .top r then some (mk .rangeLit [c] r) else none
  | [] => none

/-- `\.\.` -/
def range? : List Char → Option Match
  | '.' :: '.' :: r => some (mk .range ['.', '.'] r)
  | _ => none

/-- `\|\|` -/
def dpipe? : List Char → Option Match
  | '|' :: '|' :: r => some (mk .dpipe ['|', '|'] r)
  | _ => none

/-- a rule that is one literal character -/
def lit? (ch : Char) (rule : Rule) : List Char → Option Match
  | c :: r => if c == ch then some (mk rule [c] r) else none
  | [] => none

/-- `[!=<>]{1,2}` (greedy) -/
def op? : List Char → Option Match
  | c :: r =>
    if isOpChar c then
      match r with
      | d :: r' => if isOpChar d then some (mk .op [c, d] r') else some (mk .op [c] r)
      | [] => some (mk .op [c] r)
    else none
  | [] => none

/-- `[ \n\t\r]+` -/
def skip? : List Char → Option Match
  | c :: r => if isSkip c then some (mk .skip (c :: (spanP isSkip r).1) (spanP isSkip r).2) else none
  | [] => none

def firstSome : List (Option Match) → Option Match
  | [] => none
  | some m :: _ => some m
  | none :: rest => firstSome rest

/-- the alternation, in the order of `_rules` (ILLEGAL `.` is the fall-through of `matchAt`) -/
def alternatives (cs : List Char) : List (Option Match) :=
  [rangeLit? cs, identIndex? cs, identString? cs, string? cs, range? cs, float? cs, integer? cs,
   lit? '.' .dot cs, word? cs, lit? '(' .lparen cs, lit? ')' .rparen cs, lit? '[' .lbracket cs,
   lit? ']' .rbracket cs, lit? ':' .colon cs, lit? ',' .comma cs, dpipe? cs, lit? '|' .pipe cs,
   op? cs, skip? cs]

/-- One step of `finditer` on a non-empty input `c :: r`: the first rule of `_rules` that matches. -/
def matchAt (c : Char) (r : List Char) : Match :=
  match firstSome (alternatives (c :: r)) with
  | some m => m
  | none => mk .illegal [c] r

/-! ### every rule consumes a non-empty prefix of its input -/

theorem spanP_app (p : Char → Bool) (cs : List Char) : (spanP p cs).1 ++ (spanP p cs).2 = cs := by
  induction cs with
  | nil => rfl
  | cons c cs ih =>
    simp only [spanP]
    split
    · simp [ih]
    · rfl

theorem optC_app (c : Char) (cs : List Char) : (optC c cs).1 ++ (optC c cs).2 = cs := by
  cases cs with
  | nil => rfl
  | cons x xs => simp only [optC]; split <;> rfl

theorem findQuote_app (q : Char) (cs qd r : List Char) (h : findQuote q cs = some (qd, r)) :
    qd ++ q :: r = cs := by
  induction cs generalizing qd with
  | nil => simp [findQuote] at h
  | cons c cs ih =>
    simp only [findQuote] at h
    split at h
    · next hc =>
      have hc' : c = q := by simpa using hc
      cases h; simp [hc']
    · split at h
      · next qd' r' hq => cases h; simp [ih qd' hq]
      · cases h

theorem findClose_app (q : Char) (cs qd sp r : List Char) (h : findClose q cs = some (qd, sp, r)) :
    qd ++ q :: (sp ++ ']' :: r) = cs := by
  induction cs generalizing qd with
  | nil => simp [findClose] at h
  | cons c cs ih =>
    have again : ∀ qd, (match findClose q cs with
        | some (qd, sp, r) => some (c :: qd, sp, r)
        | none => none) = some (qd, sp, r) → qd ++ q :: (sp ++ ']' :: r) = c :: cs := by
      intro qd h
      split at h
      · next qd' sp' r' hq => cases h; simp [ih qd' hq]
      · cases h
    simp only [findClose] at h
    split at h
    · next hc =>
      have hc' : c = q := by simpa using hc
      split at h
      · next r' hsp =>
        cases h
        have := spanP_app isSpace cs
        rw [hsp] at this
        simp [hc', this]
      · exact again qd h
    · exact again qd h

/-- `m` is a split of `cs` into a non-empty matched text and the rest, and the value group lies inside
the matched text at `gOff`. -/
structure Match.Ok (m : Match) (cs : List Char) : Prop where
  app : m.raw ++ m.rest = cs
  ne : m.raw ≠ []
  grp : ∃ pre post, m.raw = pre ++ (m.grp ++ post) ∧ pre.length = m.gOff

theorem mk_ok (rule : Rule) (raw rest cs : List Char) (h : raw ++ rest = cs) (hne : raw ≠ []) :
    (mk rule raw rest).Ok cs :=
  ⟨h, hne, ⟨[], [], by simp [mk], rfl⟩⟩

theorem identIndex_ok (cs : List Char) (m : Match) (h : identIndex? cs = some m) : m.Ok cs := by
  unfold identIndex? at h
  split at h
  · next r1 =>
    simp only at h
    split at h
    · next d ds r hds hsp =>
      cases h
      have h1 := spanP_app isSpace r1
      have h2 := optC_app '-' (spanP isSpace r1).2
      have h3 := spanP_app isDigit (optC '-' (spanP isSpace r1).2).2
      have h4 := spanP_app isSpace (spanP isDigit (optC '-' (spanP isSpace r1).2).2).2
      rw [hsp] at h4
      refine ⟨?_, by simp, ⟨'[' :: (spanP isSpace r1).1,
        (spanP isSpace (spanP isDigit (optC '-' (spanP isSpace r1).2).2).2).1 ++ [']'], ?_, ?_⟩⟩
      · simp only [List.cons_append, List.append_assoc, List.cons.injEq, true_and, List.nil_append]
        rw [h4, h3, h2, h1]
      · simp
      · simp; omega
    · cases h
  · cases h

theorem identString_ok (cs : List Char) (m : Match) (h : identString? cs = some m) : m.Ok cs := by
  unfold identString? at h
  split at h
  · next r1 =>
    simp only at h
    split at h
    · next q r2 hsp =>
      split at h
      · split at h
        · next qd sp2 r hfc =>
          cases h
          have h1 := spanP_app isSpace r1
          rw [hsp] at h1
          have h2 := findClose_app q r2 qd sp2 r hfc
          refine ⟨?_, by simp, ⟨'[' :: ((spanP isSpace r1).1 ++ [q]), q :: (sp2 ++ [']']), ?_, ?_⟩⟩
          · simp only [List.cons_append, List.append_assoc, List.cons.injEq, true_and, List.nil_append]
            rw [h2, h1]
          · simp
          · simp; omega
        · cases h
      · cases h
    · cases h
  · cases h

theorem string_ok (cs : List Char) (m : Match) (h : string? cs = some m) : m.Ok cs := by
  unfold string? at h
  split at h
  · next q r =>
    split at h
    · split at h
      · next qd r' hfq =>
        cases h
        have := findQuote_app q r qd r' hfq
        refine ⟨by simp [this], by simp, ⟨[q], [q], by simp, by simp⟩⟩
      · cases h
    · cases h
  · cases h

theorem float_ok (cs : List Char) (m : Match) (h : float? cs = some m) : m.Ok cs := by
  unfold float? at h
  simp only at h
  have h1 := optC_app '-' cs
  have h2 := spanP_app isDigit (optC '-' cs).2
  split at h
  · next d ds r hds hr =>
    rw [hr] at h2
    split at h
    · cases h
    · cases h
      have h3 := spanP_app isDigit r
      apply mk_ok
      · simp only [List.append_assoc, List.cons_append]
        rw [h3, h2, h1]
      · rw [hds]; cases (optC '-' cs).1 <;> simp
  · cases h

theorem integer_ok (cs : List Char) (m : Match) (h : integer? cs = some m) : m.Ok cs := by
  unfold integer? at h
  simp only at h
  have h1 := optC_app '-' cs
  have h2 := spanP_app isDigit (optC '-' cs).2
  split at h
  · next d ds hds =>
    have hne : (optC '-' cs).1 ++ (spanP isDigit (optC '-' cs).2).1 ≠ [] := by
      rw [hds]; cases (optC '-' cs).1 <;> simp
    split at h
    · next hr =>
      cases h
      rw [hr] at h2
      exact mk_ok _ _ _ _ (by simp only [List.append_assoc]; rw [h2, h1]) hne
    · next c r hr =>
      rw [hr] at h2
      split at h
      · cases h
      · cases h
        exact mk_ok _ _ _ _ (by simp only [List.append_assoc]; rw [h2, h1]) hne
  · cases h

theorem word_ok (cs : List Char) (m : Match) (h : word? cs = some m) : m.Ok cs := by
  unfold word? at h
  split at h
  · next c r =>
    split at h
    · cases h
      have h1 := spanP_app (fun x => isWord x || x == '-') r
      have h2 := optC_app '?' (spanP (fun x => isWord x || x == '-') r).2
      exact mk_ok _ _ _ _ (by simp only [List.cons_append, List.append_assoc]; rw [h2, h1]) (by simp)
    · cases h
  · cases h

theorem rangeLit_ok (cs : List Char) (m : Match) (h : rangeLit? cs = some m) : m.Ok cs := by
  unfold rangeLit? at h
  split at h
  · split at h
    · cases h; exact mk_ok _ _ _ _ rfl (by simp)
    · cases h
  · cases h

theorem range_ok (cs : List Char) (m : Match) (h : range? cs = some m) : m.Ok cs := by
  unfold range? at h
  split at h
  · cases h; exact mk_ok _ _ _ _ rfl (by simp)
  · cases h

theorem dpipe_ok (cs : List Char) (m : Match) (h : dpipe? cs = some m) : m.Ok cs := by
  unfold dpipe? at h
  split at h
  · cases h; exact mk_ok _ _ _ _ rfl (by simp)
  · cases h

theorem lit_ok (ch : Char) (rule : Rule) (cs : List Char) (m : Match) (h : lit? ch rule cs = some m) :
    m.Ok cs := by
  unfold lit? at h
  split at h
  · split at h
    · cases h; exact mk_ok _ _ _ _ rfl (by simp)
    · cases h
  · cases h

theorem op_ok (cs : List Char) (m : Match) (h : op? cs = some m) : m.Ok cs := by
  unfold op? at h
  split at h
  · split at h
    · split at h
      · split at h
        · cases h; exact mk_ok _ _ _ _ rfl (by simp)
        · cases h; exact mk_ok _ _ _ _ rfl (by simp)
      · cases h; exact mk_ok _ _ _ _ rfl (by simp)
    · cases h
  · cases h

theorem skip_ok (cs : List Char) (m : Match) (h : skip? cs = some m) : m.Ok cs := by
  unfold skip? at h
  split at h
  · split at h
    · cases h; exact mk_ok _ _ _ _ (by simp [spanP_app]) (by simp)
    · cases h
  · cases h

theorem firstSome_mem (l : List (Option Match)) (m : Match) (h : firstSome l = some m) : some m ∈ l := by
  induction l with
  | nil => simp [firstSome] at h
  | cons o rest ih =>
    cases o with
    | some m' => simp only [firstSome] at h; cases h; simp
    | none => simp only [firstSome] at h; simp [ih h]

theorem alternatives_ok (cs : List Char) (m : Match) (h : some m ∈ alternatives cs) : m.Ok cs := by
  simp only [alternatives, List.mem_cons, List.not_mem_nil, or_false] at h
  rcases h with h | h | h | h | h | h | h | h | h | h | h | h | h | h | h | h | h | h | h
  · exact rangeLit_ok _ _ h.symm
  · exact identIndex_ok _ _ h.symm
  · exact identString_ok _ _ h.symm
  · exact string_ok _ _ h.symm
  · exact range_ok _ _ h.symm
  · exact float_ok _ _ h.symm
  · exact integer_ok _ _ h.symm
  · exact lit_ok _ _ _ _ h.symm
  · exact word_ok _ _ h.symm
  · exact lit_ok _ _ _ _ h.symm
  · exact lit_ok _ _ _ _ h.symm
  · exact lit_ok _ _ _ _ h.symm
  · exact lit_ok _ _ _ _ h.symm
  · exact lit_ok _ _ _ _ h.symm
  · exact lit_ok _ _ _ _ h.symm
  · exact dpipe_ok _ _ h.symm
  · exact lit_ok _ _ _ _ h.symm
  · exact op_ok _ _ h.symm
  · exact skip_ok _ _ h.symm

theorem matchAt_ok (c : Char) (r : List Char) : (matchAt c r).Ok (c :: r) := by
  unfold matchAt
  split
  · next m h => exact alternatives_ok _ _ (firstSome_mem _ _ h)
  · exact mk_ok _ _ _ _ rfl (by simp)

theorem matchAt_rest_lt (c : Char) (r : List Char) : (matchAt c r).rest.length < (c :: r).length := by
  have h := matchAt_ok c r
  have h1 := congrArg List.length h.app
  have h2 : (matchAt c r).raw.length ≠ 0 := by
    intro h0; exact h.ne (List.eq_nil_of_length_eq_zero h0)
  simp only [List.length_append] at h1
  omega

/-! ## `_RE.finditer(source)` with positions -/

/-- all matches with `match.start()`, counted by arithmetic from `pos` -/
def scan (pos : Nat) : List Char → List (Nat × Match)
  | [] => []
  | c :: r => (pos, matchAt c r) :: scan (pos + (matchAt c r).raw.length) (matchAt c r).rest
termination_by cs => cs.length
decreasing_by exact matchAt_rest_lt c r

/-! ## `tokenize(source, parent_token)` -/

structure Token where
  kind : String
  value : List Char
  start : Nat          -- `parent_token.start_index + match.start()`
  deriving Repr, DecidableEq

def keywords : List String :=
  ["true", "false", "nil", "null", "empty", "blank", "and", "or", "contains", "not", "in", "offset",
   "limit", "reversed", "cols", "continue", "with", "for", "as", "if", "else", "required"]

/-- `operators[value]` for the values the OP rule can produce (`KeyError` = `none`) -/
def opKind (v : List Char) : Option String :=
  match v with
  | ['=', '='] => some "eq"
  | ['!', '='] => some "ne"
  | ['<', '>'] => some "ltgt"
  | ['<'] => some "lt"
  | ['>'] => some "gt"
  | ['<', '='] => some "le"
  | ['>', '='] => some "ge"
  | ['='] => some "assign"
  | _ => none

def ruleName : Rule → String
  | .rangeLit => "rangeexpression" | .identIndex => "identindex" | .identString => "identstring"
  | .string => "string" | .range => "range" | .float => "float" | .integer => "integer" | .dot => "dot"
  | .word => "word" | .lparen => "lparen" | .rparen => "rparen" | .lbracket => "lbracket"
  | .rbracket => "rbracket" | .colon => "colon" | .comma => "comma" | .dpipe => "dpipe" | .pipe => "pipe"
  | .op => "OP" | .skip => "skip" | .illegal => "illegal"

/-- the loop body of `tokenize`: `none` = `continue`, `inl` = yielded token, `inr` = the token of the
`LiquidSyntaxError` raised -/
def convert (base : Nat) (p : Nat × Match) : Option (Token ⊕ Token) :=
  let m := p.2
  let start := base + p.1
  match m.rule with
  | .word =>
    let v := String.ofList m.raw
    if keywords.contains v then some (.inl ⟨v, m.raw, start⟩) else some (.inl ⟨"word", m.raw, start⟩)
  | .identIndex => some (.inl ⟨"identindex", m.grp, start⟩)
  | .identString => some (.inl ⟨"identstring", m.grp, start⟩)
  | .string => some (.inl ⟨"string", m.grp, start⟩)
  | .op =>
    match opKind m.raw with
    | some k => some (.inl ⟨k, m.raw, start⟩)
    | none => some (.inr ⟨"OP", m.raw, start⟩)
  | .skip => none
  | .illegal => some (.inr ⟨"illegal", m.raw, start⟩)
  | r => some (.inl ⟨ruleName r, m.raw, start⟩)

/-- tokens yielded before the first error, and the error token if one is raised -/
def collect (base : Nat) : List (Nat × Match) → List Token × Option Token
  | [] => ([], none)
  | p :: ps =>
    match convert base p with
    | none => collect base ps
    | some (.inr e) => ([], some e)
    | some (.inl t) => let r := collect base ps; (t :: r.1, r.2)

/-- `list(tokenize(source, parent_token))` with `parent_token.start_index = base` -/
def tokenize (base : Nat) (src : List Char) : List Token × Option Token := collect base (scan 0 src)

end LiquidVerif.ExprLex
