import LiquidVerif.Model.UndefKind
/-!
# Filters as "poke the operands, then compute on plain data"  (C16)

Every registered filter of liquid has this shape: the decorator (`string_filter`, `math_filter`, `sequence_filter`,
`array_filter`, `liquid_filter`) and the first lines of the body convert the left value and the arguments
(`str()`, `num_arg(…, default=0)`, `is_undefined(…)` guards, iteration …); on an undefined operand a conversion is a
fixed sequence of pokes (`Operand.pokes`) after which the operand *stands for* a plain value (`Operand.asData`: `""`,
`0`, `nil`, `[]`); everything after that is a computation on plain data (`g`, arbitrary).  An undefined input can also be
handed back untouched (`first`, `last`: `UndefIn.self`), replaced by an argument (`concat`: `UndefIn.arg`) or rejected
(`json`, `index`: `UndefIn.fail`); the result of `g` can be plain data or one of the arguments as it is (`Res.arg`).

`shapeSem sh g` is the filter; the theorems in `Lemmas/FilterShape.lean` hold for **every** `g`.
Core Lean only (the driver links this file).
-/
namespace LiquidVerif.UndefKind

/-- the pokes of a conversion, in order; the first forbidden one raises -/
def pokeAll (k : Kind) : List Poke → Except Err Unit
  | [] => .ok ()
  | p :: ps => match poke k p with
    | .error e => .error e
    | .ok _ => pokeAll k ps

structure Operand where
  pokes : List Poke
  asData : Data
  deriving Repr

inductive UndefIn
  | conv (d : Data)     -- goes on as the plain value `d`
  | self                -- handed back as it is
  | arg (i : Nat)       -- replaced by the i-th argument as it is
  | fail                -- rejected with some other error
  deriving Repr

structure Shape where
  inPokes : List Poke
  inUndef : UndefIn
  minArgs : Nat
  args : List Operand
  deriving Repr

/-- what the plain computation answers -/
inductive Res
  | data (d : Data)
  | arg (i : Nat)
  | fail

def convOperand (o : Operand) : Val → Except Err Data
  | .data d => .ok d
  | .undef k => match pokeAll k o.pokes with
    | .error e => .error e
    | .ok _ => .ok o.asData

/-- arguments are converted left to right; surplus arguments are a `TypeError` -/
def convArgs : List Operand → List Val → Except Err (List Data)
  | _, [] => .ok []
  | [], _ :: _ => .error .other
  | o :: os, v :: vs => match convOperand o v with
    | .error e => .error e
    | .ok d => match convArgs os vs with
      | .error e => .error e
      | .ok ds => .ok (d :: ds)

def getArg (args : List Val) (i : Nat) : Except Err Val :=
  match args[i]? with
  | some a => .ok a
  | none => .error .other

/-- the plain part: convert the arguments, compute, hand the answer back -/
def runShape (sh : Shape) (g : Data → List Data → Res) (d : Data) (args : List Val) : Except Err Val :=
  match convArgs sh.args args with
  | .error e => .error e
  | .ok ds => match g d ds with
    | .data r => .ok (.data r)
    | .arg i => getArg args i
    | .fail => .error .other

def shapeSem (sh : Shape) (g : Data → List Data → Res) (v : Val) (args : List Val) : Except Err Val :=
  if args.length < sh.minArgs then .error .other else
  match v with
  | .data d => runShape sh g d args
  | .undef k => match pokeAll k sh.inPokes with
    | .error e => .error e
    | .ok _ => match sh.inUndef with
      | .conv d => runShape sh g d args
      | .self => .ok (.undef k)
      | .arg i => getArg args i
      | .fail => .error .other

/-- observable class of using an undefined operand of kind `k` there: does the conversion raise `UndefinedError` -/
def pokesRaise (k : Kind) (ps : List Poke) : Bool :=
  match pokeAll k ps with
  | .error .undefined => true
  | _ => false

end LiquidVerif.UndefKind
