import LiquidVerif.Model.LoopLimit
/-!
Second, wider model of the loop-iteration-limit mechanism (property C06, deepening round): the same
`RenderContext` state as `Model/LoopLimit.lean` (loop stack, carry, copy depth, scope depth, disabled include, macro
table, ghost list) plus

* **error modes**: `BoundTemplate.render_with_context` renders the top-level nodes of a template (the main template and
  every partial) one by one; a `LiquidError` escaping a node goes to `Environment.error`, which re-raises it in STRICT
  mode and swallows it in LAX / WARN mode (a warning is not an observable of this property), after which the *next
  top-level node of that template* is rendered. Whatever the failed node wrote stays written, whatever macros it defined
  stay defined; loop stack, carry and scope are restored by the `finally` clauses of `loop` (after fix2-C06 the ForLoop
  is pushed only once `extend` succeeded), `loop_carry` and `extend`. Block-level node lists (`BlockNode.render`: loop
  bodies, `if` blocks, macro bodies) do not catch anything.
* **interrupts**: `{% break %}` / `{% continue %}` raise `BreakLoop` / `ContinueLoop`.
  `ForNode`: `continue` → next item, `break` → leave the loop. `TablerowNode`: `continue` is swallowed (the cell is
  closed, next item), `break` closes the cell and leaves the loop. `render_with_context` turns an interrupt that reaches
  the top level of a template into `LiquidSyntaxError("unexpected …")` through `Environment.error` — unless the template
  is a partial rendered by `include` (`partial and not block_scope`), where it is re-raised and travels on to the
  includer's enclosing loop (it is *not* caught by the include's own iteration over a bound array). A macro body is
  rendered with `macro.block.render`, so interrupts and errors leave a `call` unchanged.

Every run — completed, aborted or with suppressed errors — yields an `Out`: the macro table left behind, the block
executions so far (with the ghost list of true enclosing lengths), the errors swallowed so far, and the signal it ended
with. Not modelled: `extends`/`block`, inline snippets, `StopRender`.
-/
namespace LiquidVerif.LoopLimitModes
open LiquidVerif.LoopLimit (Cx Ev Err Macros reduceMul prod overLimit)

inductive Node where
  | mark (id : Nat)
  | brk                       -- {% break %}
  | cont                      -- {% continue %}
  | blk (taken : Bool) (body : List Node)
  | forn (id : Nat) (n : Nat) (body : List Node) (dflt : List Node)
  | tablerow (id : Nat) (n : Nat) (body : List Node)
  | include (site : Nat) (name : String) (bound : Option Nat)
  | render (site : Nat) (name : String) (loop : Option Nat)
  | macro (name : String) (body : List Node)
  | call (name : String)

abbrev Tpls := List (String × List Node)
abbrev MacrosX := List (String × List Node)

def lookup (ts : Tpls) (n : String) : Option (List Node) :=
  match ts with
  | [] => none
  | (k, v) :: r => if k == n then some v else lookup r n

/-- error classes of this model: those of the strict model plus the syntax error made from a stray interrupt -/
inductive ErrX where
  | loopLimit | contextDepth | notFound | disabledTag | syntax
  deriving Repr, DecidableEq

inductive Sig where
  | normal
  | brk
  | cont
  | err (e : ErrX)
  deriving Repr, DecidableEq

structure Out where
  m : MacrosX
  tr : List Ev
  sup : List ErrX          -- errors handed to `Environment.error` and swallowed (LAX/WARN), oldest first
  sig : Sig

structure Env where
  limit : Option Nat
  depth : Nat
  templates : Tpls
  strict : Bool            -- Mode.STRICT; `false` = LAX or WARN

def done (m : MacrosX) : Out := ⟨m, [], [], .normal⟩
def emit (m : MacrosX) (e : Ev) : Out := ⟨m, [e], [], .normal⟩
def fail (m : MacrosX) (e : ErrX) : Out := ⟨m, [], [], .err e⟩

/-- run `a`; unless it ended with a signal, go on with `b` from the macro table `a` left -/
def Out.andThen (a : Out) (b : MacrosX → Out) : Out :=
  match a.sig with
  | .normal => let r := b a.m; ⟨r.m, a.tr ++ r.tr, a.sup ++ r.sup, r.sig⟩
  | _ => a

/-- what `render_with_context` does with the outcome of one top-level node; `pass` = rendered by `include`
(`partial and not block_scope`) -/
def catchNode (strict pass : Bool) (o : Out) : Out :=
  match o.sig with
  | .normal => o
  | .err e => if strict then o else { o with sup := o.sup ++ [e], sig := .normal }
  | _ =>  -- BreakLoop / ContinueLoop reached the top level of a template
    if pass then o
    else if strict then { o with sig := .err .syntax }
    else { o with sup := o.sup ++ [.syntax], sig := .normal }

/-- the caller's macro table survives a copied context -/
def Out.discard (m : MacrosX) (o : Out) : Out := { o with m := m }

/-- `for`: how one finished iteration decides about the next -/
def afterForBody (o : Out) : Out × Bool :=    -- (outcome so far, go on?)
  match o.sig with
  | .normal => (o, true)
  | .cont => ({ o with sig := .normal }, true)
  | .brk => ({ o with sig := .normal }, false)
  | .err _ => (o, false)

/-- `tablerow`: the same, `continue` and `break` handled as `TablerowNode` does -/
def afterRowBody (o : Out) : Out × Bool := afterForBody o

mutual
def render (E : Env) (c : Cx) (m : MacrosX) : Node → Out
  | .mark id => emit m ⟨id, c.ghost⟩
  | .brk => ⟨m, [], [], .brk⟩
  | .cont => ⟨m, [], [], .cont⟩
  | .blk taken body => if taken then renderList E c m body else done m
  | .forn id n body dflt =>
      if n ≠ 0 then
        if overLimit E.limit c n then fail m .loopLimit else
        if _h : c.scope > E.depth then fail m .contextDepth else
        iter E { c with loops := c.loops ++ [n], scope := c.scope + 1, ghost := c.ghost ++ [n] } m id body n
      else renderList E c m dflt
  | .tablerow id n body =>
      if overLimit E.limit c n then fail m .loopLimit else
      if _h : c.scope > E.depth then fail m .contextDepth else
      iter E { c with carry := c.carry * n, scope := c.scope + 1, ghost := c.ghost ++ [n] } m id body n
  | .include site name bound =>
      if c.noInclude then fail m .disabledTag else
      match lookup E.templates name with
      | none => fail m .notFound
      | some body =>
        if _h : c.scope > E.depth then fail m .contextDepth else
        match bound with
        | some n =>
          if overLimit E.limit { c with scope := c.scope + 1 } n then fail m .loopLimit else
          iterPartial E { c with scope := c.scope + 1, carry := c.carry * n, ghost := c.ghost ++ [n] } true m site body n
        | none => renderPartial E { c with scope := c.scope + 1 } true m site body
  | .render site name loop =>
      match lookup E.templates name with
      | none => fail m .notFound
      | some body =>
        if _h : c.copyDepth > E.depth then fail m .contextDepth else
        match loop with
        | some n =>
          if overLimit E.limit c.copied n then fail m .loopLimit else
          (iterPartial E { c.copied with carry := c.copied.carry * n, ghost := c.ghost ++ [n] } false [] site body n).discard m
        | none => (renderPartial E c.copied false [] site body).discard m
  | .macro name body => done ((name, body) :: m)
  | .call name =>
      match lookup m name with
      | none => done m
      | some body =>
        if _h : c.copyDepth > E.depth then fail m .contextDepth else
        (renderList E c.copied [] body).discard m
termination_by n => (E.depth + 2 - c.copyDepth, E.depth + 2 - c.scope, sizeOf n, 0)
decreasing_by all_goals (simp_wf; simp only [Prod.lex_def, Cx.copied, true_and]; omega)

/-- `BlockNode.render`: nothing is caught here -/
def renderList (E : Env) (c : Cx) (m : MacrosX) : List Node → Out
  | [] => done m
  | n :: ns => (render E c m n).andThen (fun m1 => renderList E c m1 ns)
termination_by ns => (E.depth + 2 - c.copyDepth, E.depth + 2 - c.scope, sizeOf ns, 0)
decreasing_by all_goals (simp_wf; simp only [Prod.lex_def, true_and]; omega)

/-- the node loop of `render_with_context`: every node's outcome goes through `catchNode` -/
def renderNodes (E : Env) (c : Cx) (pass : Bool) (m : MacrosX) : List Node → Out
  | [] => done m
  | n :: ns => (catchNode E.strict pass (render E c m n)).andThen (fun m1 => renderNodes E c pass m1 ns)
termination_by ns => (E.depth + 2 - c.copyDepth, E.depth + 2 - c.scope, sizeOf ns, 0)
decreasing_by all_goals (simp_wf; simp only [Prod.lex_def, true_and]; omega)

/-- `k` more iterations of a `for` / `tablerow` body -/
def iter (E : Env) (c : Cx) (m : MacrosX) (id : Nat) (body : List Node) : Nat → Out
  | 0 => done m
  | k + 1 =>
      let o := (emit m ⟨id, c.ghost⟩).andThen (fun m0 => renderList E c m0 body)
      if (afterForBody o).2 then (afterForBody o).1.andThen (fun m1 => iter E c m1 id body k) else (afterForBody o).1
termination_by k => (E.depth + 2 - c.copyDepth, E.depth + 2 - c.scope, sizeOf body, k + 1)
decreasing_by all_goals (simp_wf; simp only [Prod.lex_def, true_and]; omega)

/-- `template.render_with_context(context, buffer, partial=True[, block_scope=True])` -/
def renderPartial (E : Env) (c : Cx) (pass : Bool) (m : MacrosX) (site : Nat) (body : List Node) : Out :=
  if _h : c.scope > E.depth then fail m .contextDepth else
  (emit m ⟨site, c.ghost⟩).andThen (fun m0 => renderNodes E { c with scope := c.scope + 1 } pass m0 body)
termination_by (E.depth + 2 - c.copyDepth, E.depth + 2 - c.scope, sizeOf body + 1, 0)
decreasing_by all_goals (simp_wf; simp only [Prod.lex_def, true_and]; omega)

/-- `k` more renderings of a partial bound to an array; an error or an interrupt leaves the iteration -/
def iterPartial (E : Env) (c : Cx) (pass : Bool) (m : MacrosX) (site : Nat) (body : List Node) : Nat → Out
  | 0 => done m
  | k + 1 => (renderPartial E c pass m site body).andThen (fun m1 => iterPartial E c pass m1 site body k)
termination_by k => (E.depth + 2 - c.copyDepth, E.depth + 2 - c.scope, sizeOf body + 1, k + 1)
decreasing_by all_goals (simp_wf; simp only [Prod.lex_def, true_and]; omega)
end

/-- `BoundTemplate.render()` -/
def renderTemplate (E : Env) (nodes : List Node) : Out :=
  let c : Cx := { loops := [], carry := 1, copyDepth := 0, scope := 4, noInclude := false, ghost := [] }
  if c.scope > E.depth then fail [] .contextDepth else
  renderNodes E { c with scope := c.scope + 1 } false [] nodes

end LiquidVerif.LoopLimitModes
