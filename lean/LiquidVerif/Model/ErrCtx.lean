import LiquidVerif.Gen.C20Unicode
/-!
Model of `LiquidError._error_context` (`liquid/exceptions.py`) and `Span.line_col` (`liquid/span.py`):

    lines = text.splitlines(keepends=True)
    cumulative_length = 0; target_line_index = -1
    for i, line in enumerate(lines):
        cumulative_length += len(line)
        if index < cumulative_length: target_line_index = i; break
    if target_line_index == -1: raise ValueError(...)
    line_number = target_line_index + 1
    column_number = index - (cumulative_length - len(lines[target_line_index]))
    previous/current/next line = lines[...].rstrip()  ("" outside the list)

`detailed_message` only calls it when `token.start_index >= 0`; everything after the call is string
formatting of values that exist, so "the formatted message can be produced" = `errorContext` returns.
-/
namespace LiquidVerif.ErrCtx

/-- the line boundaries of `str.splitlines` other than the pair `\r\n` -/
def isBreak (c : Char) : Bool :=
  c == '\n' || c == '\r' || c.val == 0x0B || c.val == 0x0C || c.val == 0x1C || c.val == 0x1D || c.val == 0x1E
  || c.val == 0x85 || c.val == 0x2028 || c.val == 0x2029

/-- `text.splitlines(keepends=True)`; `cur` is the line being accumulated -/
def splitAux : List Char → List Char → List (List Char)
  | cur, [] => if cur.isEmpty then [] else [cur]
  | cur, '\r' :: '\n' :: cs => (cur ++ ['\r', '\n']) :: splitAux [] cs
  | cur, c :: cs => if isBreak c then (cur ++ [c]) :: splitAux [] cs else splitAux (cur ++ [c]) cs

def splitLines (text : List Char) : List (List Char) := splitAux [] text

/-- Python `str.isspace()` for code points below U+0100, and the two line separators above -/
def isSpace (c : Char) : Bool :=
  c == ' ' || (0x09 ≤ c.val && c.val ≤ 0x0D) || (0x1C ≤ c.val && c.val ≤ 0x1F) || c.val == 0x85 || c.val == 0xA0
  || (0x100 ≤ c.val && LiquidVerif.Gen.C20Unicode.spaceRanges.any fun r => r.1 ≤ c.val.toNat && c.val.toNat ≤ r.2)

def rstrip (s : List Char) : List Char := (s.reverse.dropWhile isSpace).reverse

/-- the `for i, line in enumerate(lines)` loop: `(target_line_index, cumulative_length)` or `none`
when the loop ends without `break` -/
def findLine (index : Nat) : Nat → Nat → List (List Char) → Option (Nat × Nat)
  | _, _, [] => none
  | i, cum, l :: ls =>
    if index < cum + l.length then some (i, cum + l.length) else findLine index (i + 1) (cum + l.length) ls

structure Ctx where
  line : Nat          -- 1-based
  col : Nat
  prev : List Char
  cur : List Char
  next : List Char
  deriving Repr, DecidableEq

/-- `_error_context(text, index)` for `index ≥ 0`; `none` = `ValueError("index is out of bounds…")` -/
def errorContext (text : List Char) (index : Nat) : Option Ctx :=
  let lines := splitLines text
  match findLine index 0 0 lines with
  | none => none
  | some (i, cum) =>
    let cur := lines.getD i []
    some { line := i + 1,
           col := index - (cum - cur.length),
           prev := if i > 0 then rstrip (lines.getD (i - 1) []) else [],
           cur := rstrip cur,
           next := if i + 1 < lines.length then rstrip (lines.getD (i + 1) []) else [] }

/-- `Span.line_col(source)` -/
def lineCol (text : List Char) (index : Nat) : Option (Nat × Nat) :=
  (errorContext text index).map fun c => (c.line, c.col)

/-- `LiquidError.detailed_message` decides by the token: no token or a negative index → the bare
message (no position); otherwise the context is computed (and may raise). -/
inductive Fmt
  | bare              -- message without position
  | located (c : Ctx) -- message with `line:col` and the source line
  | raises            -- `ValueError` escapes `str(err)`
  deriving Repr, DecidableEq

def detailedMessage (source : List Char) (startIndex : Int) : Fmt :=
  if startIndex < 0 then .bare
  else match errorContext source startIndex.toNat with
    | some c => .located c
    | none => .raises

end LiquidVerif.ErrCtx
