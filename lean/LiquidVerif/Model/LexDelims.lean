import LiquidVerif.Gen.C20Unicode
/-!
Piece-level model of the template lexer `liquid/lex.py` with the delimiters as a parameter.

A template is a list of `Piece`s; `assemble d ps` writes it with the delimiter strings `d`
(what "rewriting a template with different delimiters" means).  `matchesOf d ps` states what
`compile_liquid_rules(d…).finditer(assemble d ps)` yields (one match per markup piece, one CONTENT
match per text piece), with the group offsets `match.start("name")`, `match.start("expr")`,
`match.start("stmt")`, `match.end()` computed by arithmetic on the delimiter lengths;
`tokenizeM` is a line-by-line translation of `_tokenize_template`.

That the regular expression finds exactly these matches on an assembled source (for delimiters that
do not collide) is *not* proved; it is the content of the `lex` correspondence stream, which runs the
real lexer on `assemble d ps` for many `d`.
-/
namespace LiquidVerif.LexDelims

/-- the six arguments of `get_lexer` / `compile_liquid_rules`; `cs = ce = []` when template comments are off -/
structure Delims where
  ts : List Char
  te : List Char
  ss : List Char
  se : List Char
  cs : List Char
  ce : List Char
  deriving Repr, DecidableEq

def default : Delims := ⟨"{%".toList, "%}".toList, "{{".toList, "}}".toList, [], []⟩

inductive Piece
  | text (s : List Char)
  /-- `{{- ws1 expr ws2 -}}` -/
  | out (lw : Bool) (ws1 expr ws2 : List Char) (rw : Bool)
  /-- `{%- ws1 name ws2 expr ws3 -%}` -/
  | tag (lw : Bool) (ws1 name ws2 expr ws3 : List Char) (rw : Bool)
  /-- `{%- a1 raw a2 -%} body {%- b1 endraw b2 -%}` -/
  | raw (lw1 : Bool) (a1 a2 : List Char) (rw1 : Bool) (body : List Char) (lw2 : Bool) (b1 b2 : List Char) (rw2 : Bool)
  /-- `{%- a1 doc a2 -%} body {%- b1 enddoc b2 -%}` -/
  | doc (lw1 : Bool) (a1 a2 : List Char) (rw1 : Bool) (body : List Char) (lw2 : Bool) (b1 b2 : List Char) (rw2 : Bool)
  /-- shorthand comment `{# body -#}` -/
  | sc (body : List Char) (rw : Bool)
  deriving Repr, DecidableEq

def dash (b : Bool) : List Char := if b then ['-'] else []

def blockText (d : Delims) (open_ close : List Char) (lw1 : Bool) (a1 a2 : List Char) (rw1 : Bool) (body : List Char)
    (lw2 : Bool) (b1 b2 : List Char) (rw2 : Bool) : List Char :=
  d.ts ++ (dash lw1 ++ (a1 ++ (open_ ++ (a2 ++ (dash rw1 ++ (d.te ++ (body ++
    (d.ts ++ (dash lw2 ++ (b1 ++ (close ++ (b2 ++ (dash rw2 ++ d.te)))))))))))))

def Piece.render (d : Delims) : Piece → List Char
  | .text s => s
  | .out lw ws1 e ws2 rw => d.ss ++ (dash lw ++ (ws1 ++ (e ++ (ws2 ++ (dash rw ++ d.se)))))
  | .tag lw ws1 name ws2 e ws3 rw => d.ts ++ (dash lw ++ (ws1 ++ (name ++ (ws2 ++ (e ++ (ws3 ++ (dash rw ++ d.te)))))))
  | .raw lw1 a1 a2 rw1 body lw2 b1 b2 rw2 => blockText d "raw".toList "endraw".toList lw1 a1 a2 rw1 body lw2 b1 b2 rw2
  | .doc lw1 a1 a2 rw1 body lw2 b1 b2 rw2 => blockText d "doc".toList "enddoc".toList lw1 a1 a2 rw1 body lw2 b1 b2 rw2
  | .sc body rw => d.cs ++ (body ++ (dash rw ++ d.ce))

/-- the template written with delimiters `d` -/
def assemble (d : Delims) : List Piece → List Char
  | [] => []
  | p :: ps => p.render d ++ assemble d ps

/-! ## what `rules.finditer` yields on an assembled source -/

inductive MKind | output | tag | scomment | raw | doc | content
  deriving Repr, DecidableEq

structure Match where
  kind : MKind
  start : Nat               -- `match.start()`
  whole : List Char         -- `match.group()`
  name : List Char          -- group `name` (TAG)
  nameOff : Nat             -- `match.start("name")`
  body : List Char          -- group `expr` / `stmt` / `raw` / `doc` / `comment`
  bodyOff : Nat             -- `match.start(<that group>)`
  rs : Bool                 -- group `rst` / `rss` / `rsc` / `rsr_e` / `rsd` (closing tags)
  rstrip : Bool             -- CONTENT: the look-ahead group `rstrip`
  deriving Repr, DecidableEq

/-- the CONTENT look-ahead `(?=((tag_s|stmt_s|comment_s)(?P<rstrip>-?))|$)` sees a `-` -/
def nextDash : List Piece → Bool
  | [] => false
  | .text _ :: _ => false
  | .out lw _ _ _ _ :: _ => lw
  | .tag lw _ _ _ _ _ _ :: _ => lw
  | .raw lw1 _ _ _ _ _ _ _ _ :: _ => lw1
  | .doc lw1 _ _ _ _ _ _ _ _ :: _ => lw1
  | .sc body rw :: _ => (body ++ dash rw).head? == some '-'

def contentMatch (pos : Nat) (s : List Char) (rstrip : Bool) : Match :=
  { kind := .content, start := pos, whole := s, name := [], nameOff := pos, body := s, bodyOff := pos, rs := false, rstrip }

/-- CONTENT matches of a text piece: one match for a non-empty text (the look-ahead ends in `\Z`, so a
final newline is not split off; an empty text is no match at all). -/
def contentMatches (pos : Nat) (s : List Char) (rstrip : Bool) : List Match :=
  if s.isEmpty then [] else [contentMatch pos s rstrip]

def pieceMatch (d : Delims) (pos : Nat) (p : Piece) : Match :=
  match p with
  | .text s => contentMatch pos s false
  | .out lw ws1 e _ rw =>
    { kind := .output, start := pos, whole := p.render d, name := [], nameOff := pos, body := e,
      bodyOff := pos + (d.ss.length + ((dash lw).length + ws1.length)), rs := rw, rstrip := false }
  | .tag lw ws1 name ws2 e _ rw =>
    { kind := .tag, start := pos, whole := p.render d, name := name,
      nameOff := pos + (d.ts.length + ((dash lw).length + ws1.length)), body := e,
      bodyOff := pos + (d.ts.length + ((dash lw).length + (ws1.length + (name.length + ws2.length)))),
      rs := rw, rstrip := false }
  | .raw lw1 a1 a2 rw1 body _ _ _ rw2 =>
    { kind := .raw, start := pos, whole := p.render d, name := [], nameOff := pos, body := body,
      bodyOff := pos + (d.ts.length + ((dash lw1).length + (a1.length + (3 + (a2.length + ((dash rw1).length + d.te.length)))))),
      rs := rw2, rstrip := false }
  | .doc lw1 a1 a2 rw1 body _ _ _ rw2 =>
    { kind := .doc, start := pos, whole := p.render d, name := [], nameOff := pos, body := body,
      bodyOff := pos + (d.ts.length + ((dash lw1).length + (a1.length + (3 + (a2.length + ((dash rw1).length + d.te.length)))))),
      rs := rw2, rstrip := false }
  | .sc body rw =>
    { kind := .scomment, start := pos, whole := p.render d, name := [], nameOff := pos, body := body,
      bodyOff := pos + d.cs.length, rs := rw, rstrip := false }

def matchesOf (d : Delims) (pos : Nat) : List Piece → List Match
  | [] => []
  | .text s :: ps => contentMatches pos s (nextDash ps) ++ matchesOf d (pos + s.length) ps
  | p :: ps => pieceMatch d pos p :: matchesOf d (pos + (p.render d).length) ps

/-! ## `_tokenize_template` -/

inductive TKind | output | expression | tag | content | comment | doc | scomment | eof
  deriving Repr, DecidableEq

structure Tok where
  kind : TKind
  value : List Char
  start : Nat
  deriving Repr, DecidableEq

/-- Python `str.isspace()` for code points below U+0100 (`lstrip()` / `rstrip()` without argument) -/
def isSpace (c : Char) : Bool :=
  c == ' ' || (0x09 ≤ c.val && c.val ≤ 0x0D) || (0x1C ≤ c.val && c.val ≤ 0x1F) || c.val == 0x85 || c.val == 0xA0
  || (0x100 ≤ c.val && LiquidVerif.Gen.C20Unicode.spaceRanges.any fun r => r.1 ≤ c.val.toNat && c.val.toNat ≤ r.2)

def lstrip (s : List Char) : List Char := s.dropWhile isSpace
def rstrip (s : List Char) : List Char := (s.reverse.dropWhile isSpace).reverse

structure St where
  lstrip : Bool := false
  depth : Nat := 0             -- comment_depth
  cidx : Nat := 0              -- comment_index
  ctext : List Char := []      -- "".join(comment_text)
  deriving Repr

def endcommentName : List Char := "endcomment".toList
def commentName : List Char := "comment".toList

/-- the TAG branch's tokens: the name, and the expression when it is not empty -/
def tagToks (m : Match) : List Tok :=
  if m.body.isEmpty then [⟨.tag, m.name, m.nameOff⟩]
  else [⟨.tag, m.name, m.nameOff⟩, ⟨.expression, m.body, m.bodyOff⟩]

/-- `value.lstrip()` when the previous markup asked for it, `value.rstrip()` when the next one does -/
def stripped (st : St) (m : Match) : List Char :=
  let v1 := if st.lstrip then lstrip m.whole else m.whole
  if m.rstrip then rstrip v1 else v1

/-- the CONTENT branch: strip, drop when empty, reject text that starts with the hard-coded `{{` / `{%` -/
def contentStep (st : St) (m : Match) : St × List Tok × Option Tok :=
  if (stripped st m).isEmpty then (st, [], none)
  else if "{{".toList.isPrefixOf (stripped st m) || "{%".toList.isPrefixOf (stripped st m) then
    (st, [], some ⟨.eof, m.whole, m.start⟩)
  else (st, [⟨.content, stripped st m, m.start⟩], none)

/-- the `if comment_depth:` block at the top of the loop body -/
def commentStep (st : St) (m : Match) : St × List Tok × Option Tok :=
  if m.kind == .tag && m.name == endcommentName then
    if st.depth - 1 == 0 then
      ({ lstrip := m.rs, depth := 0, cidx := 0, ctext := [] },
       [⟨.comment, st.ctext, st.cidx⟩, ⟨.tag, m.name, m.nameOff⟩], none)
    else ({ st with depth := st.depth - 1, ctext := st.ctext ++ m.whole }, [], none)
  else if m.kind == .tag && m.name == commentName then
    ({ st with depth := st.depth + 1, ctext := st.ctext ++ m.whole }, [], none)
  else ({ st with ctext := st.ctext ++ m.whole }, [], none)

/-- One iteration of the `for match in rules.finditer(source)` loop: the new state, the tokens yielded,
and the token of the `LiquidSyntaxError` if one is raised. -/
def stepM (st : St) (m : Match) : St × List Tok × Option Tok :=
  if st.depth != 0 then commentStep st m
  else
    match m.kind with
    | .output => ({ st with lstrip := m.rs }, [⟨.output, m.whole, m.start⟩, ⟨.expression, m.body, m.bodyOff⟩], none)
    | .tag =>
      if m.name == commentName then
        ({ lstrip := m.rs, depth := 1, cidx := m.start + m.whole.length, ctext := st.ctext }, tagToks m, none)
      else ({ st with lstrip := m.rs }, tagToks m, none)
    | .scomment => ({ st with lstrip := m.rs }, [⟨.scomment, m.body, m.start⟩], none)
    | .raw => ({ st with lstrip := m.rs }, [⟨.content, m.body, m.start⟩], none)
    | .doc => ({ st with lstrip := m.rs }, [⟨.doc, m.body, m.start⟩], none)
    | .content => contentStep st m

/-- the whole generator: tokens yielded before the first error, and the error token -/
def tokenizeM (st : St) : List Match → List Tok × Option Tok
  | [] => ([], none)
  | m :: ms =>
    match stepM st m with
    | (_, toks, some e) => (toks, some e)
    | (st', toks, none) => let r := tokenizeM st' ms; (toks ++ r.1, r.2)

/-- `list(get_lexer(d…)(assemble d ps))` -/
def lex (d : Delims) (ps : List Piece) : List Tok × Option Tok := tokenizeM {} (matchesOf d 0 ps)

end LiquidVerif.LexDelims
