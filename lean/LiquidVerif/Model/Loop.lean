/-!
Model of the loop machinery of python-liquid, as written (after the four repairs on branch fix-C13: `stop or length`,
negative stop, `TableRow.step` with cols 0, break before the row separator):

* `liquid/builtin/expressions/loop.py`  `LoopExpression._to_iter`, `_to_int`, `_slice`, `evaluate`
* `liquid/context.py`                    `RenderContext.stopindex`
* `liquid/builtin/tags/for_tag.py`       `ForLoop` (the `forloop` drop: `step`, `__next__`, the helper properties)
* `liquid/builtin/tags/tablerow_tag.py`  `TableRow` (the `tablerowloop` drop), `TablerowNode._int_or_zero`

Everything is a small total function over lists and integers.  The automata (`ForLoop.step`,
`TableRow.step`) are modelled as automata — one state update per visited item, exactly like the
Python objects — and the closed forms (`index0 = position`, `col = position % cols + 1` …) are
*theorems* (Props/C13.lean), not definitions.

Core Lean only.
-/
namespace LiquidVerif.Loop

/-- exception classes that can leave `LoopExpression.evaluate` -/
inductive Err where
  | liquidType      -- `LiquidTypeError` raised by `_to_int`
  | valueError      -- `ValueError` from `itertools.islice` (negative bound) — not a Liquid error
  | typeError       -- raw `TypeError` (`TablerowNode._int_or_zero(None)`)
  deriving Repr, DecidableEq

/-- the values a loop visits -/
inductive Item where
  | int (i : Int)
  | str (s : String)
  | pair (k : String) (v : Int)          -- `(key, value)` of `Mapping.items()`
  deriving Repr, DecidableEq, Inhabited

/-- the object the iterable expression evaluated to, by the classes `_to_iter` distinguishes -/
inductive Obj where
  | mapping (kvs : List (String × Int))   -- `isinstance(obj, Mapping)`; insertion order
  | range (lo hi : Int)                   -- Python `range(lo, hi)`
  | str (s : String)
  | seq (xs : List Item)                  -- list / tuple
  | other                                 -- int, None, undefined, … : nothing to iterate
  deriving Repr, DecidableEq

/-- `list(range(lo, lo + n))` -/
def rangeItems (lo : Int) : Nat → List Item
  | 0 => []
  | n + 1 => .int lo :: rangeItems (lo + 1) n

/-- `LoopExpression._to_iter` : the items and the *separately computed* length, branch by branch -/
def toIter (stringSequences : Bool) : Obj → List Item × Nat
  | .mapping kvs => (kvs.map (fun p => Item.pair p.1 p.2), kvs.length)
  | .range lo hi => (rangeItems lo (hi - lo).toNat, (hi - lo).toNat)          -- `len(range)` = max(hi-lo, 0)
  | .str s =>
      if !stringSequences then
        (if s.isEmpty then ([], 0) else ([.str s], 1))
      else (s.toList.map (fun c => Item.str (String.singleton c)), s.toList.length)
  | .seq xs => (xs, xs.length)
  | .other => ([], 0)

/-- the values a `limit:` / `offset:` / `cols:` argument can evaluate to, by what `int()` does with them -/
inductive Arg where
  | int (i : Int)          -- a Python int (literal or variable)
  | numStr (i : Int)       -- a str accepted by `int()`, with its value (`"3"`, `"-2"`)
  | badStr                 -- a str rejected by `int()` (ValueError)
  | nil                    -- `None` (TypeError)
  | undefined              -- `Undefined.__int__` returns 0
  deriving Repr, DecidableEq

/-- `LoopExpression._to_int`: `to_int(obj)`; ValueError/TypeError become `LiquidTypeError` -/
def toInt : Arg → Except Err Int
  | .int i => .ok i
  | .numStr i => .ok i
  | .badStr => .error .liquidType
  | .nil => .error .liquidType
  | .undefined => .ok 0

/-- `TablerowNode._int_or_zero`: `to_int(arg)`; only ValueError is caught -/
def intOrZero : Arg → Except Err Int
  | .int i => .ok i
  | .numStr i => .ok i
  | .badStr => .ok 0
  | .nil => .error .typeError
  | .undefined => .ok 0

/-- the `offset` argument as `evaluate` sees it -/
inductive Offset where
  | absent                 -- no `offset:`  → `None`
  | continue_              -- `offset: continue` (or the string literal `"continue"`)
  | val (a : Arg)
  deriving Repr, DecidableEq

/-! ### `RenderContext.stopindex` : `tag_namespace["stopindex"]`, a dict keyed `identifier-iterable` -/

abbrev StopIndex := List (String × Int)

def StopIndex.get (m : StopIndex) (k : String) : Int :=
  match m with
  | [] => 0                                       -- `.get(key, 0)`
  | (k', v) :: r => if k' == k then v else StopIndex.get r k

def StopIndex.set (m : StopIndex) (k : String) (v : Int) : StopIndex :=
  match m with
  | [] => [(k, v)]
  | (k', v') :: r => if k' == k then (k, v) :: r else (k', v') :: StopIndex.set r k v

/-- `itertools.islice(it, start, stop)` on a finite iterator; a negative bound is a `ValueError` -/
def islice (xs : List α) (start stop : Int) : Except Err (List α) :=
  if start < 0 ∨ stop < 0 then .error .valueError
  else .ok ((xs.take stop.toNat).drop start.toNat)

/-- the integers `_slice` computes -/
structure Window where
  start_ : Int
  stop_ : Int
  length_ : Int
  deriving Repr, DecidableEq

/-- the arithmetic of `_slice`, line by line -/
def window (length : Nat) (limit : Option Int) (start : Int) : Window :=
  let stop : Option Int := limit.map (· + start)          -- None if limit is None else limit + start
  let start_ := min (max start 0) length
  let stop_ := match stop with                             -- length if stop is None else min(max(stop, start_), length)
    | none => (length : Int)
    | some s => min (max s start_) length
  let length_ := max (stop_ - start_) 0
  { start_, stop_, length_ }

structure Sliced where
  stop : StopIndex          -- the updated `stopindex` map
  items : List Item         -- what the returned iterator yields
  length : Int              -- the returned `length_`
  deriving Repr, DecidableEq

/-- the first lines of `_slice`; offset: `none` = "continue", `some none` = None, `some (some o)` = an int -/
def startOf (m : StopIndex) (key : String) : Option (Option Int) → Int
  | none => m.get key                         -- context.stopindex(offset_key)
  | some none => 0                            -- int(offset or 0)
  | some (some o) => o

/-- `LoopExpression._slice` -/
def slice (m : StopIndex) (key : String) (its : List Item) (length : Nat)
    (limit : Option Int) (offset : Option (Option Int)) (reversed : Bool) : Except Err Sliced :=
  let w := window length limit (startOf m key offset)
  let m' := m.set key w.stop_                 -- context.stopindex(key=offset_key, index=stop_)
  match islice its w.start_ w.stop_ with
  | .error e => .error e
  | .ok it => .ok { stop := m', items := if reversed then it.reverse else it, length := w.length_ }

/-- the loop expression of a `for` / `tablerow` tag with its arguments already evaluated -/
structure LoopSpec where
  ident : String            -- the loop variable
  iterText : String         -- `str(self.iterable)`
  obj : Obj                 -- what the iterable evaluates to
  limit : Option Arg
  offset : Offset
  reversed : Bool
  deriving Repr, DecidableEq

def LoopSpec.key (s : LoopSpec) : String := s.ident ++ "-" ++ s.iterText

/-- `self._to_int(self.limit.evaluate(context), …) if self.limit else None` -/
def evalLimit : Option Arg → Except Err (Option Int)
  | none => .ok none
  | some a => (toInt a).map some

/-- the `offset` part of `evaluate`: `none` = "continue", `some none` = None, `some (some o)` = an int -/
def evalOffset : Offset → Except Err (Option (Option Int))
  | .absent => .ok (some none)
  | .continue_ => .ok none
  | .val a => (toInt a).map (fun o => some (some o))

/-- `LoopExpression.evaluate` -/
def evaluate (stringSequences : Bool) (m : StopIndex) (s : LoopSpec) : Except Err Sliced :=
  match evalLimit s.limit with
  | .error e => .error e
  | .ok limit =>
    match evalOffset s.offset with
    | .error e => .error e
    | .ok offset =>
      slice m s.key (toIter stringSequences s.obj).1 (toIter stringSequences s.obj).2 limit offset s.reversed

/-! ### `ForLoop` — the `forloop` drop -/

structure ForState where
  length : Int
  idx : Int                 -- `_index`, starts at -1
  deriving Repr, DecidableEq

def ForState.init (length : Int) : ForState := { length, idx := -1 }
def ForState.step (s : ForState) : ForState := { s with idx := s.idx + 1 }
def ForState.index (s : ForState) : Int := s.idx + 1
def ForState.index0 (s : ForState) : Int := s.idx
def ForState.rindex (s : ForState) : Int := s.length - s.idx
def ForState.rindex0 (s : ForState) : Int := s.length - s.idx - 1
def ForState.first (s : ForState) : Bool := s.idx == 0
def ForState.last (s : ForState) : Bool := s.idx == s.length - 1

/-- `for itm in forloop`: each `__next__` steps the drop, then takes the next item of `it`;
the result lists, per visited item, the drop as the loop body sees it. -/
def forRows : ForState → List Item → List (Item × ForState)
  | _, [] => []
  | s, x :: xs => (x, s.step) :: forRows s.step xs

/-! ### `TableRow` — the `tablerowloop` drop -/

structure RowState where
  length : Int
  ncols : Int
  idx : Int                 -- `_index`, starts at -1
  row : Int                 -- `_row`, starts at 1
  col : Int                 -- `_col`, starts at 0
  deriving Repr, DecidableEq

def RowState.init (length ncols : Int) : RowState := { length, ncols, idx := -1, row := 1, col := 0 }

/-- `TableRow.step`: `self._index += 1; if self._index > 0 and self._col == self.ncols: …` -/
def RowState.step (s : RowState) : RowState :=
  if s.idx + 1 > 0 ∧ s.col = s.ncols then { s with idx := s.idx + 1, col := 1, row := s.row + 1 }
  else { s with idx := s.idx + 1, col := s.col + 1 }

def RowState.index (s : RowState) : Int := s.idx + 1
def RowState.index0 (s : RowState) : Int := s.idx
def RowState.rindex (s : RowState) : Int := s.length - s.idx
def RowState.rindex0 (s : RowState) : Int := s.length - s.idx - 1
def RowState.first (s : RowState) : Bool := s.idx == 0
def RowState.last (s : RowState) : Bool := s.idx == s.length - 1
def RowState.col0 (s : RowState) : Int := s.col - 1
def RowState.colFirst (s : RowState) : Bool := s.col == 1
def RowState.colLast (s : RowState) : Bool := s.col == s.ncols

def tableRows : RowState → List Item → List (Item × RowState)
  | _, [] => []
  | s, x :: xs => (x, s.step) :: tableRows s.step xs

end LiquidVerif.Loop
