import LiquidVerif.Model.Cond
/-!
# Specification side of C12's nested equality (definitions only; used by the theorems and by the driver)

`deepEq` is *recursive Liquid equality*: the rules of `_eq` (`true ≠ 1`, `empty`/`blank`, `undefined == nil`,
numbers by value, strings by text) applied at **every** depth — arrays item-wise, hashes entry-wise.  It is the
same function as the Python oracle `spec_eq` of harness/props/c12.py (stream `nested` compares the two).
`pyEq` (Model/Value.lean) is what the code uses below the top level: Python's `==`, where `True == 1`.
Core Lean only.
-/
namespace LiquidVerif.Cond
open LiquidVerif.Value

mutual
/-- recursive Liquid equality -/
def deepEq : Val → Val → Bool
  | .empty, v => emptyEq v
  | .blank, v => blankEq v
  | .nil, v => (match v with | .nil => true | .undef => true | _ => false)
  | .undef, v => (match v with | .nil => true | .undef => true | _ => false)
  | .str a, v => (match v with
      | .str b => a == b | .markup b => a == b | .empty => a.toList.isEmpty | .blank => blankText a | _ => false)
  | .markup a, v => (match v with
      | .str b => a == b | .markup b => a == b | .empty => a.toList.isEmpty | .blank => blankText a | _ => false)
  | .list xs, v => (match v with
      | .list ys => deepEqL xs ys | .empty => xs.isEmpty | .blank => xs.isEmpty | _ => false)
  | .dict xs, v => (match v with
      | .dict ys => deepEqD xs ys | .empty => xs.isEmpty | .blank => xs.isEmpty | _ => false)
  | .range a b, v => (match v with | .range c d => rangeEq a b c d | _ => false)
  | .bool a, v => (match v with | .bool b => a == b | _ => false)          -- a boolean equals only that boolean
  | .int a, v => (match v.num? with | some y => (Ext.fin (Q.ofInt a)).eq y | none => false)
  | .float a, v => (match v.num? with | some y => (Ext.ofFlt a).eq y | none => false)
  | .dec a, v => (match v.num? with | some y => (Ext.fin a).eq y | none => false)
def deepEqL : List Val → List Val → Bool
  | [], [] => true
  | x :: xs, y :: ys => deepEq x y && deepEqL xs ys
  | _, _ => false
def deepEqD : List (String × Val) → List (String × Val) → Bool
  | [], [] => true
  | (k, x) :: xs, (k', y) :: ys => k == k' && deepEq x y && deepEqD xs ys
  | _, _ => false
end

mutual
/-- no aligned pair of items, at any depth, puts a boolean against a number (the only place where Python's `==`
    and Liquid's differ) -/
def noClash : Val → Val → Bool
  | .bool _, v => (match v with | .int _ => false | .float _ => false | .dec _ => false | _ => true)
  | .int _, v => (match v with | .bool _ => false | _ => true)
  | .float _, v => (match v with | .bool _ => false | _ => true)
  | .dec _, v => (match v with | .bool _ => false | _ => true)
  | .list xs, v => (match v with | .list ys => noClashL xs ys | _ => true)
  | .dict xs, v => (match v with | .dict ys => noClashD xs ys | _ => true)
  | _, _ => true
def noClashL : List Val → List Val → Bool
  | x :: xs, y :: ys => noClash x y && noClashL xs ys
  | _, _ => true
def noClashD : List (String × Val) → List (String × Val) → Bool
  | (_, x) :: xs, (_, y) :: ys => noClash x y && noClashD xs ys
  | _, _ => true
end

mutual
/-- no float NaN anywhere inside -/
def nanFree : Val → Bool
  | .float .nan => false
  | .list xs => nanFreeL xs
  | .dict kvs => nanFreeD kvs
  | _ => true
def nanFreeL : List Val → Bool
  | [] => true
  | x :: xs => nanFree x && nanFreeL xs
def nanFreeD : List (String × Val) → Bool
  | [] => true
  | (_, x) :: xs => nanFree x && nanFreeD xs
end

/-- aligned items of two arrays / two hashes never put a boolean against a number, at any depth -/
def noClashItems : Val → Val → Bool
  | .list xs, .list ys => noClashL xs ys
  | .dict xs, .dict ys => noClashD xs ys
  | _, _ => true


end LiquidVerif.Cond
