/-!
# Undefined kinds and the operations that poke them  (C16)

Mirrors `liquid/undefined.py` (`Undefined`, `StrictUndefined`, `FalsyStrictUndefined`,
`StrictDefaultUndefined`), the places of the render path that touch a possibly-undefined value
(`RenderContext.get` / `get_item`, `to_liquid_string`, `is_truthy` / `_eq` / `_lt` / `_contains` of
`builtin/expressions/logical.py`, `LoopExpression._to_iter`, the filter decorators of `filter.py` and the
`default` filter's `force_liquid_default` test) inside a small statement language: text, output, assign,
if/else, for/else, sequencing.

* `Data` is plain render data (what the caller passes: JSON-like).  `Val` is a `Data` **or** an undefined object of
  one of the four kinds.  Undefined objects are never nested inside containers: the data passed in contains
  none (the property quantifies over data from which keys were removed) and nothing in the modelled language
  builds a container around one.
* `pokeErr` is `StrictUndefined.__getattribute__` + the dunder methods, per kind: which access raises.
  `isinstance(u, T)` for a class `T` that `type(u)` is not a subclass of falls back to `u.__class__`, which is an
  ordinary attribute access and therefore a poke (`Poke.cls`) — that is why `StrictUndefined` raises inside
  `num_arg` / `string_filter` although they only call `isinstance`.  `isinstance(u, Undefined)` and
  `isinstance(u, Mapping)` read `u.__class__` too: `Undefined` is an ABC (`Mapping`), and `ABCMeta.__instancecheck__`
  starts with `instance.__class__` — so `is_undefined(u)` itself raises for `StrictUndefined`.
* filters are a parameter (`FilterSem`) of the interpreter; `builtinFilters` gives nine concrete ones written with
  the same conversions the decorators perform.

Core Lean only (the driver links this file).
-/
namespace LiquidVerif.UndefKind

inductive Kind
  | dflt            -- liquid.Undefined
  | strict          -- liquid.StrictUndefined
  | falsy           -- liquid.FalsyStrictUndefined
  | strictDefault   -- liquid.StrictDefaultUndefined
  deriving DecidableEq, Repr

inductive Data
  | nil
  | bool (b : Bool)
  | int (i : Int)
  | str (s : String)
  | list (xs : List Data)
  | dict (kvs : List (String × Data))
  deriving Repr

inductive Val
  | data (d : Data)
  | undef (k : Kind)
  deriving Repr

/-- `UndefinedError` or any other exception class -/
inductive Err
  | undefined
  | other
  deriving DecidableEq, Repr

/-- the ways Python code can touch an object -/
inductive Poke
  | str        -- `str(u)`
  | iter       -- `iter(u)`, `u.items()`
  | len        -- `len(u)`
  | getitem    -- `u[key]`
  | contains   -- `x in u`
  | int        -- `int(u)`
  | hash       -- `hash(u)`
  | reversed   -- `reversed(u)`
  | bool       -- `bool(u)`
  | eq         -- `u == x`
  | liquid     -- `hasattr(u, "__liquid__")` / `u.__liquid__()`
  | cls        -- `u.__class__` (the slow path of a failing `isinstance`)
  | attr       -- any other attribute, e.g. `u.poke()`
  deriving DecidableEq, Repr

/-- `none`: the access is allowed; `some e`: it raises `e`.
    `Undefined` allows everything.  `StrictUndefined` and `StrictDefaultUndefined` raise `UndefinedError` for
    everything (their `allowed_properties` hold only data attributes and `force_liquid_default`).
    `FalsyStrictUndefined` allows `__bool__`, `__eq__`, `__liquid__`, `__class__`; defining `__eq__` without
    `__hash__` makes it unhashable (`TypeError`). -/
def pokeErr : Kind → Poke → Option Err
  | .dflt, _ => none
  | .falsy, .bool => none
  | .falsy, .eq => none
  | .falsy, .liquid => none
  | .falsy, .cls => none
  | .falsy, .hash => some .other
  | .falsy, _ => some .undefined
  | .strict, _ => some .undefined
  | .strictDefault, _ => some .undefined

def poke (k : Kind) (p : Poke) : Except Err Unit :=
  match pokeErr k p with
  | none => .ok ()
  | some e => .error e

/-- `hasattr(u, "force_liquid_default") and u.force_liquid_default` — never raises (the name is in every
    `allowed_properties`; only `StrictDefaultUndefined` defines it) -/
def forceDefault : Kind → Bool
  | .strictDefault => true
  | _ => false

/-! ## Python `str`, `repr`, `==` on plain data -/

def boolPy (b : Bool) : String := if b then "True" else "False"
def boolLiquid (b : Bool) : String := if b then "true" else "false"

/-- `repr(s)` for a string of printable ASCII: double quotes when it holds a `'` and no `"`, else single quotes
    with `'` escaped; backslashes doubled -/
def reprStr (s : String) : String :=
  let cs := s.toList
  let esc := fun (q : Char) => String.join (cs.map fun c =>
    if c == '\\' then "\\\\" else if c == q then "\\" ++ q.toString else c.toString)
  if cs.contains '\'' && !cs.contains '"' then "\"" ++ esc '"' ++ "\"" else "'" ++ esc '\'' ++ "'"

mutual
/-- `repr(d)` (strings are assumed to be printable ASCII) -/
def pyRepr : Data → String
  | .nil => "None"
  | .bool b => boolPy b
  | .int i => toString i
  | .str s => reprStr s
  | .list xs => "[" ++ pyReprList xs ++ "]"
  | .dict kvs => "{" ++ pyReprKvs kvs ++ "}"
def pyReprList : List Data → String
  | [] => ""
  | [x] => pyRepr x
  | x :: y :: r => pyRepr x ++ ", " ++ pyReprList (y :: r)
def pyReprKvs : List (String × Data) → String
  | [] => ""
  | [(k, v)] => "'" ++ k ++ "': " ++ pyRepr v
  | (k, v) :: y :: r => "'" ++ k ++ "': " ++ pyRepr v ++ ", " ++ pyReprKvs (y :: r)
end

/-- `str(d)` -/
def pyStr : Data → String
  | .str s => s
  | d => pyRepr d

/-- `to_liquid_string(d, autoescape=False)` -/
def liquidStr : Data → String
  | .str s => s
  | .bool b => boolLiquid b
  | .nil => ""
  | .list xs => String.join (xs.map pyStr)        -- "".join(soft_str(itm) for itm in val)
  | d => pyStr d

mutual
/-- structural equality = Python `==` on data whose containers hold no booleans -/
def Data.beq : Data → Data → Bool
  | .nil, .nil => true
  | .bool a, .bool b => a == b
  | .int a, .int b => a == b
  | .bool a, .int b => (if a then 1 else 0) == b      -- True == 1
  | .int a, .bool b => a == (if b then 1 else 0)
  | .str a, .str b => a == b
  | .list a, .list b => Data.beqList a b
  | .dict a, .dict b => Data.beqKvs a b
  | _, _ => false
def Data.beqList : List Data → List Data → Bool
  | [], [] => true
  | x :: xs, y :: ys => Data.beq x y && Data.beqList xs ys
  | _, _ => false
def Data.beqKvs : List (String × Data) → List (String × Data) → Bool
  | [], [] => true
  | (k, x) :: xs, (l, y) :: ys => k == l && Data.beq x y && Data.beqKvs xs ys
  | _, _ => false
end

def Data.isBool : Data → Bool | .bool _ => true | _ => false

/-- `_eq` of logical.py after the `__liquid__` unwrapping: a boolean only equals a boolean -/
def liquidEqD (l r : Data) : Bool :=
  if l.isBool || r.isBool then (l.isBool && r.isBool && l.beq r) else l.beq r

/-- `is_truthy` on plain data -/
def truthyD : Data → Bool
  | .nil => false
  | .bool false => false
  | _ => true

/-- `_lt` on plain data: `none` is `LiquidTypeError` -/
def ltD : Data → Data → Option Bool
  | .str a, .str b => some (decide (a < b))
  | .bool _, _ => some false
  | _, .bool _ => some false
  | .int a, .int b => some (decide (a < b))
  | _, _ => none

/-- is `needle` a substring of `hay` -/
def isInfix (needle hay : List Char) : Bool :=
  match hay with
  | [] => needle.isEmpty
  | c :: r => needle.isPrefixOf (c :: r) || isInfix needle r

/-- `_contains` on plain data, both operands already known to be truthy: `none` is `LiquidTypeError` -/
def containsD (l r : Data) : Option Bool :=
  match l with
  | .str s => some (isInfix (match r with | .bool b => boolLiquid b | d => pyStr d).toList s.toList)
  | .list xs => some (xs.any (fun x => liquidEqD x r))
  | .dict kvs => some (kvs.any (fun kv => liquidEqD (.str kv.1) r))
  | _ => none

/-! ## Operations on a possibly-undefined value -/

/-- `to_liquid_string(v)`: for an undefined value every `isinstance` test fails over `__class__`, then `str(v)` -/
def toStr : Val → Except Err String
  | .data d => .ok (liquidStr d)
  | .undef k => match poke k .cls with
    | .error e => .error e
    | .ok _ => match poke k .str with
      | .error e => .error e
      | .ok _ => .ok ""

/-- `hasattr(v, "__liquid__")` then `v.__liquid__()` (`Undefined.__liquid__` returns `None`) -/
def liquidOf : Val → Except Err Data
  | .data d => .ok d
  | .undef k => match poke k .liquid with
    | .error e => .error e
    | .ok _ => .ok .nil

/-- `is_truthy(v)` -/
def truthy (v : Val) : Except Err Bool :=
  match liquidOf v with
  | .error e => .error e
  | .ok d => .ok (truthyD d)

/-- `LoopExpression._to_iter(v)`: an `Undefined` is a `Mapping` (the `isinstance` test reads `__class__`), so
    `v.items()` and `len(v)` are called -/
def toIter : Val → Except Err (List Data)
  | .undef k => match poke k .cls with              -- isinstance(obj, Mapping): ABCMeta reads obj.__class__
    | .error e => .error e
    | .ok _ => match poke k .iter with              -- obj.items()
      | .error e => .error e
      | .ok _ => .ok []
  | .data (.dict kvs) => .ok (kvs.map (fun kv => .list [.str kv.1, kv.2]))
  | .data (.list xs) => .ok xs
  | .data (.str s) => .ok (if s.isEmpty then [] else [.str s])     -- string_sequences is off
  | .data _ => .ok []

inductive Seg
  | key (s : String)
  | idx (i : Int)
  deriving Repr

def lookupKv (kvs : List (String × α)) (k : String) : Option α :=
  match kvs with
  | [] => none
  | (n, v) :: r => if n == k then some v else lookupKv r k

/-- Python list indexing with negative indices; `none` is `IndexError` -/
def listIdx (xs : List Data) (i : Int) : Option Data :=
  if i ≥ 0 then xs[i.toNat]? else
    if (-i).toNat ≤ xs.length then xs[xs.length - (-i).toNat]? else none

/-- `get_item(obj, key)` on plain data: `none` is `KeyError` / `IndexError` / `TypeError` (→ undefined).
    `.size` falls back to `len(obj)`; `.first` / `.last` are treated as ordinary keys (not modelled). -/
def getItemD (d : Data) (s : Seg) : Option Data :=
  match d, s with
  | .dict kvs, .key k =>
    match lookupKv kvs k with
    | some v => some v
    | none => if k == "size" then some (.int kvs.length) else none
  | .list xs, .key k => if k == "size" then some (.int xs.length) else none
  | .str s, .key k => if k == "size" then some (.int s.length) else none
  | .list xs, .idx i => listIdx xs i
  | _, _ => none

/-- one path segment applied to the object found so far.  `ok none`: the segment is missing (the caller returns
    a fresh undefined object).  On an undefined object `u[key]` runs: `Undefined.__getitem__` returns the object
    itself, the strict kinds raise. -/
def getItem (v : Val) (s : Seg) : Except Err (Option Val) :=
  match v with
  | .undef k => match poke k .getitem with
    | .error e => .error e
    | .ok _ => .ok (some (.undef k))
  | .data d => .ok ((getItemD d s).map .data)

/-! ## Scope -/

abbrev Scope := List (String × Val)

structure Env where
  scopes : List Scope      -- namespaces pushed by enclosing `for` blocks, innermost first
  locals : Scope           -- `assign`
  globals : Scope          -- render data
  deriving Repr

def lookupScopes (ss : List Scope) (n : String) : Option Val :=
  match ss with
  | [] => none
  | s :: r => match lookupKv s n with
    | some v => some v
    | none => lookupScopes r n

/-- `context.scope[root]`: pushed namespaces, then locals, then globals -/
def Env.lookup (e : Env) (n : String) : Option Val :=
  match lookupScopes e.scopes n with
  | some v => some v
  | none => match lookupKv e.locals n with
    | some v => some v
    | none => lookupKv e.globals n

def setKv (kvs : List (String × α)) (k : String) (v : α) : List (String × α) :=
  match kvs with
  | [] => [(k, v)]
  | (n, w) :: r => if n == k then (k, v) :: r else (n, w) :: setKv r k v

def Env.assign (e : Env) (n : String) (v : Val) : Env := { e with locals := setKv e.locals n v }

/-! ## Expressions -/

inductive Prim
  | lit (d : Data)
  | path (root : String) (segs : List Seg)
  deriving Repr

/-- `RenderContext.get`: the rest of the path after the root, as written: the first missing segment returns
    `env.undefined(...)` at once -/
def walk (k : Kind) : Val → List Seg → Except Err Val
  | v, [] => .ok v
  | v, s :: r => match getItem v s with
    | .error e => .error e
    | .ok none => .ok (.undef k)
    | .ok (some w) => walk k w r

def evalPrim (k : Kind) (e : Env) : Prim → Except Err Val
  | .lit d => .ok (.data d)
  | .path root segs => match e.lookup root with
    | none => .ok (.undef k)
    | some v => walk k v segs

def evalPrims (k : Kind) (e : Env) : List Prim → Except Err (List Val)
  | [] => .ok []
  | p :: ps => match evalPrim k e p with
    | .error err => .error err
    | .ok v => match evalPrims k e ps with
      | .error err => .error err
      | .ok vs => .ok (v :: vs)

/-- a filter table: name, left value, positional arguments -/
abbrev FilterSem := String → Val → List Val → Except Err Val

structure FCall where
  name : String
  args : List Prim
  deriving Repr

structure FExpr where
  head : Prim
  filters : List FCall
  deriving Repr

def applyFilters (F : FilterSem) (k : Kind) (e : Env) : Val → List FCall → Except Err Val
  | v, [] => .ok v
  | v, f :: fs => match evalPrims k e f.args with
    | .error err => .error err
    | .ok args => match F f.name v args with
      | .error err => .error err
      | .ok w => applyFilters F k e w fs

/-- `FilteredExpression.evaluate` -/
def evalF (F : FilterSem) (k : Kind) (e : Env) (x : FExpr) : Except Err Val :=
  match evalPrim k e x.head with
  | .error err => .error err
  | .ok v => applyFilters F k e v x.filters

inductive Op
  | eq | ne | lt | contains
  deriving DecidableEq, Repr

inductive Cond
  | prim (p : Prim)
  | cmp (op : Op) (l r : Prim)
  | and_ (a b : Cond)
  | or_ (a b : Cond)
  deriving Repr

/-- `_eq(l, r)` -/
def eqV (l r : Val) : Except Err Bool :=
  match liquidOf l with
  | .error e => .error e
  | .ok a => match liquidOf r with
    | .error e => .error e
    | .ok b => .ok (liquidEqD a b)

/-- `_lt(l, r)` -/
def ltV (l r : Val) : Except Err Bool :=
  match liquidOf l with
  | .error e => .error e
  | .ok a => match liquidOf r with
    | .error e => .error e
    | .ok b => match ltD a b with
      | none => .error .other
      | some x => .ok x

/-- `_contains(l, r)`: `if not is_truthy(left) or not is_truthy(right): return False` short-circuits -/
def containsV (l r : Val) : Except Err Bool :=
  match truthy l with
  | .error e => .error e
  | .ok false => .ok false
  | .ok true => match truthy r with
    | .error e => .error e
    | .ok false => .ok false
    | .ok true => match l, r with
      | .data a, .data b => (match containsD a b with | none => .error .other | some x => .ok x)
      | _, _ => .ok false      -- unreachable: a truthy value is plain data

def cmpV : Op → Val → Val → Except Err Bool
  | .eq, l, r => eqV l r
  | .ne, l, r => match eqV l r with | .error e => .error e | .ok b => .ok (!b)
  | .lt, l, r => ltV l r
  | .contains, l, r => containsV l r

/-- `BooleanExpression.evaluate`: `is_truthy` of the tree; `and` / `or` short-circuit -/
def evalCond (k : Kind) (e : Env) : Cond → Except Err Bool
  | .prim p => match evalPrim k e p with
    | .error err => .error err
    | .ok v => truthy v
  | .cmp op l r => match evalPrim k e l with
    | .error err => .error err
    | .ok a => match evalPrim k e r with
      | .error err => .error err
      | .ok b => cmpV op a b
  | .and_ a b => match evalCond k e a with
    | .error err => .error err
    | .ok false => .ok false
    | .ok true => evalCond k e b
  | .or_ a b => match evalCond k e a with
    | .error err => .error err
    | .ok true => .ok true
    | .ok false => evalCond k e b

/-! ## Statements -/

inductive Stmt
  | nop
  | text (s : String)
  | output (x : FExpr)
  | assign (name : String) (x : FExpr)
  | ifs (c : Cond) (thn els : Stmt)
  | for_ (var : String) (it : Prim) (body els : Stmt)
  | seq (a b : Stmt)
  deriving Repr

/-- `for itm in forloop:` with the body's effect on the context threaded through -/
def iterFor (body : Env → Data → Except Err (Env × String)) : Env → List Data → String → Except Err (Env × String)
  | e, [], out => .ok (e, out)
  | e, x :: xs, out => match body e x with
    | .error err => .error err
    | .ok (e', o) => iterFor body e' xs (out ++ o)

def render (F : FilterSem) (k : Kind) : Env → Stmt → Except Err (Env × String)
  | e, .nop => .ok (e, "")
  | e, .text s => .ok (e, s)
  | e, .output x => match evalF F k e x with
    | .error err => .error err
    | .ok v => match toStr v with
      | .error err => .error err
      | .ok s => .ok (e, s)
  | e, .assign n x => match evalF F k e x with
    | .error err => .error err
    | .ok v => .ok (e.assign n v, "")
  | e, .ifs c t f => match evalCond k e c with
    | .error err => .error err
    | .ok true => render F k e t
    | .ok false => render F k e f
  | e, .for_ x it body els => match evalPrim k e it with
    | .error err => .error err
    | .ok v => match toIter v with
      | .error err => .error err
      | .ok [] => render F k e els
      | .ok (i :: is) =>
        iterFor (fun e' item =>
          match render F k { e' with scopes := [(x, .data item)] :: e'.scopes } body with
          | .error err => .error err
          | .ok (e'', o) => .ok ({ e'' with scopes := e'.scopes }, o)) e (i :: is) ""
  | e, .seq a b => match render F k e a with
    | .error err => .error err
    | .ok (e', o1) => match render F k e' b with
      | .error err => .error err
      | .ok (e'', o2) => .ok (e'', o1 ++ o2)

/-- `BoundTemplate.render_with_context` under `Mode.LAX`, for top-level nodes that write at most once, at their end
    (text, output, assign): a node that raises a Liquid error — `UndefinedError` included — is skipped
    (`Environment.error` ignores it), nothing of it reaches the output and the context is as before -/
def renderLax (F : FilterSem) (k : Kind) : Env → List Stmt → Env × String
  | e, [] => (e, "")
  | e, s :: rest => match render F k e s with
    | .error _ => renderLax F k e rest
    | .ok (e', o) => let r := renderLax F k e' rest; (r.1, o ++ r.2)

/-- the nodes for which `renderLax` is exact -/
def Stmt.atomic : Stmt → Bool
  | .text _ => true
  | .output _ => true
  | .assign _ _ => true
  | _ => false

/-! ## Eight concrete filters, written with the conversions their decorators perform -/

/-- `string_filter`: `None → ""`, `str` stays, anything else `str(val)`; on an undefined value the failing
    `isinstance(val, str)` reads `__class__`, then `str(val)` -/
def strArg : Val → Except Err String
  | .data .nil => .ok ""
  | .data d => .ok (pyStr d)
  | .undef k => match poke k .cls with
    | .error e => .error e
    | .ok _ => match poke k .str with
      | .error e => .error e
      | .ok _ => .ok ""

/-- `if not isinstance(arg, str): arg = str(arg)` — no `None` case -/
def softStr : Val → Except Err String
  | .data d => .ok (pyStr d)
  | .undef k => match poke k .cls with
    | .error e => .error e
    | .ok _ => match poke k .str with
      | .error e => .error e
      | .ok _ => .ok ""

def isDigitsL (cs : List Char) : Bool := !cs.isEmpty && cs.all Char.isDigit

def natOfDigits (cs : List Char) : Nat := cs.foldl (fun n c => 10 * n + (c.toNat - '0'.toNat)) 0

/-- `int(s)` for an optionally signed string of ASCII digits, else 0 -/
def intOfStr (s : String) : Int :=
  match s.toList with
  | '-' :: r => if isDigitsL r then -((natOfDigits r : Nat) : Int) else 0
  | cs => if isDigitsL cs then (natOfDigits cs : Nat) else 0

/-- `num_arg(val, default=0)` restricted to integers: `int`/`bool` stay, a string of ASCII digits (optionally
    signed) is parsed, everything else — including an undefined value, after the failing `isinstance` tests — is 0 -/
def numArg : Val → Except Err Int
  | .data (.int i) => .ok i
  | .data (.bool b) => .ok (if b then 1 else 0)
  | .data (.str s) =>
    .ok (intOfStr s)
  | .data _ => .ok 0
  | .undef k => match poke k .cls with
    | .error e => .error e
    | .ok _ => .ok 0

/-- `is_undefined(v)` = `isinstance(v, Undefined)`.  `Undefined` is an ABC (a `Mapping`), so the test goes through
    `ABCMeta.__instancecheck__`, which reads `v.__class__`: for the strict kinds the predicate itself raises.  This is
    what makes a missing variable fail as an *optional* filter argument (`round`, `slice`, `sum`, `where` …) and as a
    `cycle` group name. -/
def isUndef : Val → Except Err Bool
  | .data _ => .ok false
  | .undef k => match poke k .cls with
    | .error e => .error e
    | .ok _ => .ok true

/-- `int(s)` for an optionally signed string of ASCII digits -/
def intOfStr? (s : String) : Option Int :=
  match s.toList with
  | '-' :: r => if isDigitsL r then some (-((natOfDigits r : Nat) : Int)) else none
  | cs => if isDigitsL cs then some ((natOfDigits cs : Nat) : Int) else none

/-- `round(num, ndigits)` for an integer `num` and a defined `ndigits`: `num_arg(ndigits)` failing → `round(num)`;
    negative → 0; otherwise the integer itself -/
def roundD (x : Int) : Val → Int
  | .data (.int n) => if n < 0 then 0 else x
  | .data (.bool _) => x
  | .data (.str s) => match intOfStr? s with
    | some n => if n < 0 then 0 else x
    | none => x
  | _ => x

def upper (s : String) : String := s.map Char.toUpper

/-- `s.split(c)` for a one-character separator -/
def splitCharL (c : Char) : List Char → List Char → List String
  | acc, [] => [String.ofList acc.reverse]
  | acc, x :: r => if x == c then String.ofList acc.reverse :: splitCharL c [] r else splitCharL c (x :: acc) r

def splitChar (s : String) (c : Char) : List String := splitCharL c [] s.toList

/-- `list(val)` -/
def charsOf (s : String) : Data := .list (s.toList.map (fun c => .str c.toString))

/-- `split` with a defined separator -/
def splitD (s : String) : Data → Data
  | .nil => charsOf s
  | d =>
    let sep := pyStr d
    if sep.isEmpty then charsOf s
    else if s.isEmpty || s == sep then .list []
    else if sep == " " then .list (((splitChar s ' ').filter (fun w => !w.isEmpty)).map .str)
    else match sep.toList with
      | [c] => .list ((splitChar s c).map .str)
      | _ => .list ((s.splitOn sep).map .str)

/-- `len(obj)`, 0 on `TypeError` -/
def sizeD : Data → Int
  | .str s => s.length
  | .list xs => xs.length
  | .dict kvs => kvs.length
  | _ => 0

/-- `first` on plain data -/
def firstD : Data → Data
  | .list (x :: _) => x
  | .dict ((k, x) :: _) => .list [.str k, x]
  | _ => .nil

/-- `join` on plain data (`sequence_filter`: a non-list becomes `[val]`); lists are flat in the generator -/
def joinD (sep : String) : Data → String
  | .list xs => sep.intercalate (xs.map pyStr)
  | d => pyStr d

/-- does `default` replace this value: nil, false, empty string / list / dict (numbers never) -/
def useDefault : Data → Bool
  | .nil => true
  | .bool b => !b
  | .int _ => false
  | .str s => s.isEmpty
  | .list xs => xs.isEmpty
  | .dict kvs => kvs.isEmpty

def fUpcase (v : Val) : Except Err Val :=
  match strArg v with
  | .error e => .error e
  | .ok s => .ok (.data (.str (upper s)))

def fAppend (v a : Val) : Except Err Val :=
  match strArg v with
  | .error e => .error e
  | .ok s => match softStr a with
    | .error e => .error e
    | .ok t => .ok (.data (.str (s ++ t)))

def fSize : Val → Except Err Val
  | .undef k => (match poke k .len with | .error e => .error e | .ok _ => .ok (.data (.int 0)))
  | .data d => .ok (.data (.int (sizeD d)))

def fFirst : Val → Except Err Val
  | .undef k => (match poke k .cls with                      -- isinstance(left, str), isinstance(left, dict)
    | .error e => .error e
    | .ok _ => match poke k .getitem with                     -- getitem(left, 0) returns the object itself
      | .error e => .error e
      | .ok _ => .ok (.undef k))
  | .data d => .ok (.data (firstD d))

def fJoin (v a : Val) : Except Err Val :=
  match v with
  | .undef k => (match poke k .cls with                       -- isinstance(val, (list, tuple)) ...
    | .error e => .error e
    | .ok _ => match softStr a with
      | .error e => .error e
      | .ok _ => match poke k .iter with
        | .error e => .error e
        | .ok _ => .ok (.data (.str "")))
  | .data d => match softStr a with
    | .error e => .error e
    | .ok sep => .ok (.data (.str (joinD sep d)))

def fPlus (v a : Val) : Except Err Val :=
  match numArg v with
  | .error e => .error e
  | .ok x => match numArg a with
    | .error e => .error e
    | .ok y => .ok (.data (.int (x + y)))

/-- `default`: `force_liquid_default` first, then `__liquid__`, then the emptiness tests -/
def fDefault (v a : Val) : Except Err Val :=
  match v with
  | .undef k =>
    if forceDefault k then .ok a
    else (match poke k .liquid with | .error e => .error e | .ok _ => .ok a)
  | .data d => .ok (if useDefault d then a else .data d)

def fSplit (v a : Val) : Except Err Val :=
  match strArg v with
  | .error e => .error e
  | .ok s => match a with
    | .undef k => (match poke k .cls with                    -- isinstance(sep, Undefined): ABCMeta reads __class__
      | .error e => .error e
      | .ok _ => match poke k .attr with                      -- sep.poke()
        | .error e => .error e
        | .ok _ => .ok (.data (charsOf s)))
    | .data d => .ok (.data (splitD s d))

/-- `round` (a `math_filter`) on integer-valued input: `if ndigits is None or is_undefined(ndigits): return round(num)` -/
def fRound (v a : Val) : Except Err Val :=
  match numArg v with
  | .error e => .error e
  | .ok x => match a with
    | .data .nil => .ok (.data (.int x))
    | a => match isUndef a with
      | .error e => .error e
      | .ok true => .ok (.data (.int x))
      | .ok false => .ok (.data (.int (roundD x a)))

/-- the filter table of the driver; a wrong number of arguments is a `TypeError` (→ `LiquidTypeError`) -/
def builtinFilters : FilterSem := fun name v args =>
  if name = "upcase" then (match args with | [] => fUpcase v | _ => .error .other)
  else if name = "append" then (match args with | [a] => fAppend v a | _ => .error .other)
  else if name = "size" then (match args with | [] => fSize v | _ => .error .other)
  else if name = "first" then (match args with | [] => fFirst v | _ => .error .other)
  else if name = "join" then (match args with | [a] => fJoin v a | _ => .error .other)
  else if name = "plus" then (match args with | [a] => fPlus v a | _ => .error .other)
  else if name = "default" then (match args with | [a] => fDefault v a | _ => .error .other)
  else if name = "split" then (match args with | [a] => fSplit v a | _ => .error .other)
  else if name = "round" then (match args with | [a] => fRound v a | _ => .error .other)
  else .error .other

def modelledFilters : List String := ["upcase", "append", "size", "first", "join", "plus", "default", "split", "round"]

end LiquidVerif.UndefKind
