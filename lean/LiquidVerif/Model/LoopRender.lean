import LiquidVerif.Model.Loop
/-!
A small interpreter for templates made of `for`, `tablerow`, `if`, `break`, `continue` and output
statements — `ForNode.render_to_output`, `TablerowNode.render_to_output`, `BreakNode`,
`ContinueNode`, `BlockNode.render` as written, over the loop machinery of `Model/Loop.lean`.

State that is threaded: the `stopindex` map.  State that is scoped (restored by the `with
context.loop(...)` / `context.extend(...)` context managers): the pushed loop variables, the
`context.loops` stack of `ForLoop` drops, the `tablerowloop` drops in scope.
-/
namespace LiquidVerif.Loop

inductive Signal where
  | normal | break_ | continue_
  deriving Repr, DecidableEq

inductive Field where
  | index | index0 | rindex | rindex0 | first | last | length
  deriving Repr, DecidableEq

inductive TField where
  | index | index0 | rindex | rindex0 | first | last | length | col | col0 | colFirst | colLast | row
  deriving Repr, DecidableEq

def showBool (b : Bool) : String := if b then "true" else "false"

def Item.show : Item → String
  | .int i => toString i
  | .str s => s
  | .pair k v => k ++ "=" ++ toString v          -- the harness prints `{{ i[0] }}={{ i[1] }}`

def ForState.field (s : ForState) : Field → String
  | .index => toString s.index
  | .index0 => toString s.index0
  | .rindex => toString s.rindex
  | .rindex0 => toString s.rindex0
  | .first => showBool s.first
  | .last => showBool s.last
  | .length => toString s.length

def RowState.field (s : RowState) : TField → String
  | .index => toString s.index
  | .index0 => toString s.index0
  | .rindex => toString s.rindex
  | .rindex0 => toString s.rindex0
  | .first => showBool s.first
  | .last => showBool s.last
  | .length => toString s.length
  | .col => toString s.col
  | .col0 => toString s.col0
  | .colFirst => showBool s.colFirst
  | .colLast => showBool s.colLast
  | .row => toString s.row

/-- what is visible inside a block -/
structure Env where
  stringSequences : Bool
  vars : List (String × Item)     -- loop variables pushed by enclosing loops, innermost first
  loops : List ForState           -- `context.loops`, innermost first (= what `forloop`, `.parentloop` … resolve to)
  rows : List RowState            -- `tablerowloop` drops in scope, innermost first
  deriving Repr

inductive Cond where
  | always
  | forIndex0Eq (n : Int)         -- `forloop.index0 == n`
  | rowIndex0Eq (n : Int)         -- `tablerowloop.index0 == n`
  deriving Repr, DecidableEq

inductive Node where
  | text (s : String)
  | var (name : String)                         -- `{{ name }}` of a loop variable
  | forloop (up : Nat) (f : Field)              -- `{{ forloop.parentloop…(up times).f }}`
  | tablerowloop (f : TField)
  | ifc (c : Cond) (body : List Node)           -- `{% if c %}body{% endif %}`
  | break_
  | continue_
  | for_ (spec : LoopSpec) (body : List Node) (els : Option (List Node))
  | tablerow (spec : LoopSpec) (cols : Option Arg) (body : List Node)

def lookupVar (vars : List (String × Item)) (name : String) : String :=
  match vars with
  | [] => ""                                     -- undefined renders as the empty string
  | (n, v) :: r => if n == name then v.show else lookupVar r name

def Cond.eval (e : Env) : Cond → Bool
  | .always => true
  | .forIndex0Eq n => match e.loops with | [] => false | s :: _ => s.index0 == n
  | .rowIndex0Eq n => match e.rows with | [] => false | s :: _ => s.index0 == n

abbrev Res := Except Err (StopIndex × String × Signal)

/-- the `for itm in forloop:` loop of `ForNode.render_to_output`, for any body -/
def iterFor (body : StopIndex → ForState → Item → Res) :
    StopIndex → ForState → List Item → String → Except Err (StopIndex × String)
  | m, _, [], out => .ok (m, out)
  | m, s, x :: xs, out =>
    let s' := s.step                                  -- `__next__`: step, then next(it)
    match body m s' x with
    | .error e => .error e
    | .ok (m', o, sig) =>
      if sig = .break_ then .ok (m', out ++ o)        -- except BreakLoop: break
      else iterFor body m' s' xs (out ++ o)           -- normal, or except ContinueLoop: continue

/-- the `for item in tablerow:` loop of `TablerowNode.render_to_output`, for any body -/
def iterRow (body : StopIndex → RowState → Item → Res) :
    StopIndex → RowState → List Item → String → Except Err (StopIndex × String)
  | m, _, [], out => .ok (m, out)
  | m, s, x :: xs, out =>
    let s' := s.step
    let out1 := out ++ "<td class=\"col" ++ toString s'.col ++ "\">"
    match body m s' x with
    | .error e => .error e
    | .ok (m', o, sig) =>
      let out2 := out1 ++ o ++ "</td>"
      if sig = .break_ then .ok (m', out2)            -- `if _break: break` (before the row separator)
      else
        let out3 := if s'.colLast && !s'.last
          then out2 ++ "</tr>\n<tr class=\"row" ++ toString (s'.row + 1) ++ "\">" else out2
        iterRow body m' s' xs out3

mutual
def renderNode (e : Env) (m : StopIndex) : Node → Res
  | .text s => .ok (m, s, .normal)
  | .var name => .ok (m, lookupVar e.vars name, .normal)
  | .forloop up f => .ok (m, (match e.loops.drop up with | [] => "" | s :: _ => s.field f), .normal)
  | .tablerowloop f => .ok (m, (match e.rows with | [] => "" | s :: _ => s.field f), .normal)
  | .ifc c body => if c.eval e then renderBlock e m body else .ok (m, "", .normal)
  | .break_ => .ok (m, "", .break_)
  | .continue_ => .ok (m, "", .continue_)
  | .for_ spec body els =>
    match evaluate e.stringSequences m spec with
    | .error err => .error err
    | .ok sl =>
      if sl.length ≠ 0 then
        match iterFor (fun m' s x => renderBlock { e with vars := (spec.ident, x) :: e.vars, loops := s :: e.loops } m' body)
                sl.stop (ForState.init sl.length) sl.items "" with
        | .error err => .error err
        | .ok (m', out) => .ok (m', out, .normal)
      else match els with
        | none => .ok (sl.stop, "", .normal)
        | some d => renderBlock e sl.stop d
  | .tablerow spec cols body =>
    match evaluate e.stringSequences m spec with
    | .error err => .error err
    | .ok sl =>
      match (match cols with | some a => intOrZero a | none => .ok sl.length) with
      | .error err => .error err
      | .ok ncols =>
        match iterRow (fun m' s x => renderBlock { e with vars := (spec.ident, x) :: e.vars, rows := s :: e.rows } m' body)
                sl.stop (RowState.init sl.length ncols) sl.items "<tr class=\"row1\">\n" with
        | .error err => .error err
        | .ok (m', out) => .ok (m', out ++ "</tr>\n", .normal)

/-- `BlockNode.render`: children in order; an interrupt leaves the block with what was written so far -/
def renderBlock (e : Env) (m : StopIndex) : List Node → Res
  | [] => .ok (m, "", .normal)
  | n :: ns =>
    match renderNode e m n with
    | .error err => .error err
    | .ok (m', o, sig) =>
      if sig ≠ .normal then .ok (m', o, sig)
      else match renderBlock e m' ns with
        | .error err => .error err
        | .ok (m'', o', sig') => .ok (m'', o ++ o', sig')
end

end LiquidVerif.Loop
