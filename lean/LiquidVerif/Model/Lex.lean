/-!
# Model of the template lexer `liquid/lex.py` at *piece level* (C10; imported by C11 / C20)

A template source is a list of `Piece`s (text, output statement, tag, raw block, doc block, shorthand
`{# #}` comment); block comments are the tag pieces named `comment` … `endcomment` (the lexer finds them by
counting depth, exactly as the code does).  `assemble d ps` is the source string under the delimiters `d`.

* `matchesOf d off ps` states what `rules.finditer(assemble d ps)` yields: one match per piece, with the
  named groups the tokenizer reads (`name`, `expr`, `stmt`, `raw`, `doc`, `comment`, the right-strip groups
  `rsr rsr_e lsd rsd rss rst rsc` and the look-ahead group `rstrip` of the content pattern) and the
  positions `match.start()`, `match.end()`, `match.start("name")`, ….  This is the trusted, *measured*
  boundary (stream `match`): that the compiled regex finds exactly these matches on sources that satisfy
  `srcWf`.
* `step` / `tokenize` is a line-by-line translation of `_tokenize_template` (the `lstrip` flag carried from
  the previous markup token, the comment depth / text / index, the RAW / DOC / COMMENT / TAG / OUTPUT /
  content branches, the `{{` / `{%` "found end of file" errors).

A Python `str` is a `List Char` (code points); all offsets are code-point indices like Python's.
Core Lean only.
-/
namespace LiquidVerif.Lex

abbrev Str := List Char

/-! ## Python whitespace: `str.isspace`, `str.lstrip()`, `str.rstrip()`, regex `\s` (all `Py_UNICODE_ISSPACE`) -/

/-- `Py_UNICODE_ISSPACE` — the 29 code points Python treats as whitespace (stream `spaces` checks all 0x110000). -/
def isSpace (c : Char) : Bool :=
  let n := c.toNat
  (9 ≤ n && n ≤ 13) || (28 ≤ n && n ≤ 32) || n == 0x85 || n == 0xa0 || n == 0x1680 ||
  (0x2000 ≤ n && n ≤ 0x200a) || n == 0x2028 || n == 0x2029 || n == 0x202f || n == 0x205f || n == 0x3000

/-- `str.lstrip()` -/
def lstrip : Str → Str
  | [] => []
  | c :: cs => if isSpace c then lstrip cs else c :: cs

/-- `str.rstrip()` -/
def rstrip (s : Str) : Str := (lstrip s.reverse).reverse

/-- `str.startswith(p)` -/
def startsWith : Str → Str → Bool
  | [], _ => true
  | _ :: _, [] => false
  | p :: ps, c :: cs => p == c && startsWith ps cs

/-! ## Delimiters and pieces -/

/-- The six delimiter strings of an `Environment`; `cmtS = cmtE = []` when `template_comments` is off. -/
structure Delims where
  tagS : Str
  tagE : Str
  stmtS : Str
  stmtE : Str
  cmtS : Str
  cmtE : Str
  deriving Repr, DecidableEq

def Delims.default : Delims :=
  { tagS := ['{', '%'], tagE := ['%', '}'], stmtS := ['{', '{'], stmtE := ['}', '}'], cmtS := [], cmtE := [] }

/-- default delimiters with `template_comments=True` -/
def Delims.withComments : Delims :=
  { Delims.default with cmtS := ['{', '#'], cmtE := ['#', '}'] }

/-- One `{%- ws1 NAME ws2 -%}` delimiter pair of a raw / doc block: whitespace control and padding. -/
structure Ends where
  l : Bool
  r : Bool
  ws1 : Str
  ws2 : Str
  deriving Repr, DecidableEq

inductive Piece where
  /-- literal text -/
  | text (s : Str)
  /-- `{{[-] ws1 e ws2 [-]}}` -/
  | output (l r : Bool) (ws1 e ws2 : Str)
  /-- `{%[-] ws0 name ws1 e ws2 [-]%}` — every tag, including `#` (inline comment), `liquid`, `comment`, `endcomment` -/
  | tag (l r : Bool) (ws0 name ws1 e ws2 : Str)
  /-- `{%[-] raw [-]%} body {%[-] endraw [-]%}` -/
  | raw (o : Ends) (body : Str) (c : Ends)
  /-- `{%[-] doc [-]%} body {%[-] enddoc [-]%}` -/
  | doc (o : Ends) (body : Str) (c : Ends)
  /-- `{#[-] body [-]#}` (only when `d.cmtS ≠ []`) -/
  | short (l r : Bool) (body : Str)
  deriving Repr, DecidableEq

def hy (b : Bool) : Str := if b then ['-'] else []

def kwRaw : Str := ['r', 'a', 'w']
def kwEndraw : Str := ['e', 'n', 'd', 'r', 'a', 'w']
def kwDoc : Str := ['d', 'o', 'c']
def kwEnddoc : Str := ['e', 'n', 'd', 'd', 'o', 'c']
def kwComment : Str := ['c', 'o', 'm', 'm', 'e', 'n', 't']
def kwEndcomment : Str := ['e', 'n', 'd', 'c', 'o', 'm', 'm', 'e', 'n', 't']
def kwHash : Str := ['#']

/-- `{%[-] ws1 kw ws2 [-]%}` -/
def Ends.src (d : Delims) (kw : Str) (x : Ends) : Str :=
  d.tagS ++ hy x.l ++ x.ws1 ++ kw ++ x.ws2 ++ hy x.r ++ d.tagE

/-- source text of one piece -/
def Piece.src (d : Delims) : Piece → Str
  | .text s => s
  | .output l r ws1 e ws2 => d.stmtS ++ hy l ++ ws1 ++ e ++ ws2 ++ hy r ++ d.stmtE
  | .tag l r ws0 name ws1 e ws2 => d.tagS ++ hy l ++ ws0 ++ name ++ ws1 ++ e ++ ws2 ++ hy r ++ d.tagE
  | .raw o body c => o.src d kwRaw ++ body ++ c.src d kwEndraw
  | .doc o body c => o.src d kwDoc ++ body ++ c.src d kwEnddoc
  | .short l r body => d.cmtS ++ hy l ++ body ++ hy r ++ d.cmtE

/-- the template source -/
def assemble (d : Delims) : List Piece → Str
  | [] => []
  | p :: ps => p.src d ++ assemble d ps

def Piece.isText : Piece → Bool
  | .text _ => true
  | _ => false

/-- Is there a hyphen on the piece's *opening* delimiter (`{{-`, `{%-`, `{#-`)? -/
def Piece.openHyphen : Piece → Bool
  | .text _ => false
  | .output l _ _ _ _ => l
  | .tag l _ _ _ _ _ _ => l
  | .raw o _ _ => o.l
  | .doc o _ _ => o.l
  | .short l _ _ => l

/-- Is there a hyphen on the piece's *closing* delimiter (`-}}`, `-%}`, `-#}`; for raw / doc blocks: on the
closing delimiter of `endraw` / `enddoc`)? -/
def Piece.closeHyphen : Piece → Bool
  | .text _ => false
  | .output _ r _ _ _ => r
  | .tag _ r _ _ _ _ _ => r
  | .raw _ _ c => c.r
  | .doc _ _ c => c.r
  | .short _ r _ => r

/-! ## What `rules.finditer` yields -/

/-- `match.lastgroup` -/
inductive MKind where
  | RAW | DOC | COMMENT | OUTPUT | TAG | CONTENT
  deriving Repr, DecidableEq

/-- One regex match: `lastgroup`, `start()`, `end()`, `group()`, and the named groups `_tokenize_template`
reads (a group that did not participate is `[]` / `false`; `bool(match.group(..))` for the hyphen groups). -/
structure Match where
  kind : MKind
  start : Nat
  stop : Nat
  value : Str
  name : Str := []
  nameStart : Nat := 0
  expr : Str := []
  exprStart : Nat := 0
  stmt : Str := []
  stmtStart : Nat := 0
  raw : Str := []
  doc : Str := []
  comment : Str := []
  /-- hyphen before the closing delimiter of the *opening* `raw` tag -/
  rsr : Bool := false
  /-- hyphen before the closing delimiter of `endraw` -/
  rsr_e : Bool := false
  /-- hyphen before the closing delimiter of the opening `doc` tag -/
  lsd : Bool := false
  /-- hyphen before the closing delimiter of `enddoc` -/
  rsd : Bool := false
  rss : Bool := false
  rst : Bool := false
  rsc : Bool := false
  /-- content pattern look-ahead `(({%|{{|{#)(?P<rstrip>-?))` -/
  rstrip : Bool := false
  deriving Repr, DecidableEq

/-- the `-` seen by the content look-ahead: the opening hyphen of the piece that follows (none at the end) -/
def nextOpen : List Piece → Bool
  | [] => false
  | p :: _ => p.openHyphen

/-- The match `finditer` produces for piece `p` starting at offset `off`; `la` = look-ahead hyphen. -/
def pieceMatch (d : Delims) (off : Nat) (la : Bool) (p : Piece) : Match :=
  let v := p.src d
  match p with
  | .text s => { kind := .CONTENT, start := off, stop := off + v.length, value := s, rstrip := la }
  | .output l r ws1 e _ =>
    { kind := .OUTPUT, start := off, stop := off + v.length, value := v,
      stmt := e, stmtStart := off + d.stmtS.length + (hy l).length + ws1.length, rss := r }
  | .tag l r ws0 name ws1 e _ =>
    let ns := off + d.tagS.length + (hy l).length + ws0.length
    { kind := .TAG, start := off, stop := off + v.length, value := v,
      name := name, nameStart := ns, expr := e, exprStart := ns + name.length + ws1.length, rst := r }
  | .raw o body c =>
    { kind := .RAW, start := off, stop := off + v.length, value := v, raw := body, rsr := o.r, rsr_e := c.r }
  | .doc o body c =>
    { kind := .DOC, start := off, stop := off + v.length, value := v, doc := body, lsd := o.r, rsd := c.r }
  | .short l r body =>
    { kind := .COMMENT, start := off, stop := off + v.length, value := v, comment := hy l ++ body, rsc := r }

/-- `list(rules.finditer(assemble d ps))`, positions shifted by `off` -/
def matchesOf (d : Delims) : Nat → List Piece → List Match
  | _, [] => []
  | off, p :: rest => pieceMatch d off (nextOpen rest) p :: matchesOf d (off + (p.src d).length) rest

/-! ## `_tokenize_template` -/

inductive TKind where
  | content | output | expression | tag
  /-- `TOKEN_COMMENT` ("comment"): the text of a block comment -/
  | comment
  | doc
  /-- the regex group name "COMMENT": a shorthand `{# #}` comment -/
  | shortComment
  deriving Repr, DecidableEq

structure Token where
  kind : TKind
  value : Str
  start : Nat
  deriving Repr, DecidableEq

/-- the local variables of `_tokenize_template` -/
structure LexState where
  lstrip : Bool := false
  commentIndex : Nat := 0
  commentText : Str := []
  depth : Nat := 0
  deriving Repr, DecidableEq

inductive LexError where
  /-- "expected '}}', found end of file" -/
  | eofInOutput (start : Nat)
  /-- "expected '%}', found end of file" -/
  | eofInTag (start : Nat)
  deriving Repr, DecidableEq

/-- whitespace control applied to a text: `a` = `value.lstrip()`, then `b` = `value.rstrip()` -/
def applyStrip (a b : Bool) (s : Str) : Str :=
  let v1 := if a then lstrip s else s
  if b then rstrip v1 else v1

/-- the `if comment_depth:` block: everything is collected as comment text until the matching `endcomment` -/
def stepComment (st : LexState) (m : Match) : Except LexError (LexState × List Token) :=
  if m.kind = .TAG then
    if m.name = kwEndcomment then
      if st.depth - 1 = 0 then
        .ok ({ lstrip := m.rst, commentIndex := 0, commentText := [], depth := 0 },
             [⟨.comment, st.commentText, st.commentIndex⟩, ⟨.tag, m.name, m.nameStart⟩])
      else
        .ok ({ st with depth := st.depth - 1, commentText := st.commentText ++ m.value }, [])
    else if m.name = kwComment then
      .ok ({ st with depth := st.depth + 1, commentText := st.commentText ++ m.value }, [])
    else
      .ok ({ st with commentText := st.commentText ++ m.value }, [])
  else
    .ok ({ st with commentText := st.commentText ++ m.value }, [])

/-- the `elif kind == TOKEN_CONTENT:` branch -/
def stepContent (st : LexState) (m : Match) : Except LexError (LexState × List Token) :=
  let v := applyStrip st.lstrip m.rstrip m.value
  if v = [] then .ok (st, [])
  else if startsWith ['{', '{'] v then .error (.eofInOutput m.start)
  else if startsWith ['{', '%'] v then .error (.eofInTag m.start)
  else .ok (st, [⟨.content, v, m.start⟩])

/-- the branches taken outside a block comment -/
def stepTop (st : LexState) (m : Match) : Except LexError (LexState × List Token) :=
  match m.kind with
  | .OUTPUT =>
    .ok ({ st with lstrip := m.rss }, [⟨.output, m.value, m.start⟩, ⟨.expression, m.stmt, m.stmtStart⟩])
  | .TAG =>
    let toks := ⟨.tag, m.name, m.nameStart⟩ :: (if m.expr = [] then [] else [⟨.expression, m.expr, m.exprStart⟩])
    if m.name = kwComment then
      .ok ({ st with lstrip := m.rst, commentIndex := m.stop, depth := 1 }, toks)
    else
      .ok ({ st with lstrip := m.rst }, toks)
  | .COMMENT => .ok ({ st with lstrip := m.rsc }, [⟨.shortComment, m.comment, m.start⟩])
  | .RAW => .ok ({ st with lstrip := m.rsr_e }, [⟨.content, m.raw, m.start⟩])
  | .DOC => .ok ({ st with lstrip := m.rsd }, [⟨.doc, m.doc, m.start⟩])
  | .CONTENT => stepContent st m

/-- One iteration of `for match in rules.finditer(source)`: new locals and the tokens yielded. -/
def step (st : LexState) (m : Match) : Except LexError (LexState × List Token) :=
  if st.depth ≠ 0 then stepComment st m else stepTop st m

/-- the whole generator, run to completion (`list(_tokenize_template(source, rules))`) -/
def tokenize : LexState → List Match → Except LexError (List Token)
  | _, [] => .ok []
  | st, m :: ms =>
    match step st m with
    | .error e => .error e
    | .ok (st', ts) =>
      match tokenize st' ms with
      | .error e => .error e
      | .ok rest => .ok (ts ++ rest)

/-- `list(env.tokenizer()(assemble d ps))` -/
def lexPieces (d : Delims) (ps : List Piece) : Except LexError (List Token) :=
  tokenize {} (matchesOf d 0 ps)

/-! ## Well-formedness of a piece list: the sources on which `matchesOf` claims to describe `finditer`

These conditions say that the pieces are what the regex will find: text contains no opening delimiter, an
expression does not contain its own closing delimiter, padding is whitespace, a raw body contains no
`endraw` tag, ….  They are *not* hypotheses of the tokenizer theorems (those hold for every piece list); they
delimit the inputs of the `match` correspondence stream.
-/

def allSpace (s : Str) : Bool := s.all isSpace

/-- ASCII `\w` (sufficient condition; Python's `\w` also accepts other Unicode letters and digits) -/
def isWord (c : Char) : Bool :=
  let n := c.toNat
  (48 ≤ n && n ≤ 57) || (65 ≤ n && n ≤ 90) || (97 ≤ n && n ≤ 122) || n == 95

def headIs (f : Char → Bool) : Str → Bool
  | [] => false
  | c :: _ => f c

def lastIs (f : Char → Bool) (s : Str) : Bool := headIs f s.reverse

/-- does `t` start with one of the opening delimiters? -/
def startsMarkup (d : Delims) (t : Str) : Bool :=
  startsWith d.tagS t || startsWith d.stmtS t || (d.cmtS ≠ [] && startsWith d.cmtS t)

/-- all suffixes `drop k s ++ tail` for `k < |s|` satisfy `f` -/
def allSuffixes (f : Str → Bool) : Str → Str → Bool
  | [], _ => true
  | c :: cs, tail => f (c :: cs ++ tail) && allSuffixes f cs tail

/-- `\s*-?CLOSE` matches at the start of `t` -/
def closesHere (close : Str) (t : Str) : Bool :=
  let t' := t.dropWhile isSpace
  startsWith close t' || startsWith ('-' :: close) t'

/-- `{%-?\s*kw\s*-?%}` matches at the start of `t` -/
def endTagHere (d : Delims) (kw : Str) (t : Str) : Bool :=
  startsWith d.tagS t &&
  (let t1 := t.drop d.tagS.length
   let t2 := match t1 with | '-' :: r => r | r => r
   let t3 := t2.dropWhile isSpace
   startsWith kw t3 &&
   (let t4 := (t3.drop kw.length).dropWhile isSpace
    startsWith d.tagE t4 || startsWith ('-' :: d.tagE) t4))

def Ends.wf (x : Ends) : Bool := allSpace x.ws1 && allSpace x.ws2

/-- `next` is the source text that follows the piece -/
def Piece.wf (d : Delims) (next : Str) : Piece → Bool
  | .text s => s ≠ [] && allSuffixes (fun t => !startsMarkup d t) s next
  | .output l r ws1 e ws2 =>
    allSpace ws1 && allSpace ws2 && !headIs isSpace e && !lastIs isSpace e &&
    (e ≠ [] || ws2 = []) &&
    (l || ws1 ≠ [] || (!headIs (· == '-') e && (e ≠ [] || !r))) &&
    allSuffixes (fun t => !closesHere d.stmtE t) e (ws2 ++ hy r ++ d.stmtE ++ next)
  | .tag l r ws0 name ws1 e ws2 =>
    allSpace ws0 && allSpace ws1 && allSpace ws2 && !headIs isSpace e && !lastIs isSpace e &&
    (name = kwHash || name.all isWord) &&
    name ≠ kwRaw && name ≠ kwDoc &&
    (e ≠ [] || ws2 = []) &&
    (name ≠ [] || (ws1 = [] && !headIs isWord e && !headIs (· == '#') e)) &&
    (name = [] || name = kwHash || ws1 ≠ [] || !headIs isWord e) &&
    (l || ws0 ≠ [] || name ≠ [] || (!headIs (· == '-') e && (e ≠ [] || !r))) &&
    allSuffixes (fun t => !closesHere d.tagE t) e (ws2 ++ hy r ++ d.tagE ++ next)
  | .raw o body c =>
    o.wf && c.wf && allSuffixes (fun t => !endTagHere d kwEndraw t) body (c.src d kwEndraw ++ next)
  | .doc o body c =>
    o.wf && c.wf && allSuffixes (fun t => !endTagHere d kwEnddoc t) body (c.src d kwEnddoc ++ next)
  | .short l r body =>
    d.cmtS ≠ [] &&
    (l || (!headIs (· == '-') body && (body ≠ [] || !r))) &&
    allSuffixes (fun t => !(startsWith d.cmtE t || startsWith ('-' :: d.cmtE) t)) (hy l ++ body) (hy r ++ d.cmtE ++ next)

/-- every piece is well formed in its context and no two text pieces are adjacent -/
def srcWf (d : Delims) : List Piece → Bool
  | [] => true
  | p :: rest =>
    p.wf d (assemble d rest) && !(p.isText && (match rest with | q :: _ => q.isText | [] => false)) &&
    srcWf d rest

end LiquidVerif.Lex
