import LiquidVerif.Model.LexDelims
/-!
Model of `functools.lru_cache(maxsize=N)` as used by `get_lexer` (lex.py), `get_parser` (parser.py) and
`get_implicit_environment` (environment.py), and of the process-wide state these caches form.

`lru_cache` keeps a dict from the call's key to the result, in recency order; a hit returns the stored
result and makes the entry most recent; a miss calls the function, and stores the result, evicting the
least recently used entry when full.  Keys are compared as Python dict keys: `keyEq` (hash and `==`).
-/
namespace LiquidVerif.Memo

structure Cache (κ β : Type) where
  maxsize : Nat
  entries : List (κ × β)        -- least recently used first
  deriving Repr

def empty {κ β : Type} (maxsize : Nat) : Cache κ β := ⟨maxsize, []⟩

/-- first stored entry whose key compares equal to `k` -/
def find {κ β : Type} (keyEq : κ → κ → Bool) : List (κ × β) → κ → Option (κ × β)
  | [], _ => none
  | (k', v) :: r, k => if keyEq k' k then some (k', v) else find keyEq r k

def remove {κ β : Type} (keyEq : κ → κ → Bool) (l : List (κ × β)) (k : κ) : List (κ × β) :=
  l.filter fun p => !keyEq p.1 k

/-- one call of the memoised function -/
def call {κ β : Type} (keyEq : κ → κ → Bool) (f : κ → β) (c : Cache κ β) (k : κ) : Cache κ β × β :=
  match find keyEq c.entries k with
  | some (k', v) => ({ c with entries := remove keyEq c.entries k ++ [(k', v)] }, v)
  | none =>
    let v := f k
    if c.maxsize == 0 then (c, v)
    else if c.entries.length ≥ c.maxsize then ({ c with entries := c.entries.tail ++ [(k, v)] }, v)
    else ({ c with entries := c.entries ++ [(k, v)] }, v)

/-- a history of calls: the results, in order -/
def runCalls {κ β : Type} (keyEq : κ → κ → Bool) (f : κ → β) : Cache κ β → List κ → Cache κ β × List β
  | c, [] => (c, [])
  | c, k :: ks =>
    let r := call keyEq f c k
    let rs := runCalls keyEq f r.1 ks
    (rs.1, r.2 :: rs.2)

/-! ## the process: environments, the lexer cache and the parser cache -/

open LiquidVerif.LexDelims

/-- what of an `Environment` the lexer and the parser read -/
structure EnvCfg where
  delims : Delims
  mode : Nat
  tags : List String
  filters : List String
  deriving Repr, DecidableEq

/-- the key `lru_cache` builds for `get_parser(env)`: the object (identity: `Environment` defines
`__hash__` but not `__eq__`) together with its hash *at the time of the call* (`__hash__` reads the six
delimiter strings and `mode`, which are mutable attributes) -/
structure ParserKey where
  id : Nat
  hashed : Delims × Nat
  deriving Repr, DecidableEq

def parserKeyEq (a b : ParserKey) : Bool := a.id == b.id && a.hashed == b.hashed
def lexerKeyEq (a b : Delims) : Bool := a == b

structure Proc where
  envs : List EnvCfg                    -- the heap: an environment's identity is its index
  lexers : Cache Delims Delims          -- value: the delimiters the cached lexer's rules were compiled from
  parsers : Cache ParserKey Nat         -- value: the environment the cached `Parser` holds (`Parser.env`)
  deriving Repr

def Proc.init : Proc := ⟨[], empty 128, empty 128⟩

inductive Op
  | newEnv (cfg : EnvCfg)
  | setMode (id : Nat) (mode : Nat)
  | setTags (id : Nat) (tags : List String)
  | setFilters (id : Nat) (filters : List String)
  | parse (id : Nat)
  deriving Repr

/-- what a parse in environment `id` is computed from: the delimiters of the lexer it got from
`get_lexer`, and the configuration (read at parse time) of the environment its `Parser` refers to -/
structure Used where
  lexer : Delims
  parserEnv : Nat
  cfg : Option EnvCfg
  deriving Repr, DecidableEq

def modify (l : List EnvCfg) (id : Nat) (f : EnvCfg → EnvCfg) : List EnvCfg :=
  match l, id with
  | [], _ => []
  | c :: cs, 0 => f c :: cs
  | c :: cs, n + 1 => c :: modify cs n f

def step (p : Proc) : Op → Proc × Option Used
  | .newEnv cfg =>
    -- `Environment.__init__` registers the tags; `UnlessTag`, `CaseTag` and `IfChangedTag` call
    -- `get_parser(self.env)` in their constructors, so creating an environment already touches the cache
    ({ p with envs := p.envs ++ [cfg],
              parsers := (call parserKeyEq (fun k => k.id) p.parsers ⟨p.envs.length, (cfg.delims, cfg.mode)⟩).1 }, none)
  | .setMode id m => ({ p with envs := modify p.envs id fun c => { c with mode := m } }, none)
  | .setTags id t => ({ p with envs := modify p.envs id fun c => { c with tags := t } }, none)
  | .setFilters id t => ({ p with envs := modify p.envs id fun c => { c with filters := t } }, none)
  | .parse id =>
    match p.envs[id]? with
    | none => (p, none)
    | some cfg =>
      -- `Environment._parse`: get_parser(self); self.tokenizer() = get_lexer(six strings)
      let pr := call parserKeyEq (fun k => k.id) p.parsers ⟨id, (cfg.delims, cfg.mode)⟩
      let lx := call lexerKeyEq (fun d => d) p.lexers cfg.delims
      ({ p with parsers := pr.1, lexers := lx.1 }, some ⟨lx.2, pr.2, p.envs[pr.2]?⟩)

def run (p : Proc) : List Op → Proc × List (Option Used)
  | [] => (p, [])
  | op :: ops =>
    let r := step p op
    let rs := run r.1 ops
    (rs.1, r.2 :: rs.2)

/-! ## `liquid.Template(...)`: the implicit environment -/

/-- the arguments `Template` forwards to `get_implicit_environment` (loader and globals are always `None`) -/
structure ImplicitCfg where
  extra : Bool
  delims : Delims
  tolerance : Nat
  undefined : Nat
  strictFilters : Bool
  autoescape : Bool
  templateComments : Bool
  deriving Repr, DecidableEq

/-- `get_implicit_environment` is `lru_cache(maxsize=10)` over all its keyword arguments (compared by value);
the environment it builds is determined by them: `f = id` on configurations -/
def implicitCalls (ks : List ImplicitCfg) : List ImplicitCfg :=
  (runCalls (fun a b => a == b) (fun k => k) (empty 10) ks).2

end LiquidVerif.Memo
