/-!
Model of the template loaders' path handling:

* `liquid/builtin/loaders/file_system_loader.py`  — `FileSystemLoader.resolve_path`, `_read`, `get_source`
  (`CachingFileSystemLoader` inherits `resolve_path` unchanged; the caching mixin only stores the result);
* `liquid/builtin/loaders/package_loader.py`      — `PackageLoader._resolve_path`, `get_source`
  (for a regular package, where `importlib.resources.files()` is a `PosixPath`);
* the `pathlib.PurePosixPath` primitives they use (CPython 3.12): parsing of a `str` into root + parts,
  `.name`, `.suffix`, `.parts`, `.is_absolute()`, `.with_suffix()`, `.joinpath()`;
* a finite file system (tree of directories, regular files and symbolic links) with the kernel's path
  walk (`stat`, following links, `MAXSYMLINKS` as fuel — the fuel *is* the modelled resource),
  `Path.exists/is_file` (which swallow ENOENT/ENOTDIR/ELOOP and `ValueError`, but **not** ENAMETOOLONG),
  `Path.resolve(strict=False)` (lenient walk; a symlink loop is a `RuntimeError`) and `open().read()`.

A Python `str` is a list of code points (`Nat`, so lone surrogates are representable), a path component
is a `Name`, file contents are abstract identifiers (`Nat`).

Everything mirrors the code as it is written in the tree under test *after* the `fix:` commits of C22;
the shapes before those commits are kept at the end (`Old` namespace) for the counter-example theorems.
-/
namespace LiquidVerif.PathSafe

abbrev Ch := Nat
abbrev Name := List Ch
abbrev Comps := List Name

def SLASH : Ch := 47
def DOT : Ch := 46
/-- `os.path.curdir` -/
def dot : Name := [DOT]
/-- `os.path.pardir` -/
def dotdot : Name := [DOT, DOT]

/-! ## `pathlib.PurePosixPath` -/

/-- `str.split('/')` -/
def splitSlash : List Ch → List Name
  | [] => [[]]
  | c :: cs =>
    if c = SLASH then [] :: splitSlash cs
    else match splitSlash cs with
      | [] => [[c]]
      | w :: ws => (c :: w) :: ws

/-- `posixpath.splitroot` : number of slashes kept as root (0, 1 or 2 — exactly two are preserved) and the rest -/
def splitroot : List Ch → Nat × List Ch
  | [] => (0, [])
  | a :: t =>
    if a ≠ SLASH then (0, a :: t) else
    match t with
    | [] => (1, [])
    | b :: t2 =>
      if b ≠ SLASH then (1, t) else
      match t2 with
      | [] => (2, [])
      | c :: _ => if c = SLASH then (1, t) else (2, t2)

/-- a parsed `PurePosixPath`: `root` slashes and the tail (no empty and no `.` components; `..` kept) -/
structure PPath where
  root : Nat
  parts : Comps
  deriving DecidableEq, Repr

/-- `Path(s)` : `[x for x in rel.split('/') if x and x != '.']` -/
def parse (s : List Ch) : PPath :=
  let r := splitroot s
  ⟨r.1, (splitSlash r.2).filter (fun x => x ≠ [] ∧ x ≠ dot)⟩

/-- `.name` : last component or `''` -/
def PPath.name (p : PPath) : Name := p.parts.getLast?.getD []

def PPath.isAbsolute (p : PPath) : Bool := p.root > 0

/-- `str.rfind(c)` -/
def rfind (c : Ch) : List Ch → Option Nat
  | [] => none
  | x :: xs =>
    match rfind c xs with
    | some i => some (i + 1)
    | none => if x = c then some 0 else none

/-- `.suffix` of a name: `i = name.rfind('.')`; `name[i:] if 0 < i < len(name) - 1 else ''` -/
def suffixOf (n : Name) : Name :=
  match rfind DOT n with
  | some i => if 0 < i ∧ i < n.length - 1 then n.drop i else []
  | none => []

inductive Exc where
  | notFound        -- liquid.exceptions.TemplateNotFoundError
  | valueError
  | osError
  | runtimeError
  deriving DecidableEq, Repr

deriving instance DecidableEq for Except

/-- the validity test `with_suffix` applies to its argument -/
def suffixOk (ext : Name) : Bool :=
  !(ext.contains SLASH) && !((ext ≠ [] ∧ ext.head? ≠ some DOT) ∨ ext = dot)

/-- `PurePath.with_suffix` -/
def withSuffix (p : PPath) (ext : Name) : Except Exc PPath :=
  if !suffixOk ext then .error .valueError          -- "Invalid suffix"
  else if p.name = [] then .error .valueError       -- "has an empty name"
  else
    let old := suffixOf p.name
    let name' := if old = [] then p.name ++ ext else p.name.take (p.name.length - old.length) ++ ext
    .ok ⟨p.root, p.parts.dropLast ++ [name']⟩

/-- `'/'.join(parts)` -/
def joinSlash : Comps → List Ch
  | [] => []
  | [c] => c
  | c :: d :: rest => c ++ SLASH :: joinSlash (d :: rest)

/-- `str(path)` : root slashes + parts joined by `/`; the empty relative path prints as `.` -/
def strOf (p : PPath) : List Ch :=
  if p.root = 0 ∧ p.parts = [] then dot else List.replicate p.root SLASH ++ joinSlash p.parts

/-- `base.joinpath(tp)` for an already parsed `tp`: an absolute right operand replaces the left one -/
def join (base tp : PPath) : PPath :=
  if tp.root > 0 then tp else ⟨base.root, base.parts ++ tp.parts⟩

/-! ## A finite file system -/

inductive Node where
  | file (content : Nat)
  | dir (entries : List (Name × Node))
  | link (abs : Bool) (target : Comps)     -- target as the kernel splits it (may contain `.`/`..`/empty)

def lookup {α : Type} (es : List (Name × α)) (n : Name) : Option α :=
  match es with
  | [] => none
  | (k, v) :: r => if k = n then some v else lookup r n

/-- the node at a link-free path below `n` (plain descent, nothing is followed) -/
def nodeAt (n : Node) : Comps → Option Node
  | [] => some n
  | c :: cs =>
    match n with
    | .dir es =>
      match lookup es c with
      | some m => nodeAt m cs
      | none => none
    | _ => none

def isDir : Option Node → Bool
  | some (.dir _) => true
  | _ => false

structure FS where
  root : Node
  cwd : Comps          -- canonical working directory (relative search paths start here)
  maxLinks : Nat       -- MAXSYMLINKS (40 on Linux): what one `stat` may follow
  extraLinks : Nat     -- `os.path.realpath` has no such limit (it detects loops instead): its budget beyond MAXSYMLINKS

inductive OSErr where
  | enoent | enotdir | eloop | enametoolong
  deriving DecidableEq, Repr

/-- `os.fsencode` fails (UnicodeEncodeError ⊂ ValueError) on surrogates other than the escapes U+DC80..U+DCFF -/
def encodable (c : Ch) : Bool := !(0xD800 ≤ c ∧ c ≤ 0xDFFF) || (0xDC80 ≤ c ∧ c ≤ 0xDCFF)

/-- bytes of one code point under `os.fsencode` (utf-8, surrogateescape) -/
def utf8Len (c : Ch) : Nat :=
  if c < 0x80 then 1 else if c < 0x800 then 2
  else if 0xDC80 ≤ c ∧ c ≤ 0xDCFF then 1
  else if c < 0x10000 then 3 else 4

def nameBytes (n : Name) : Nat := (n.map utf8Len).sum

/-- NAME_MAX -/
def NAME_MAX : Nat := 255
/-- PATH_MAX (including the terminating NUL) -/
def PATH_MAX : Nat := 4096

/-- outcome of walking up to (and not through) the next symbolic link -/
inductive Seg where
  | done (cur : Comps)
  | err (e : OSErr)
  | follow (cur : Comps) (rest : Comps)

/-- Walk `rest` from the canonical directory `cur` until the path ends or a link must be followed.
`lenient = false` is the kernel (`stat`); `lenient = true` is `os.path.realpath(strict=False)`, which
treats whatever it cannot `lstat` as an ordinary directory. -/
def segment (lenient : Bool) (root : Node) (cur : Comps) : Comps → Seg
  | [] => .done cur
  | c :: rest =>
    if !lenient && !isDir (nodeAt root cur) then .err .enotdir
    else if c = [] ∨ c = dot then segment lenient root cur rest
    else if c = dotdot then segment lenient root cur.dropLast rest
    else if nameBytes c > NAME_MAX then
      (if lenient then segment lenient root (cur ++ [c]) rest else .err .enametoolong)
    else
      match nodeAt root (cur ++ [c]) with
      | some (.link abs t) => .follow (if abs then [] else cur) (t ++ rest)
      | some _ => segment lenient root (cur ++ [c]) rest
      | none => if lenient then segment lenient root (cur ++ [c]) rest else .err .enoent

/-- full walk: at most `fuel` links are followed (ELOOP beyond); returns the remaining fuel and the
canonical path reached -/
def walk (lenient : Bool) (root : Node) : Nat → Comps → Comps → Except OSErr (Nat × Comps)
  | 0, cur, rest =>
    match segment lenient root cur rest with
    | .done q => .ok (0, q)
    | .err e => .error e
    | .follow _ _ => .error .eloop
  | f + 1, cur, rest =>
    match segment lenient root cur rest with
    | .done q => .ok (f + 1, q)
    | .err e => .error e
    | .follow c r => walk lenient root f c r

def FS.start (fs : FS) (p : PPath) : Comps := if p.root = 0 then fs.cwd else []

/-- length in bytes of `str(p)` -/
def strBytes (p : PPath) : Nat := p.root + (p.parts.map nameBytes).sum + (p.parts.length - 1)

/-- the path cannot be handed to a system call: embedded NUL or a code point `os.fsencode` rejects -/
def hasBadChar (p : PPath) : Bool := p.parts.any (fun c => c.any (fun ch => ch = 0 ∨ !encodable ch))

inductive StatErr where
  | os (e : OSErr)
  | value
  deriving DecidableEq, Repr

/-- `os.stat(str(p))` (follows links) -/
def kstat (fs : FS) (p : PPath) : Except StatErr Node :=
  if hasBadChar p then .error .value
  else if strBytes p ≥ PATH_MAX then .error (.os .enametoolong)
  else
    match walk false fs.root fs.maxLinks (fs.start p) p.parts with
    | .error e => .error (.os e)
    | .ok (_, q) =>
      match nodeAt fs.root q with
      | some n => .ok n
      | none => .error (.os .enoent)

/-- `pathlib._ignore_error` : ENOENT, ENOTDIR, EBADF, ELOOP -/
def ignorable : OSErr → Bool
  | .enoent | .enotdir | .eloop => true
  | .enametoolong => false

/-- `Path.exists()` (3.12): ignorable `OSError` and any `ValueError` mean `False`, other `OSError`s propagate -/
def pyExists (fs : FS) (p : PPath) : Except Exc Bool :=
  match kstat fs p with
  | .ok _ => .ok true
  | .error .value => .ok false
  | .error (.os e) => if ignorable e then .ok false else .error .osError

/-- `Path.is_file()` -/
def pyIsFile (fs : FS) (p : PPath) : Except Exc Bool :=
  match kstat fs p with
  | .ok (.file _) => .ok true
  | .ok _ => .ok false
  | .error .value => .ok false
  | .error (.os e) => if ignorable e then .ok false else .error .osError

/-- `Path.resolve(strict=False)` : `os.path.realpath` never raises `OSError` in non-strict mode, but an
embedded NUL is a `ValueError` from `lstat`, and a symlink loop becomes `RuntimeError` (a loop exhausts any
budget; a long loop-free chain does not, hence `extraLinks`). -/
def pyResolve (fs : FS) (p : PPath) : Except Exc Comps :=
  if hasBadChar p then .error .valueError
  else
    match walk true fs.root (fs.maxLinks + fs.extraLinks) (fs.start p) p.parts with
    | .ok (_, q) => .ok q
    | .error .eloop => .error .runtimeError
    | .error _ => .error .osError

/-- `open(p).read()` -/
def pyRead (fs : FS) (p : PPath) : Except Exc Nat :=
  match kstat fs p with
  | .ok (.file c) => .ok c
  | .ok _ => .error .osError
  | .error .value => .error .valueError
  | .error (.os _) => .error .osError

/-- `resolved.is_relative_to(base_resolved)` on canonical absolute paths -/
def isPrefix : Comps → Comps → Bool
  | [], _ => true
  | _ :: _, [] => false
  | a :: as, b :: bs => a = b && isPrefix as bs

/-! ## `FileSystemLoader` -/

structure FSLConfig where
  search : List PPath
  ext : Option Name
  rejectSymlinks : Bool

/-- the constructors' check (`FileSystemLoader.__init__`, and `PackageLoader.__init__` as fixed):
`if ext: Path("x").with_suffix(ext)` — a `ValueError` when `ext` is not a valid suffix -/
def loaderInit (ext : Option Name) : Except Exc Unit :=
  match ext with
  | some (c :: cs) =>
    match withSuffix ⟨0, [[120]]⟩ (c :: cs) with
    | .ok _ => .ok ()
    | .error e => .error e
  | _ => .ok ()

/-- `source_path.exists() and source_path.is_file()` inside `try … except OSError: continue`
(`false` = the `continue`) -/
def fslProbe (fs : FS) (src : PPath) : Except Exc Bool :=
  match pyExists fs src with
  | .error .osError => .ok false
  | .error e => .error e
  | .ok false => .ok false
  | .ok true =>
    match pyIsFile fs src with
    | .error .osError => .ok false
    | r => r

/-- the `for base in self.search_path` loop of `resolve_path` -/
def fslSearch (rej : Bool) (fs : FS) (tp : PPath) : List PPath → Except Exc PPath
  | [] => .error .notFound
  | base :: more =>
    let src := join base tp
    match fslProbe fs src with
    | .error e => .error e
    | .ok false => fslSearch rej fs tp more
    | .ok true =>
      if rej then
        match pyResolve fs src with
        | .error .osError => fslSearch rej fs tp more
        | .error e => .error e
        | .ok r =>
          match pyResolve fs base with
          | .error .osError => fslSearch rej fs tp more
          | .error e => .error e
          | .ok b => if isPrefix b r then .ok src else fslSearch rej fs tp more
      else .ok src

/-- the name after the optional `with_suffix(self.ext)` step -/
def fslTarget (ext : Option Name) (tp : PPath) : Except Exc PPath :=
  match ext with
  | some (c :: cs) => if suffixOf tp.name = [] then withSuffix tp (c :: cs) else .ok tp
  | _ => .ok tp          -- `if self.ext` : None and '' are falsy

/-- `FileSystemLoader.resolve_path` -/
def fslResolve (cfg : FSLConfig) (fs : FS) (name : List Ch) : Except Exc PPath :=
  let tp := parse name
  if tp.name = [] then .error .notFound
  else
    match fslTarget cfg.ext tp with
    | .error e => .error e
    | .ok tp' =>
      if dotdot ∈ tp'.parts ∨ tp'.isAbsolute then .error .notFound
      else fslSearch cfg.rejectSymlinks fs tp' cfg.search

/-- `get_source` : `resolve_path` then `_read` -/
def fslGetSource (cfg : FSLConfig) (fs : FS) (name : List Ch) : Except Exc (PPath × Nat) :=
  match fslResolve cfg fs name with
  | .error e => .error e
  | .ok p =>
    match pyRead fs p with
    | .error e => .error e
    | .ok c => .ok (p, c)

/-! ## `CachingFileSystemLoader` (`CachingLoaderMixin.load/_check_cache` over `FileSystemLoader`, `namespace_key = ""`) -/

/-- a cached template: the key it was stored under, where it came from, its text, and the `st_mtime` `_read` saw -/
structure CEntry where
  key : List Ch
  path : PPath
  content : Nat
  stamp : Nat

structure CCfg where
  fsl : FSLConfig
  autoReload : Bool
  capacity : Nat

/-- `source_path.stat().st_mtime` (`mt` gives the mtime of the node at a canonical path) -/
def pyMtime (fs : FS) (mt : Comps → Nat) (p : PPath) : Except Exc Nat :=
  if hasBadChar p then .error .valueError
  else if strBytes p ≥ PATH_MAX then .error .osError
  else
    match walk false fs.root fs.maxLinks (fs.start p) p.parts with
    | .error _ => .error .osError
    | .ok (_, q) =>
      match nodeAt fs.root q with
      | some _ => .ok (mt q)
      | none => .error .osError

/-- `FileSystemLoader._uptodate` : `try: return mtime == source_path.stat().st_mtime except OSError: return False` -/
def uptodate (fs : FS) (mt : Comps → Nat) (e : CEntry) : Except Exc Bool :=
  match pyMtime fs mt e.path with
  | .ok m => .ok (m == e.stamp)
  | .error .osError => .ok false
  | .error x => .error x

/-- `get_source` with the mtime `_read` records -/
def fslLoad (cfg : FSLConfig) (fs : FS) (mt : Comps → Nat) (name : List Ch) : Except Exc CEntry :=
  match fslGetSource cfg fs name with
  | .error e => .error e
  | .ok (p, c) =>
    match pyMtime fs mt p with
    | .ok m => .ok ⟨name, p, c, m⟩
    | .error e => .error e

def cacheFind (c : List CEntry) (k : List Ch) : Option CEntry := c.find? (fun e => e.key = k)

/-- `LRUCache.__getitem__` moves the key to the most-recent end (list: least recently used first) -/
def cacheTouch (c : List CEntry) (k : List Ch) : List CEntry :=
  match cacheFind c k with
  | some e => c.filter (fun x => x.key ≠ k) ++ [e]
  | none => c

/-- `LRUCache.__setitem__` -/
def cacheSet (cap : Nat) (c : List CEntry) (e : CEntry) : List CEntry :=
  match cacheFind c e.key with
  | some _ => c.filter (fun x => x.key ≠ e.key) ++ [e]
  | none => (if c.length ≥ cap then c.drop 1 else c) ++ [e]

/-- one `load(env, name)` through the cache: returns the new cache and the answer -/
def cachedLoad (L : CCfg) (fs : FS) (mt : Comps → Nat) (cache : List CEntry) (name : List Ch) :
    List CEntry × Except Exc (PPath × Nat) :=
  match cacheFind cache name with
  | none =>
    match fslLoad L.fsl fs mt name with
    | .ok e => (cacheSet L.capacity cache e, .ok (e.path, e.content))
    | .error x => (cache, .error x)
  | some ent =>
    let cache' := cacheTouch cache name
    if L.autoReload then
      match uptodate fs mt ent with
      | .error x => (cache', .error x)
      | .ok true => (cache', .ok (ent.path, ent.content))
      | .ok false =>
        match fslLoad L.fsl fs mt name with
        | .ok e => (cacheSet L.capacity cache' e, .ok (e.path, e.content))
        | .error x => (cache', .error x)
    else (cache', .ok (ent.path, ent.content))

/-- a history of requests, each against the file system as it is at that moment -/
def cachedRun (L : CCfg) (cache : List CEntry) :
    List (FS × (Comps → Nat) × List Ch) → List (Except Exc (PPath × Nat))
  | [] => []
  | (fs, mt, name) :: rest =>
    let r := cachedLoad L fs mt cache name
    r.2 :: cachedRun L r.1 rest

/-! ## `PackageLoader` -/

structure PkgConfig where
  paths : List PPath      -- `files(package).joinpath(package_path)` for each package path
  ext : Name

/-- the `for path in self.paths` loop: `source_path = path.joinpath(str(template_path))` — the target goes
through its string form and is parsed again — then `try: is_file() except OSError: continue` -/
def pkgSearch (fs : FS) (tp : PPath) : List PPath → Except Exc PPath
  | [] => .error .notFound
  | base :: more =>
    let src := join base (parse (strOf tp))
    match pyIsFile fs src with
    | .error .osError => pkgSearch fs tp more
    | .error e => .error e
    | .ok false => pkgSearch fs tp more
    | .ok true => .ok src

/-- `PackageLoader._resolve_path` -/
def pkgResolve (cfg : PkgConfig) (fs : FS) (name : List Ch) : Except Exc PPath :=
  let tp := parse name
  if tp.name = [] then .error .notFound
  else if dotdot ∈ tp.parts ∨ tp.isAbsolute then .error .notFound
  else
    match (if suffixOf tp.name = [] then withSuffix tp cfg.ext else .ok tp) with
    | .error e => .error e
    | .ok tp' => pkgSearch fs tp' cfg.paths

def pkgGetSource (cfg : PkgConfig) (fs : FS) (name : List Ch) : Except Exc (PPath × Nat) :=
  match pkgResolve cfg fs name with
  | .error e => .error e
  | .ok p =>
    match pyRead fs p with
    | .error e => .error e
    | .ok c => .ok (p, c)

/-! ## The code before the C22 `fix:` commits (for the counter-example theorems only) -/
namespace Old

/-- `if not source_path.exists() or not source_path.is_file(): continue` with no `try` -/
def fslProbe (fs : FS) (src : PPath) : Except Exc Bool :=
  match pyExists fs src with
  | .error e => .error e
  | .ok false => .ok false
  | .ok true => pyIsFile fs src

def fslSearch (fs : FS) (tp : PPath) : List PPath → Except Exc PPath
  | [] => .error .notFound
  | base :: more =>
    match fslProbe fs (join base tp) with
    | .error e => .error e
    | .ok false => fslSearch fs tp more
    | .ok true => .ok (join base tp)

/-- `resolve_path` without symlink rejection, before the fix -/
def fslResolve (cfg : FSLConfig) (fs : FS) (name : List Ch) : Except Exc PPath :=
  let tp := parse name
  if tp.name = [] then .error .notFound
  else
    match fslTarget cfg.ext tp with
    | .error e => .error e
    | .ok tp' =>
      if dotdot ∈ tp'.parts ∨ tp'.isAbsolute then .error .notFound
      else fslSearch fs tp' cfg.search

def pkgSearch (fs : FS) (tp : PPath) : List PPath → Except Exc PPath
  | [] => .error .notFound
  | base :: more =>
    match pyIsFile fs (join base tp) with
    | .error e => .error e
    | .ok false => pkgSearch fs tp more
    | .ok true => .ok (join base tp)

/-- `_resolve_path` before the fix: only `..` is rejected, the suffix step runs on any name -/
def pkgResolve (cfg : PkgConfig) (fs : FS) (name : List Ch) : Except Exc PPath :=
  let tp := parse name
  if dotdot ∈ tp.parts then .error .notFound
  else
    match (if suffixOf tp.name = [] then withSuffix tp cfg.ext else .ok tp) with
    | .error e => .error e
    | .ok tp' => pkgSearch fs tp' cfg.paths

end Old

end LiquidVerif.PathSafe
