import LiquidVerif.Model.ExcFlow
/-!
# C02 — the cells where the current tree still lets a non-Liquid exception out

These tables are the decidable hypotheses of the `_partial` theorems, the source of the "known cell" bit the driver
reports (a leak in a cell outside these tables gets a cell-specific signature and is never hidden by a finding), and
what every `_counterexample` theorem instantiates.
-/
namespace LiquidVerif.C02
open LiquidVerif.Gen.C02 Cls Res

/-- `knownLeak f l pos a`: the cell (filter `f`, left class `l`, argument position `pos` (0 = no argument involved),
argument class `a`) is a known leak of the current tree.  The first line is the int→str digit limit: any cell with an
`int_giant` operand. -/
def knownLeak (f : FilterName) (l : Cls) (pos : Nat) (a : Option Cls) : Bool :=
  l == int_giant || a == some int_giant ||
  match f, pos with
  -- compact with a key: item[key] may raise KeyError / IndexError
  | .compact_, 1 => a.isSome && a != some none_
  -- date: fromtimestamp of an out-of-calendar number (ValueError / OSError), int() of a 4300+ digit string
  | .date_, 1 => l == int_ts || l == str_ts || l == str_bigdigits || l == str_hugeint
  -- json: `" " * indent` (MemoryError / OverflowError)
  | .json_, 1 => a == some int_ts || a == some str_ts || a == some int_large || a == some str_bigdigits
                  || a == some int_big || a == some int_huge
  -- sum of +inf and -inf (decimal.InvalidOperation)
  | .sum_, 1 => l == list_infs
  -- str.encode of a lone surrogate (UnicodeEncodeError)
  | .url_encode_, 0 | .base64_encode_, 0 | .base64_url_safe_encode_, 0 => l == str_surrogate
  -- babel
  | .currency_, 0 | .money_, 0 | .money_with_currency_, 0 | .money_without_currency_, 0
  | .money_without_trailing_zeros_, 0 | .decimal_, 0 => l == int_big || l == str_bigdigits || l == int_huge || l == str_hugeint || l == str_exp
  | .datetime_, 0 => l == int_ts || l == int_large || l == int_big || l == int_huge || l == float_inf || l == float_ninf
                     || l == float_nan || l == str_ts || l == str_bigdigits || l == str_hugeint || l == str_exp
                     || l == str_nan || l == str_inf
  | .unit_, 1 => (match a with | some u => u.isStr | none => false) &&
                 (l == int_big || l == str_bigdigits || l == int_huge || l == str_hugeint || l == str_exp || l == float_inf || l == float_ninf || l == str_inf
                  || l == float_nan || l == str_nan)
  | _, _ => false




/-- the cell (filter, left, arguments) is excluded by some hypothesis of `escapes_are_liquid_partial` -/
def cellKnown (f : FilterName) (l : Cls) (args : List Cls) : Bool :=
  knownLeak f l 0 none || knownLeak f l 1 args[0]? || knownLeak f l 2 args[1]? || knownLeak f l 3 args[2]?

/-- known-leak cells of the tag-level sites: only the int→str digit limit is left -/
def knownSiteLeak (s : Site) (x : Cls) : Bool :=
  match s with
  | .output | .cycle_item | .include_name | .contains_in_str | .cycle_group | .render_with | .render_for | .render_arg
  | .include_with | .include_for | .include_arg | .ifchanged | .with_ | .macro_arg | .translate_var | .ternary_val
  | .liquid_echo | .kw_t_var | .kw_t_plural => x == int_giant
  | _ => false

end LiquidVerif.C02
