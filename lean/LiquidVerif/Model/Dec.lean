import LiquidVerif.Model.PyStr
/-!
Numbers for the math filters (`liquid/builtin/filters/math.py`, `num_arg`/`decimal_arg` of `liquid/filter.py`).

* Python `int` is `Int`.  `//` and `%` are computed the way CPython computes them (divide the
  magnitudes, then correct towards minus infinity); `Props/C25.lean` proves this is `Int.fdiv`/`Int.fmod`.
* A finite Python `float` is the exact ratio `(num, den)` of `float.as_integer_ratio()` (reduced, `den > 0`).
  `toDouble` rounds an exact rational to the nearest binary64 (ties to even) — the model of `float(str)`,
  `float(Decimal)`, `int → float`, and of `/` on floats.  `shortest` is `repr(float)` (shortest digit string
  that round-trips) as a decimal `(coef, exp)`; `reprFloat` formats it as CPython does.
* `Dec` is `decimal.Decimal` restricted to finite values: `coef × 10^exp`, operations computed exactly and then
  rounded to the 28 significant digits of the default context (ROUND_HALF_EVEN).
-/
namespace LiquidVerif.Filters

/-! ## integer helpers -/

/-- round the non-negative rational `n / d` to the nearest natural, ties to even -/
def roundHalfEvenNat (n d : Nat) : Nat :=
  let q := n / d
  let r := n % d
  if 2 * r < d then q else if 2 * r > d then q + 1 else if q % 2 == 0 then q else q + 1

/-- round `n / d` (`d > 0`) to the nearest integer, ties to even (Python `round(x)`) -/
def roundHalfEven (n : Int) (d : Nat) : Int :=
  if n < 0 then -(roundHalfEvenNat n.natAbs d : Int) else (roundHalfEvenNat n.natAbs d : Int)

/-- `math.floor` of the rational `n / d`, `d > 0` -/
def floorQ (n : Int) (d : Nat) : Int := n / (d : Int)

/-- `math.ceil` of the rational `n / d`, `d > 0` -/
def ceilQ (n : Int) (d : Nat) : Int := -((-n) / (d : Int))

/-- CPython `int.__floordiv__`: divide the magnitudes, then correct when the signs differ and the
division is inexact (`b ≠ 0`). -/
def pyFloorDiv (a b : Int) : Int :=
  let q : Int := (a.natAbs / b.natAbs : Nat)
  let r : Int := (a.natAbs % b.natAbs : Nat)
  if (a < 0 ↔ b < 0) then q else if r = 0 then -q else -q - 1

/-- CPython `int.__mod__`: remainder of the magnitudes, sign and offset corrected so that the result has
the sign of the divisor (`b ≠ 0`). -/
def pyMod (a b : Int) : Int :=
  let r : Int := (a.natAbs % b.natAbs : Nat)
  if r = 0 then 0
  else if (a < 0 ↔ b < 0) then (if b < 0 then -r else r)
  else (if b < 0 then r + b else b - r)

/-- number of decimal digits of `n` (`0` has one digit) -/
def digits10 (n : Nat) : Nat :=
  if h : n < 10 then 1 else digits10 (n / 10) + 1
termination_by n
decreasing_by omega

def reduceQ (n : Int) (d : Nat) : Int × Nat :=
  let g := Nat.gcd n.natAbs d
  if g == 0 then (0, 1) else (n / (g : Int), d / g)

/-! ## nearest binary64 -/

/-- `a / d ≥ 2^e` -/
def geP2 (a d : Nat) (e : Int) : Bool :=
  if e ≥ 0 then a ≥ d * 2 ^ e.toNat else a * 2 ^ (-e).toNat ≥ d

/-- `a / d ≥ 10^e` -/
def geP10 (a d : Nat) (e : Int) : Bool :=
  if e ≥ 0 then a ≥ d * 10 ^ e.toNat else a * 10 ^ (-e).toNat ≥ d

/-- nearest binary64 to the exact rational `n / d` (`d > 0`), ties to even, as a reduced ratio.
`none` = magnitude rounds to infinity (OverflowError / inf in Python; outside the model). -/
def toDouble (n : Int) (d : Nat) : Option (Int × Nat) :=
  if n == 0 || d == 0 then some (0, 1) else
  let a := n.natAbs
  let e0 : Int := (Nat.log2 a : Int) - (Nat.log2 d : Int)
  let e : Int := if geP2 a d e0 then e0 else e0 - 1
  let p : Int := max (e - 52) (-1074)
  let m : Nat := if p ≥ 0 then roundHalfEvenNat a (d * 2 ^ p.toNat) else roundHalfEvenNat (a * 2 ^ (-p).toNat) d
  if p ≥ 0 && m * 2 ^ p.toNat ≥ 2 ^ 1024 then none else
  let sm : Int := if n < 0 then -(m : Int) else (m : Int)
  if p ≥ 0 then some (sm * (2 ^ p.toNat : Nat), 1) else some (reduceQ sm (2 ^ (-p).toNat))

/-- value `c × 10^e` as an exact ratio -/
def decRatio (c : Int) (e : Int) : Int × Nat :=
  if e ≥ 0 then (c * (10 ^ e.toNat : Nat), 1) else (c, 10 ^ (-e).toNat)

def decToDouble (c : Int) (e : Int) : Option (Int × Nat) :=
  let r := decRatio c e
  toDouble r.1 r.2

/-- `⌊log10 (a/d)⌋` for `a, d > 0` -/
def floorLog10 (a d : Nat) : Int :=
  let t : Int := (digits10 a : Int) - (digits10 d : Int)
  if geP10 a d t then t else t - 1

/-- try to represent the positive double `a/d` with `k` significant digits: the `k`-digit decimals just
below and just above; keep those that round back to `a/d`, prefer the nearer (ties to even). -/
def shortestAt (a d : Nat) (k : Nat) : Option (Nat × Int) :=
  let ex : Int := floorLog10 a d - (k : Int) + 1
  let N := if ex ≥ 0 then a else a * 10 ^ (-ex).toNat
  let D := if ex ≥ 0 then d * 10 ^ ex.toNat else d
  let lo := N / D
  let r := N % D
  if r == 0 then some (lo, ex) else
  let hi := lo + 1
  let x : Option (Int × Nat) := some ((a : Int), d)
  let okLo := decToDouble lo ex == x
  let okHi := decToDouble hi ex == x
  let preferLo := 2 * r < D || (2 * r == D && lo % 2 == 0)
  if okLo && okHi then some (if preferLo then lo else hi, ex)
  else if okLo then some (lo, ex)
  else if okHi then some (hi, ex)
  else none

def shortestFrom (a d : Nat) : List Nat → Nat × Int
  | [] => ((roundHalfEvenNat (if floorLog10 a d - 16 ≥ 0 then a else a * 10 ^ (-(floorLog10 a d - 16)).toNat)
             (if floorLog10 a d - 16 ≥ 0 then d * 10 ^ (floorLog10 a d - 16).toNat else d)), floorLog10 a d - 16)
  | k :: ks => match shortestAt a d k with
    | some r => r
    | none => shortestFrom a d ks

/-- `Decimal(repr(x))` for the finite double `x = n/d` (reduced ratio): shortest round-tripping decimal -/
def shortest (n : Int) (d : Nat) : Int × Int :=
  if n == 0 then (0, 0) else
  let (c, e) := shortestFrom n.natAbs d [1, 2, 3, 4, 5, 6, 7, 8, 9, 10, 11, 12, 13, 14, 15, 16, 17]
  (if n < 0 then -(c : Int) else (c : Int), e)

/-- strip trailing zeros of a positive coefficient -/
def stripZeros (c : Nat) (e : Int) : Nat × Int :=
  if h : c = 0 then (0, e) else if c % 10 == 0 then stripZeros (c / 10) (e + 1) else (c, e)
termination_by c
decreasing_by omega

def natDigits (n : Nat) : Str := (toString n).toList

/-- CPython `repr(float)` (`format_float_short` with code `r`) for the finite double `n/d` -/
def reprFloat (n : Int) (d : Nat) : Str :=
  if n == 0 then "0.0".toList else
  let (c, e) := shortest n d
  let (c, e) := stripZeros c.natAbs e
  let ds := natDigits c
  let nd : Int := ds.length
  let decpt : Int := nd + e
  let body : Str :=
    if decpt ≤ -4 || decpt > 16 then
      let x := decpt - 1
      let xs := natDigits x.natAbs
      let xs := if xs.length < 2 then '0' :: xs else xs
      ds.take 1 ++ (if ds.length > 1 then '.' :: ds.drop 1 else []) ++ ['e', if x < 0 then '-' else '+'] ++ xs
    else if decpt ≤ 0 then
      ['0', '.'] ++ List.replicate (-decpt).toNat '0' ++ ds
    else if decpt ≥ nd then
      ds ++ List.replicate (decpt - nd).toNat '0' ++ ['.', '0']
    else ds.take decpt.toNat ++ ['.'] ++ ds.drop decpt.toNat
  if n < 0 then '-' :: body else body

/-! ## `decimal.Decimal`, finite values, default context (prec 28, ROUND_HALF_EVEN) -/

structure Dec where
  coef : Int
  exp : Int
  deriving Repr, DecidableEq

def PREC : Nat := 28

/-- context rounding of an exact result -/
def Dec.round (x : Dec) : Dec :=
  let nd := digits10 x.coef.natAbs
  if nd ≤ PREC then x
  else
    let k := nd - PREC
    { coef := roundHalfEven x.coef (10 ^ k), exp := x.exp + k }

def Dec.ofInt (i : Int) : Dec := ⟨i, 0⟩
/-- `Decimal(str(x))` for a float -/
def Dec.ofFloat (n : Int) (d : Nat) : Dec := let r := shortest n d; ⟨r.1, r.2⟩

/-- the two coefficients on the common (smaller) exponent -/
def Dec.align (x y : Dec) : Int × Int × Int :=
  let e := min x.exp y.exp
  (x.coef * (10 ^ (x.exp - e).toNat : Nat), y.coef * (10 ^ (y.exp - e).toNat : Nat), e)

def Dec.addExact (x y : Dec) : Dec := let (a, b, e) := Dec.align x y; ⟨a + b, e⟩
def Dec.subExact (x y : Dec) : Dec := let (a, b, e) := Dec.align x y; ⟨a - b, e⟩
def Dec.mulExact (x y : Dec) : Dec := ⟨x.coef * y.coef, x.exp + y.exp⟩

def Dec.add (x y : Dec) : Dec := (Dec.addExact x y).round
def Dec.sub (x y : Dec) : Dec := (Dec.subExact x y).round
def Dec.mul (x y : Dec) : Dec := (Dec.mulExact x y).round

/-- `x % y` of `decimal`: remainder of the division truncated towards zero (sign of the dividend).
`none`: `decimal.InvalidOperation` (zero divisor, or integer quotient longer than the precision). -/
def Dec.rem (x y : Dec) : Option Dec :=
  if y.coef == 0 then none else
  let (a, b, e) := Dec.align x y
  let q := Int.tdiv a b
  if digits10 q.natAbs > PREC then none
  else some (Dec.round ⟨Int.tmod a b, e⟩)

def Dec.toDouble (x : Dec) : Option (Int × Nat) := decToDouble x.coef x.exp

/-! ## `float(str)` syntax (finite decimal literals; `inf`/`nan` spellings are outside the model) -/

/-- digits with single underscores between digits → (value, number of digits) -/
def parseDigitsUSc : Nat → Nat → Bool → Str → Option (Nat × Nat)
  | acc, cnt, prev, [] => if prev then some (acc, cnt) else none
  | acc, cnt, prev, c :: cs =>
    match digitVal c with
    | some d => parseDigitsUSc (acc * 10 + d) (cnt + 1) true cs
    | none => if c == '_' && prev then parseDigitsUSc acc cnt false cs else none

def splitAtChar (p : Char → Bool) : Str → Str × Option Str
  | [] => ([], none)
  | c :: cs => if p c then ([], some cs) else
      let (a, b) := splitAtChar p cs
      (c :: a, b)

/-- mantissa `int[.frac]`, `[.frac]`, `int.` → (coef, number of fraction digits) -/
def parseMantissa (s : Str) : Option (Nat × Nat) :=
  let (ip, fp) := splitAtChar (· == '.') s
  let iv : Option (Nat × Nat) := if ip.isEmpty then some (0, 0) else parseDigitsUSc 0 0 false ip
  match iv, fp with
  | none, _ => none
  | some (i, _), none => if ip.isEmpty then none else some (i, 0)
  | some (i, _), some f =>
    if f.isEmpty then (if ip.isEmpty then none else some (i, 0))
    else match parseDigitsUSc 0 0 false f with
      | none => none
      | some (fv, fc) => some (i * 10 ^ fc + fv, fc)

def isSpecialFloatWord (s : Str) : Bool :=
  let t := s.map lowerC
  let t := match t with | '-' :: r => r | '+' :: r => r | r => r
  t == "inf".toList || t == "infinity".toList || t == "nan".toList

/-- exact decimal value `(coef, exp)` of a Python float literal string; `none` = ValueError -/
def parseFloatDec (s : Str) : Option (Int × Int) :=
  let t := strip s
  let (neg, body) := match t with | '-' :: r => (true, r) | '+' :: r => (false, r) | r => (false, r)
  let (ms, es) := splitAtChar (fun c => c == 'e' || c == 'E') body
  match parseMantissa ms with
  | none => none
  | some (c, fc) =>
    let ex : Option Int := match es with
      | none => some 0
      | some ('-' :: r) => (parseDigitsUSc 0 0 false r).map fun p => -(p.1 : Int)
      | some ('+' :: r) => (parseDigitsUSc 0 0 false r).map fun p => (p.1 : Int)
      | some r => (parseDigitsUSc 0 0 false r).map fun p => (p.1 : Int)
    match ex with
    | none => none
    | some x => some (if neg then -(c : Int) else (c : Int), x - fc)

end LiquidVerif.Filters
