import LiquidVerif.Model.PyPrim
/-!
# C02 — exception flow of the conversion helpers, filter decorators, filters and tag-level sites

Every `try/except` of the anchored code is a `tryCatch` over the handler table **generated from the source**
(`Gen/C02Tables.lean`): which classes a handler catches and whether it raises a new class, re-raises or recovers.
What a recovering handler continues with, and the straight-line code between the `try`s, is transcribed by hand in
the same order as the Python.  A filter is run the way `Filter.evaluate` runs it: the decorator's conversion of the
left value (outside the decorator's `try`), the call (arity `TypeError` included), the decorator's handlers, then
`Filter.evaluate`'s handlers.
-/
set_option linter.unusedVariables false
namespace LiquidVerif.C02
open LiquidVerif.Gen.C02 Cls Res

/-- index of the first handler whose class tuple matches `e` -/
def findHandler (hs : List Handler) (e : Exc) : Option (Nat × Handler) :=
  match hs.findIdx? (fun h => h.classes.any (fun c => isSub e c)) with
  | none => none
  | some i => (hs[i]?).map (fun h => (i, h))

/-- what one outcome becomes under `try … except hs`; `k i` overrides handler `i` (needed for `recover` handlers and
for handlers whose body is conditional).  A `recover` handler without a continuation is a modelling gap and fails
closed (`Exception` is not a Liquid error). -/
def handle (hs : List Handler) (k : Nat → Option (Res α)) (r : Except Exc α) : Res α :=
  match r with
  | .ok a => [.ok a]
  | .error e =>
    match findHandler hs e with
    | none => [.error e]
    | some (i, h) =>
      match k i with
      | some r => r
      | none =>
        match h.action with
        | .raises x => [.error x]
        | .reraise => [.error e]
        | .recover => [.error .Exception]

def tryCatch (m : Res α) (hs : List Handler) (k : Nat → Option (Res α)) : Res α :=
  List.flatMap (handle hs k) m

def noOverride : Nat → Option (Res α) := fun _ => none

/-! ## Conversion helpers (`liquid/limits.py`, `liquid/filter.py`) -/

/-- `limits.to_int` -/
def toInt (v : Cls) : Res Cls :=
  if v == str_hugeint then raise .LiquidValueError else pyInt v

/-- `filter.int_arg(val, default)` -/
def intArg (v : Cls) (dflt : Option Cls) : Res Cls :=
  tryCatch (toInt v) catch_filter_int_arg_0 (fun _ => dflt.map Res.ret)

/-- `filter.num_arg(val, default)` -/
def numArg (v : Cls) (dflt : Option Cls) : Res Cls :=
  if v.isNum then pure v
  else if v.isStr then
    tryCatch (toInt v) catch_filter_num_arg_0 (fun _ => some
      (tryCatch (pyFloat v) catch_filter_num_arg_1 (fun _ => dflt.map Res.ret)))
  else match dflt with
    | some d => pure d
    | none => raise .FilterArgumentError

/-- `filter.decimal_arg(val, default)`; the value is only needed up to "converted" -/
def decimalArg (v : Cls) (dflt : Option Unit) : Res Unit :=
  if v.isInt || v.isFloat then pure ()
  else if v.isStr then
    tryCatch (toInt v).unit catch_filter_decimal_arg_0 (fun _ => some
      (tryCatch (pyDecimalOfStr v) catch_filter_decimal_arg_1 (fun _ => dflt.map Res.ret)))
  else match dflt with
    | some d => pure d
    | none => raise .FilterArgumentError

/-- `stringify.to_liquid_string` (lists join `soft_str` of the items; our list classes hold no giant ints) -/
def toLiquidString (v : Cls) : Res Cls :=
  if v.isStr then pure v
  else if v.isBool then pure str_repr
  else if v == none_ then pure str_empty
  else if v.isList || v == range_ then pure str_repr
  else pyStr v

/-! ## Decorators (`liquid/filter.py`, `extra/filters/babel.py`) -/

def decoPre : Deco → Cls → Res Cls
  | .string_filter, l => if l == none_ then pure str_empty else pyStr l
  | .math_filter, l => numArg l (some int_zero)
  | .array_filter, l =>
    if l.isList || l == range_ || l == undefined then pure l else raise .FilterValueError
  | _, l => pure l

def decoTable : Deco → List Handler
  | .string_filter => catch_filter_string_filter_wrapper_0
  | .array_filter => catch_filter_array_filter_wrapper_0
  | .sequence_filter => catch_filter_sequence_filter_wrapper_0
  | .liquid_filter => catch_filter_liquid_filter_wrapper_0
  | .math_filter => catch_filter_math_filter_wrapper_0
  | .unit_filter => catch_extra_filters_babel_unit_filter_wrapper_0

/-- `sequence_filter` returns `None` when an inner `_getitem` met a nil item -/
def decoRecover : Deco → Nat → Option (Res Unit)
  | .sequence_filter, 0 => some (pure ())
  | _, _ => none

/-! ## Item access helpers of the array filters -/

/-- `array._getitem(item, key, default)` for one item -/
def getitemH (e : Elem) (key : Cls) : Res Unit :=
  tryCatch (pyGetitem e key) catch_builtin_filters_array__getitem_0 (fun i =>
    match i with
    | 0 => some (pure ())                        -- KeyError / IndexError: default
    | _ =>                                        -- TypeError: the chain of special cases
      match e with
      | .none => some (raise .FilterItemTypeError)
      | .str | .strEmpty => some (pure ())
      | .int => if key.isInt then some (pure ()) else some (raise .TypeError)
      | .float | .inf | .ninf => some (raise .TypeError)   -- no __getitem__: re-raised
      | .dictK | .dictJ => some (pure ()))

/-- an operation applied to every item: any item may be the first to fail, none may -/
def forItems (l : Cls) (op : Elem → Res Unit) : Res Unit :=
  List.foldr (fun e acc => Res.alt ((op e).excs.map (fun x => Except.error x)) acc) (Res.ret ()) (elems l)

/-- `str(item)` for every item (only a scalar giant int, wrapped as `[x]`, can fail) -/
def strItems (l : Cls) : Res Unit := if l == int_giant then raise .ValueError else pure ()

/-- run `m` only when the (coerced) left value has at least one item -/
def whenItems (l : Cls) (m : Res Unit) : Res Unit := if (elems l).isEmpty then pure () else m

/-! ## Filter bodies

`l` is the left value after the decorator's conversion, `a0 a1 a2` the positional arguments (`none` = not supplied).
Each body is `s0; s1 a0; s2 a1; s3 a2; sEnd`: one step per argument (a step may also read `l`), in source order. -/

structure Steps where
  s0 : Res Unit := Res.ret ()
  s1 : Option Cls → Res Unit := fun _ => Res.ret ()
  s2 : Option Cls → Res Unit := fun _ => Res.ret ()
  s3 : Option Cls → Res Unit := fun _ => Res.ret ()
  sEnd : Res Unit := Res.ret ()

def optStr (a : Option Cls) : Res Unit := match a with | none => pure () | some c => (pyStr c).unit
def optTLS (a : Option Cls) : Res Unit := match a with | none => pure () | some c => (toLiquidString c).unit

/-- the arithmetic of `minus` / `plus` / `times` -/
def arith (op : ArithOp) (l : Cls) (a : Option Cls) : Res Unit :=
  match a with
  | none => pure ()
  | some a => do
    let o ← numArg a (some int_zero)
    if l.isInt && o.isInt then pure () else do
      pyDecimalOfNum l; pyDecimalOfNum o; pyDecArith op l o

/-- `string._slice_arg` -/
def sliceArg (v : Cls) : Res Unit :=
  if v.isFloat then raise .FilterArgumentError
  else (tryCatch (toInt v) catch_builtin_filters_string__slice_arg_0 noOverride).unit

/-- `truncate` / `truncatewords`: the `num` argument -/
def truncNum (tbl : List Handler) (a : Option Cls) : Res Unit :=
  match a with
  | none => pure ()
  | some c => if c == undefined then raise .FilterArgumentError else (tryCatch (toInt c) tbl noOverride).unit

/-- `where` / `reject` / `find` / `find_index` / `has`: `_getitem(item, attr)` for every item -/
def attrStep (l : Cls) (a : Option Cls) : Res Unit :=
  match a with
  | none => pure ()
  | some k => forItems l (fun e => getitemH e k)

/-- `format_message`: every `%` that does not start a `%(name)s` placeholder is doubled, then `escaped % vars` -/
def fmtOf (v : Cls) : Res Unit := do
  let s ← toLiquidString v
  if s == str_repr then pure () else pyPercentFormatEscaped s

/-- the plural text of `ngettext` / `npgettext`: stringified, and %-formatted when the count selects it -/
def pluralStep (a : Option Cls) : Res Unit :=
  match a with
  | none => pure ()
  | some c => do let _ ← toLiquidString c; Res.alt (pure ()) (fmtOf c)

/-- babel: `format_currency` / `format_decimal` of `_parse_decimal(left)` -/
def babelDecimal : Cls → Res Unit
  | int_huge | int_giant | str_hugeint | str_exp => raise .decimal_InvalidOperation
  | int_big | str_bigdigits => [.ok (), .error .decimal_InvalidOperation]      -- more than 28 digits (from 2**94 on)
  | _ => pure ()

/-- babel `datetime`: `_parse_datetime(left)` (a number, or `none` for a parsed date) then `format_datetime` -/
def babelDatetime (l : Cls) : Res Unit :=
  let fmtNum : Option Cls → Res Unit := fun n =>
    match n with
    | some float_nan => raise .ValueError
    | some float_inf | some float_ninf => raise .OverflowError
    | some n => pyFromTimestamp n
    | none => pure ()
  if l.isStr then do
    -- `_parse_number`: int(val), else float(val); a ValueError from both falls through to dateutil
    let n ← tryCatch ((tryCatch (pyInt l) catch_extra_filters_babel__parse_number_0 (fun _ => some (pyFloat l))).bind
                (fun c => pure (some c)))
              catch_extra_filters_babel__parse_datetime_0
              (fun _ => some ((tryCatch (pyDateParse l) catch_extra_filters_babel__parse_datetime_1 noOverride).bind
                (fun _ => pure none)))
    fmtNum n
  else if l.isNum then fmtNum (some l)
  else raise .LiquidTypeError

def st_at_most (l : Cls) : Steps :=
  { s1 := fun a => match a with | none => pure () | some a => (numArg a (some int_zero)).unit }

def st_ceil (l : Cls) : Steps :=
  { s0 := pyCeil l }

def st_divided_by (l : Cls) : Steps :=
  { s1 := fun a => match a with
  | none => pure ()
  | some a => do
    let o ← numArg a (some int_zero)
    tryCatch (if o.isInt && l.isInt then pyIntDiv l o else pyTrueDiv l o) catch_builtin_filters_math_divided_by_0 noOverride }

def st_minus (l : Cls) : Steps :=
  { s1 := arith .minus l }

def st_plus (l : Cls) : Steps :=
  { s1 := arith .plus l }

def st_times (l : Cls) : Steps :=
  { s1 := arith .times l }

def st_modulo (l : Cls) : Steps :=
  { s1 := fun a => match a with
  | none => pure ()
  | some a => do
    let o ← numArg a (some int_zero)
    tryCatch (if l.isInt && o.isInt then pyIntDiv l o
              else do pyDecimalOfNum l; pyDecimalOfNum o; pyDecArith .modulo l o)
      catch_builtin_filters_math_modulo_0 noOverride }

def st_round (l : Cls) : Steps :=
  { s1 := fun a => match a with
  | none => pyCeil l
  | some nd =>
    if nd == none_ || nd == undefined then pyCeil l else do
      let r ← tryCatch ((numArg nd none).bind (fun c => pure (some c))) catch_builtin_filters_math_round__0
                (fun _ => some (pure none))
      match r with
      | none => pyCeil l
      | some n => do
        let n' ← if n.isFloat then pyInt n else pure n
        if n' == int_neg then pure ()
        else if n'.isZero then pyCeil l
        else pure () }

def st_url_encode (l : Cls) : Steps :=
  { s0 := pyEncode l }

def st_base64_decode (l : Cls) : Steps :=
  { s0 := tryCatch (pyB64DecodeUtf8 l) catch_builtin_filters_string_base64_decode_0 noOverride }

def st_base64_url_safe_decode (l : Cls) : Steps :=
  { s0 := tryCatch (pyB64DecodeUtf8 l) catch_builtin_filters_string_base64_url_safe_decode_0 noOverride }

def st_append (l : Cls) : Steps :=
  { s1 := optStr }

def st_remove_last (l : Cls) : Steps :=
  { s1 := fun a => tryCatch (optStr a) catch_builtin_filters_string_remove_last_0 (fun _ => some (pure ())) }

def st_replace (l : Cls) : Steps :=
  { s1 := optStr, s2 := optStr }

def st_replace_last (l : Cls) : Steps :=
  {
  s1 := fun a => tryCatch (optStr a) catch_builtin_filters_string_replace_last_0 (fun _ => some (pure ())),
  s2 := fun a => Res.alt (pure ()) (optStr a) }     -- `soft_str(sub)` only when `seq` occurs (or was rejected)

def st_split (l : Cls) : Steps :=
  { s1 := fun a => match a with
  | none => pure ()
  | some c => if c == undefined || c == none_ || c == str_empty then pure () else (pyStr c).unit }

def st_truncate (l : Cls) : Steps :=
  { s1 := truncNum catch_builtin_filters_string_truncate_0, s2 := optStr }

def st_truncatewords (l : Cls) : Steps :=
  { s1 := truncNum catch_builtin_filters_string_truncatewords_0, s2 := optStr }

def st_slice (l : Cls) : Steps :=
  {
  s0 := if l.isList || l == range_ || l.isStr then pure () else (pyStr l).unit,
  s1 := fun a => match a with
    | none => pure ()
    | some c => if c == undefined then raise .FilterArgumentError else sliceArg c,
  s2 := fun a => match a with
    | none => pure ()
    | some c => if c == undefined then pure () else sliceArg c }

def st_join (l : Cls) : Steps :=
  { s1 := optStr, sEnd := strItems l }

def st_concat (l : Cls) : Steps :=
  { s1 := fun a => match a with
  | none => pure ()
  | some c => if c.isList then pure () else raise .FilterArgumentError }

def st_map (l : Cls) : Steps :=
  { s1 := fun a => match a with
  | none => pure ()
  | some k => whenItems l (tryCatch (do
        let ks ← pyStr k
        forItems l (fun e => getitemH e ks)) catch_builtin_filters_array_map__0 noOverride) }

def st_sort (l : Cls) : Steps :=
  { s1 := fun a =>
  let unkeyed := tryCatch (pySorted l) catch_builtin_filters_array_sort_0 noOverride
  match a with
  | none => unkeyed
  | some k => if k.pyFalsy then unkeyed else do
      let ks ← pyStr k
      forItems l (fun e => getitemH e ks)
      -- comparing the extracted keys (a missing key sorts as a string)
      if l == list_dict_gap || l == list_mixed then Res.alt (pure ()) (raise .TypeError) else pure () }

def st_sort_natural (l : Cls) : Steps :=
  { s1 := fun a => match a with
  | none => strItems l
  | some k => if k.pyFalsy then strItems l else do
      let ks ← pyStr k
      forItems l (fun e => getitemH e ks) }

def st_where (l : Cls) : Steps :=
  { s1 := attrStep l }

def st_reject (l : Cls) : Steps :=
  { s1 := fun a => match a with
  | none => pure ()
  | some k => if k == none_ || k == undefined then pure () else forItems l (fun e => getitemH e k) }

def st_uniq (l : Cls) : Steps :=
  { s1 := fun a => match a with
  | none => pure ()
  | some k => if k == none_ then pure () else
      forItems l (fun e => tryCatch (pyGetitem e k) catch_builtin_filters_array_uniq_0 (fun i =>
        match i with
        | 0 => some (pure ())
        | _ => some (do let _ ← pyStr k; strItems l; raise .FilterArgumentError))) }   -- the message formats `key` and the item

def st_compact (l : Cls) : Steps :=
  { s1 := fun a => match a with
  | none => pure ()
  | some k => if k == none_ then pure () else
      tryCatch (forItems l (fun e => pyGetitem e k)) catch_builtin_filters_array_compact_0
        (fun _ => some (do let _ ← pyStr k; raise .FilterArgumentError)) }            -- the message formats `key`

def st_sum (l : Cls) : Steps :=
  { s1 := fun a =>
  let unkeyed : Res Unit := do
    if l.isStr then decimalArg l (some ()) else pure ()
    pySumDecimals l
  match a with
  | none => unkeyed
  | some k => if k == none_ || k == undefined then unkeyed else do
      forItems l (fun e => getitemH e k)
      -- `_getitem("abc", "b")` returns the key itself when it occurs in the string: it is then converted
      if l.isStr && k.isStr then Res.alt (pure ()) (decimalArg k (some ())) else pure () }

def st_date (l : Cls) : Steps :=
  {
  s1 := fun a => match a with
    | none => pure ()
    | some fmt =>
      if l == undefined then pure ()
      else if fmt == undefined then (pyStr l).unit
      else do
        -- parse `dat`; `false` = the filter returned `str(dat)` early
        let cont ← (if l.isStr then
            if strIsDigit l then do let n ← pyInt l; pyFromTimestamp n; pure true
            else tryCatch ((pyDateParse l).bind fun _ => pure true) catch_builtin_filters_misc_date_0 (fun _ => some (pure false))
          else if l.isInt then
            tryCatch ((pyFromTimestamp l).bind fun _ => pure true) catch_builtin_filters_misc_date_1
              (fun _ => some ((pyStr l).bind fun _ => pure false))
          else raise .FilterArgumentError : Res Bool)
        -- `dat.strftime(fmt)`
        if cont then
          tryCatch (if fmt.isStr then pyEncode fmt else raise .TypeError) catch_builtin_filters_misc_date_2 noOverride
        else pure () }

def st_json (l : Cls) : Steps :=
  { s1 := fun a => do
  (match a with
   | none => pure ()
   | some n => if n.pyFalsy then pure () else do
       let i ← intArg n none
       if jsonUsesIndent l then pyJsonIndent i else pure ())
  if l == undefined || l == range_ then raise .TypeError
  else if l == int_giant then raise .ValueError
  else pure () }

def st_index (l : Cls) : Steps :=
  { s1 := fun a => match a with
  | none => pure ()
  | some _ =>
    -- `left.index(obj)`: Undefined has no `index`; a missing item raises ValueError
    tryCatch (if l == undefined then raise .AttributeError else Res.alt (pure ()) (raise .ValueError))
      catch_extra_filters_array_index_0 (fun _ => some (pure ())) }

def st_sort_numeric (l : Cls) : Steps :=
  { s1 := fun a =>
  -- `_ints(item)`: ints are taken as they are, anything else through `to_int` of its digit runs
  let unkeyed : Res Unit := if l == str_hugeint then raise .LiquidValueError else pure ()
  match a with
  | none => unkeyed
  | some k => if k.pyFalsy then unkeyed else (pyStr k).unit }

def st_t (l : Cls) : Steps :=
  { s0 := (toLiquidString l).unit, s1 := optTLS, sEnd := fmtOf l }

def st_gettext (l : Cls) : Steps :=
  { s0 := (toLiquidString l).unit, sEnd := fmtOf l }

def st_pgettext (l : Cls) : Steps :=
  { s0 := (toLiquidString l).unit, s1 := optTLS, sEnd := fmtOf l }

def st_ngettext (l : Cls) : Steps :=
  {
  s0 := (toLiquidString l).unit, s1 := pluralStep,
  s2 := fun a => match a with | none => pure () | some c => (intArg c (some int_pos)).unit,
  sEnd := Res.alt (pure ()) (fmtOf l) }

def st_npgettext (l : Cls) : Steps :=
  {
  s0 := (toLiquidString l).unit, s1 := optTLS, s2 := pluralStep,
  s3 := fun a => match a with | none => pure () | some c => (intArg c (some int_pos)).unit,
  sEnd := Res.alt (pure ()) (fmtOf l) }

def st_currency (l : Cls) : Steps :=
  { s0 := babelDecimal l }

def st_datetime (l : Cls) : Steps :=
  { s0 := babelDatetime l }

def st_unit (l : Cls) : Steps :=
  { s1 := fun a => match a with
  | none => pure ()
  | some u =>
    -- babel matches the unit name against the tail of its unit ids: the empty string and short strings match something
    if u.isStr then
      Res.alt (raise .babel_UnknownUnitError)
        (match l with
         | int_huge | int_giant | str_hugeint | str_exp => raise .decimal_InvalidOperation
         | int_big | str_bigdigits => [.ok (), .error .decimal_InvalidOperation]
         | float_inf | float_ninf | str_inf => raise .OverflowError
         | float_nan | str_nan => raise .ValueError
         | _ => pure ())
    else Res.alt (raise .babel_UnknownUnitError) (raise .TypeError) }

/-- the steps of every registered filter (one small definition per filter, so that evaluation stays cheap) -/
def steps (f : FilterName) (l : Cls) : Steps :=
  match f with
  | .abs_ => {}
  | .at_most_ | .at_least_ => st_at_most l
  | .ceil_ | .floor_ => st_ceil l
  | .divided_by_ => st_divided_by l
  | .minus_ => st_minus l
  | .plus_ => st_plus l
  | .times_ => st_times l
  | .modulo_ => st_modulo l
  | .round_ => st_round l
  | .capitalize_ | .downcase_ | .upcase_ | .lstrip_ | .rstrip_ | .strip_ | .squish_ | .strip_html_ | .strip_newlines_
  | .newline_to_br_ | .escape_ | .escape_once_ | .url_decode_ | .safe_ | .escapejs_ | .script_tag_ | .stylesheet_tag_ => {}
  | .url_encode_ | .base64_encode_ | .base64_url_safe_encode_ => st_url_encode l
  | .base64_decode_ => st_base64_decode l
  | .base64_url_safe_decode_ => st_base64_url_safe_decode l
  | .append_ | .prepend_ | .remove_ | .remove_first_ => st_append l
  | .remove_last_ => st_remove_last l
  | .replace_ | .replace_first_ => st_replace l
  | .replace_last_ => st_replace_last l
  | .split_ => st_split l
  | .truncate_ => st_truncate l
  | .truncatewords_ => st_truncatewords l
  | .slice_ => st_slice l
  | .join_ => st_join l
  | .first_ | .last_ | .reverse_ | .size_ | .default_ => {}
  | .concat_ => st_concat l
  | .map_ => st_map l
  | .sort_ => st_sort l
  | .sort_natural_ => st_sort_natural l
  | .where_ | .find_ | .find_index_ | .has_ => st_where l
  | .reject_ => st_reject l
  | .uniq_ => st_uniq l
  | .compact_ => st_compact l
  | .sum_ => st_sum l
  | .date_ => st_date l
  | .json_ => st_json l
  | .index_ => st_index l
  | .sort_numeric_ => st_sort_numeric l
  | .t_ => st_t l
  | .gettext_ => st_gettext l
  | .pgettext_ => st_pgettext l
  | .ngettext_ => st_ngettext l
  | .npgettext_ => st_npgettext l
  | .currency_ | .money_ | .money_with_currency_ | .money_without_currency_ | .money_without_trailing_zeros_ | .decimal_ => st_currency l
  | .datetime_ => st_datetime l
  | .unit_ => st_unit l

def body (f : FilterName) (l : Cls) (a0 a1 a2 : Option Cls) : Res Unit :=
  let s := steps f l
  s.s0.bind fun _ => (s.s1 a0).bind fun _ => (s.s2 a1).bind fun _ => (s.s3 a2).bind fun _ => s.sEnd

/-- the call `_filter(val, *args)`: a wrong number of positional arguments is a `TypeError` -/
def callBody (f : FilterName) (l : Cls) (args : List Cls) : Res Unit :=
  if args.length < f.arity.1 || f.arity.2 < args.length then raise .TypeError
  else body f l args[0]? args[1]? args[2]?

/-- the single exception-relevant decorator of a filter (`none`: undecorated) -/
def decoOf (f : FilterName) : Option Deco := f.decos.head?

/-- what the decorator's handlers, then `Filter.evaluate`'s handlers, make of one outcome of the call -/
def postDeco (f : FilterName) (r : Except Exc Unit) : Res Unit :=
  match decoOf f with
  | none => [r]
  | some d => handle (decoTable d) (decoRecover d) r

def postEval (r : Except Exc Unit) : Res Unit :=
  handle catch_builtin_expressions_filtered_Filter_evaluate_0 noOverride r

def pre (f : FilterName) (l : Cls) : Res Cls :=
  match decoOf f with
  | none => pure l
  | some d => decoPre d l

/-- `Filter.evaluate`: `func(left, *args)` under its two handlers.  A filter with more than one exception-relevant
decorator is outside the model and fails closed (`runFilter`). -/
def runFilterCore (f : FilterName) (l : Cls) (args : List Cls) : Res Unit :=
  List.flatMap postEval
    ((pre f l).bind fun l' => List.flatMap (postDeco f) (callBody f l' args))

def runFilter (f : FilterName) (l : Cls) (args : List Cls) : Res Unit :=
  if f.decos.length > 1 then raise .Exception else runFilterCore f l args

/-! ## Tag-level sites: one hole `x` in a template -/

inductive Site
  | output | range_bound | for_limit | for_offset | tablerow_cols | tablerow_limit | translate_count | contains_left
  | contains_in_str | contains_in_dict | include_name | cycle_item | assign | lt_left | lt_right | lt_str
  | ge_self | eq_int | eq_empty | eq_blank | contains_list | contains_empty | truthy | not_
  | idx_list | idx_dict | idx_str | sub0 | subk | dot_size | dot_first | dot_last
  | dot_k | case_ | when_ | cycle_group | render_with | render_for | render_arg | include_with
  | include_for | include_arg | ifchanged | with_ | macro_arg | translate_var | ternary_cond | ternary_val
  | for_iter | tablerow_iter | liquid_echo | kw_allow_false | kw_t_var | kw_t_count | kw_t_plural | kw_unknown
  | kw_unknown_t
  deriving DecidableEq, Repr

def Site.all : List Site :=
  [.output, .range_bound, .for_limit, .for_offset, .tablerow_cols, .tablerow_limit, .translate_count, .contains_left,
   .contains_in_str, .contains_in_dict, .include_name, .cycle_item, .assign, .lt_left, .lt_right, .lt_str,
   .ge_self, .eq_int, .eq_empty, .eq_blank, .contains_list, .contains_empty, .truthy, .not_,
   .idx_list, .idx_dict, .idx_str, .sub0, .subk, .dot_size, .dot_first, .dot_last,
   .dot_k, .case_, .when_, .cycle_group, .render_with, .render_for, .render_arg, .include_with,
   .include_for, .include_arg, .ifchanged, .with_, .macro_arg, .translate_var, .ternary_cond, .ternary_val,
   .for_iter, .tablerow_iter, .liquid_echo, .kw_allow_false, .kw_t_var, .kw_t_count, .kw_t_plural, .kw_unknown,
   .kw_unknown_t]

def Site.name : Site → String
  | .output => "output" | .range_bound => "range_bound" | .for_limit => "for_limit" | .for_offset => "for_offset"
  | .tablerow_cols => "tablerow_cols" | .tablerow_limit => "tablerow_limit" | .translate_count => "translate_count" | .contains_left => "contains_left"
  | .contains_in_str => "contains_in_str" | .contains_in_dict => "contains_in_dict" | .include_name => "include_name" | .cycle_item => "cycle_item"
  | .assign => "assign" | .lt_left => "lt_left" | .lt_right => "lt_right" | .lt_str => "lt_str"
  | .ge_self => "ge_self" | .eq_int => "eq_int" | .eq_empty => "eq_empty" | .eq_blank => "eq_blank"
  | .contains_list => "contains_list" | .contains_empty => "contains_empty" | .truthy => "truthy" | .not_ => "not_"
  | .idx_list => "idx_list" | .idx_dict => "idx_dict" | .idx_str => "idx_str" | .sub0 => "sub0"
  | .subk => "subk" | .dot_size => "dot_size" | .dot_first => "dot_first" | .dot_last => "dot_last"
  | .dot_k => "dot_k" | .case_ => "case_" | .when_ => "when_" | .cycle_group => "cycle_group"
  | .render_with => "render_with" | .render_for => "render_for" | .render_arg => "render_arg" | .include_with => "include_with"
  | .include_for => "include_for" | .include_arg => "include_arg" | .ifchanged => "ifchanged" | .with_ => "with_"
  | .macro_arg => "macro_arg" | .translate_var => "translate_var" | .ternary_cond => "ternary_cond" | .ternary_val => "ternary_val"
  | .for_iter => "for_iter" | .tablerow_iter => "tablerow_iter" | .liquid_echo => "liquid_echo" | .kw_allow_false => "kw_allow_false"
  | .kw_t_var => "kw_t_var" | .kw_t_count => "kw_t_count" | .kw_t_plural => "kw_t_plural" | .kw_unknown => "kw_unknown"
  | .kw_unknown_t => "kw_unknown_t"

/-- `LoopExpression._to_int` -/
def loopToInt (x : Cls) : Res Cls :=
  tryCatch (toInt x) catch_builtin_expressions_loop_LoopExpression__to_int_0 noOverride

/-- `is_truthy` of Liquid: only nil, false and undefined are falsy -/
def liquidFalsy : Cls → Bool | none_ | false_ | undefined => true | _ => false

def runSite (s : Site) (x : Cls) : Res Unit :=
  match s with
  | .output => (toLiquidString x).unit
  | .range_bound =>   -- RangeLiteral._make_range
    (tryCatch (toInt x) catch_builtin_expressions_primitive_RangeLiteral__make_range_0 (fun _ => some (pure int_zero))).unit
  | .for_limit | .tablerow_limit =>
    -- `_slice` clamps: `stop_ = length if stop is None else min(max(stop, start_), length)`, never negative
    (loopToInt x).unit
  | .for_offset => (loopToInt x).unit
  | .tablerow_cols =>
    (tryCatch (toInt x) catch_builtin_tags_tablerow_tag_TablerowNode__int_or_zero_0 (fun _ => some (pure int_zero))).unit
  | .translate_count =>
    (tryCatch (toInt x) catch_extra_tags_translate_tag_TranslateNode_resolve_count_0 (fun _ => some (pure int_pos))).unit
  | .contains_left =>   -- `x contains 1`
    if liquidFalsy x then pure ()
    else if x.isStr || x.isList || x.isDict || x == range_ then pure ()
    else raise .LiquidTypeError
  | .contains_in_str => if liquidFalsy x then pure () else (pyStr x).unit    -- `'hello' contains x`
  | .contains_in_dict => pure ()   -- `d contains x`: `any(_eq(item, x) for item in d)`, nothing is hashed
  | .include_name => do let _ ← pyStr x; raise .TemplateNotFoundError
  | .cycle_item => (toLiquidString x).unit
  -- nothing is converted: the value is bound, compared with Liquid equality, tested for truthiness, used as a
  -- subscript (`RenderContext.get_item` turns KeyError/IndexError/TypeError into Undefined) or iterated
  | .assign | .ge_self | .eq_int | .eq_empty | .eq_blank | .contains_list | .truthy | .not_ | .idx_list | .idx_dict | .idx_str
  | .sub0 | .subk | .dot_size | .dot_first | .dot_last | .dot_k | .case_ | .when_ | .ternary_cond | .for_iter | .tablerow_iter
  | .kw_allow_false | .kw_unknown_t => pure ()
  -- `_lt`: two strings, a bool on either side (false), or two numbers; anything else is a LiquidTypeError
  | .lt_left | .lt_right => if x.isNum then pure () else raise .LiquidTypeError        -- `x < 1`, `1 < x`
  | .lt_str => if x.isStr || x.isBool then pure () else raise .LiquidTypeError          -- `'a' < x`
  | .contains_empty =>   -- `x contains empty`
    if liquidFalsy x || x.isStr || x.isList || x.isDict || x == range_ then pure () else raise .LiquidTypeError
  -- the value is written to the output (or a message) through `to_liquid_string`
  | .cycle_group | .render_with | .render_for | .render_arg | .include_with | .include_for | .include_arg | .ifchanged
  | .with_ | .macro_arg | .translate_var | .ternary_val | .liquid_echo | .kw_t_var | .kw_t_plural => (toLiquidString x).unit
  | .kw_t_count =>   -- `t: plural: 'b', count: x`: `translate._count`, then `Filter.evaluate`'s handlers
    List.flatMap postEval
      ((if x == none_ || x.isBool then pure ()
        else (tryCatch (pyInt x) catch_extra_filters_translate__count_0 (fun _ => some (pure int_zero))).unit) : Res Unit)
  | .kw_unknown =>   -- an unexpected keyword argument: TypeError at the call, inside the decorator's try
    List.flatMap postEval (postDeco .upcase_ (.error .TypeError))

/-! ## Handlers that everything passes through -/

/-- `Environment.from_string`: what an exception raised while parsing becomes -/
def fromString (e : Exc) : Res Unit :=
  handle catch_environment_Environment_from_string_0 noOverride (.error e)

/-- `BoundTemplate.render_with_context`: the per-node handler; a Liquid error is handed to `Environment.error`
(raised in strict mode, a warning or nothing otherwise), interrupts and `StopRender` are consumed -/
def renderLoop (strict : Bool) (e : Exc) : Res Unit :=
  handle catch_template_BoundTemplate_render_with_context_0
    (fun i => match i with
      | 0 => some (if strict then raise .LiquidSyntaxError else pure ())   -- a stray break/continue is reported as a syntax error
      | 1 => some (pure ())
      | _ => some (if strict then raise e else pure ()))
    (.error e)

/-- a site seen through the render loop (`strict = false`: warn / lax mode) -/
def runSiteMode (strict : Bool) (s : Site) (x : Cls) : Res Unit :=
  List.flatMap (fun r => match r with | .ok _ => [.ok ()] | .error e => renderLoop strict e) (runSite s x)

end LiquidVerif.C02
