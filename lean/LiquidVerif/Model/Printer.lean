import LiquidVerif.Model.BoolParse
import LiquidVerif.Model.ExprLex
/-!
Model of the `__str__` methods that serialise a template (`liquid/template.py`, `liquid/ast.py`,
`liquid/builtin/output.py`, `liquid/builtin/expressions/*.py`, `liquid/builtin/tags/*.py`), as they
are written on branch `fix-C04` (i.e. after the `fix:` commits recorded in `known_findings.d/C04.json`).
The printer the tree had before those commits is kept as `printBOrig` so that the defects stay stated.
-/
namespace LiquidVerif.Printer
open LiquidVerif.BoolParse

/-! ## 1. `BooleanExpression.__str__` at token level -/

def wrapIf (c : Bool) (ts : List Tok) : List Tok := if c then [.lp] ++ ts ++ [.rp] else ts

/-- `isinstance(expression, (LogicalAnd…, LogicalOr…, LogicalNot…)) or isinstance(expression, _INFIX_EXPRESSIONS)` -/
def isCompound : E → Bool
  | .atom _ => false
  | _ => true

/-- `_str(expression, parent_precedence, left=…)` of the fixed `BooleanExpression.__str__`.
`PRECEDENCE_LOGICAL_AND = 4`, `PRECEDENCE_LOGICAL_OR = 3`, `PRECEDENCE_PREFIX = 7`. -/
def printB (parent : Nat) (left : Bool) : E → List Tok
  | .atom n => [.atom n]
  | .and l r => wrapIf (left || decide (4 < parent)) (printB 4 true l ++ [.and] ++ printB 4 false r)
  | .or l r => wrapIf (left || decide (3 < parent)) (printB 3 true l ++ [.or] ++ printB 3 false r)
  | .not x => wrapIf (left || decide (7 < parent)) ([.not] ++ printB 7 false x)
  | .cmp c l r =>
      -- `_operand(expression.left) op _operand(expression.right)`
      wrapIf (isCompound l) (printB 0 false l) ++ [.cmp c] ++ wrapIf (isCompound r) (printB 0 false r)

/-- `BooleanExpression.__str__`: `_str(self.expression, 0)` -/
def printBool (e : E) : List Tok := printB 0 false e

/-- The printer of the unchanged tree (before `fix:` 15d7f42): precedence-only parenthesisation for
`and`/`or`, `not` never parenthesised, comparison operands printed by their own `__str__`
(`f"{self.left} == {self.right}"`, which never adds parentheses). -/
def strOrig : E → List Tok
  | .atom n => [.atom n]
  | .and l r => strOrig l ++ [.and] ++ strOrig r
  | .or l r => strOrig l ++ [.or] ++ strOrig r
  | .not x => [.not] ++ strOrig x
  | .cmp c l r => strOrig l ++ [.cmp c] ++ strOrig r

def printBOrig (parent : Nat) : E → List Tok
  | .atom n => [.atom n]
  | .and l r => wrapIf (decide (4 < parent)) (printBOrig 4 l ++ [.and] ++ printBOrig 4 r)
  | .or l r => wrapIf (decide (3 < parent)) (printBOrig 3 l ++ [.or] ++ printBOrig 3 r)
  | .not x => wrapIf (decide (7 < parent)) ([.not] ++ printBOrig 7 x)
  | .cmp c l r => strOrig l ++ [.cmp c] ++ strOrig r


/-! ## 2. String literals

`StringLiteral.__str__` (fixed): `quote = '"' if "'" in value else "'"`; `f"{quote}{value}{quote}"`.
The expression lexer's `STRING_PATTERN` is `(?P<quote>["'])(?P<quoted>.*?)(?P=quote)` under `re.DOTALL`:
an opening quote, lazily anything, the same quote again; there are no escape sequences. -/

def quoteOf (v : List Char) : Char := if '\'' ∈ v then '"' else '\''

def quoteStr (v : List Char) : List Char := quoteOf v :: (v ++ [quoteOf v])

/-- lazily take characters up to the first `q` (the `.*?(?P=quote)` part) -/
def untilQuote (q : Char) : List Char → Option (List Char × List Char)
  | [] => none
  | c :: cs =>
    if c = q then some ([], cs)
    else match untilQuote q cs with
      | some (v, r) => some (c :: v, r)
      | none => none

/-- `STRING_PATTERN` matched at the head of the input: `(value, rest)` -/
def scanString : List Char → Option (List Char × List Char)
  | [] => none
  | c :: cs => if c = '"' ∨ c = '\'' then untilQuote c cs else none

/-- The unchanged tree printed string literals with Python's `repr`.  Modelled for the characters
that matter here (printable ASCII, backslash, newline, tab, carriage return): `repr` prefers single
quotes, switches to double quotes when the value has a `'` and no `"`, and escapes the backslash, the
chosen quote and the control characters. -/
def reprQuote (v : List Char) : Char := if '\'' ∈ v ∧ ¬ '"' ∈ v then '"' else '\''

def reprEsc (q : Char) : List Char → List Char
  | [] => []
  | c :: cs =>
    (if c = '\\' then ['\\', '\\']
     else if c = '\n' then ['\\', 'n']
     else if c = '\t' then ['\\', 't']
     else if c = '\r' then ['\\', 'r']
     else if c = q then ['\\', q]
     else [c]) ++ reprEsc q cs

def reprOrig (v : List Char) : List Char := reprQuote v :: (reprEsc (reprQuote v) v ++ [reprQuote v])


/-! ## 3. Paths, primitives, filters, loop expressions, nodes — text level

These mirror the `__str__` methods literally and are what the `print` correspondence stream compares
with the real `str(template)` on the same trees. -/

/-- `_keywords` of `liquid/builtin/expressions/_tokenize.py` -/
def keywords : List String :=
  ["true", "false", "nil", "null", "empty", "blank", "and", "or", "contains", "not", "in", "offset",
   "limit", "reversed", "cols", "continue", "with", "for", "as", "if", "else", "required"]

/-- `RE_PROPERTY = (?!\d+(?!\w))\w[\w\-]*\??` (after `fix:` 07687ad): the lexer's identifier pattern
`\w[\w\-]*\??`, minus the strings whose leading digits the lexer would scan as an INTEGER (`\d+\b`).
Character classes are those of the C20 lexer model (`ExprLex.isWord`, `ExprLex.isDigit`). -/
def isWordBody (c : Char) : Bool := ExprLex.isWord c || c == '-'

def intPrefix (cs : List Char) : Bool :=
  let ds := ExprLex.spanP ExprLex.isDigit cs
  !ds.1.isEmpty && (match ds.2 with | [] => true | c :: _ => !ExprLex.isWord c)

def isWordText (cs : List Char) : Bool :=
  match cs with
  | [] => false
  | c :: r =>
    ExprLex.isWord c &&
      (let body := ExprLex.spanP isWordBody r
       body.2 == [] || body.2 == ['?']) && !intPrefix cs

/-- `RE_PROPERTY.fullmatch(segment) and segment not in _keywords` -/
def isProperty (s : String) : Bool := isWordText s.toList && !keywords.contains s

def quoteS (s : String) : String := String.ofList (quoteStr s.toList)

mutual
/-- a path segment: `str`, `int` or nested `Path` -/
inductive Seg where
  | name (s : String)
  | idx (i : Int)
  | sub (p : Segs)
inductive Segs where
  | nil
  | cons (s : Seg) (r : Segs)
end

mutual
/-- one iteration of the loop in the fixed `Path.__str__`; `first` is `i == 0` -/
def strSeg (first : Bool) : Seg → String
  | .name s => if isProperty s then (if first then s else "." ++ s) else "[" ++ quoteS s ++ "]"
  | .idx i => "[" ++ toString i ++ "]"
  | .sub p => "[" ++ strSegs true p ++ "]"
def strSegs (first : Bool) : Segs → String
  | .nil => ""
  | .cons s r => strSeg first s ++ strSegs false r
end

/-! ### `Path.parse` at token level (mode strict, `shorthand_indexes` off) -/

/-- the expression-lexer tokens a path is made of; everything else is `other` -/
inductive PTok where
  | word (s : String)          -- TOKEN_WORD
  | identstring (s : String)   -- TOKEN_IDENTSTRING  `["…"]`
  | identindex (i : Int)       -- TOKEN_IDENTINDEX   `[3]`
  | lbracket | rbracket | dot
  | other (n : Nat)
  deriving DecidableEq

mutual
/-- the token sequence the lexer produces for the text `strSeg first s` -/
def tokSeg (first : Bool) : Seg → List PTok
  | .name s => if isProperty s then (if first then [.word s] else [.dot, .word s]) else [.identstring s]
  | .idx i => [.identindex i]
  | .sub p => [.lbracket] ++ tokSegs true p ++ [.rbracket]
def tokSegs (first : Bool) : Segs → List PTok
  | .nil => []
  | .cons s r => tokSeg first s ++ tokSegs false r
end

/-- The unchanged tree's `Path.__str__` started with `buf = [str(next(it))]`: a nested path in root
position lost its brackets (repaired by `fix:` ff25976).  Token view of that for a bracketed root. -/
def tokSegsOrig : Segs → List PTok
  | .cons (.sub p) r => tokSegs true p ++ tokSegs false r
  | p => tokSegs true p

def startsWithWord : List PTok → Bool
  | .word _ :: _ => true
  | _ => false

mutual
/-- the `while True:` loop of `Path.parse`, returning the segments from here on -/
def pathLoopS (ts : List PTok) : Option (Segs × {r : List PTok // r.length ≤ ts.length}) :=
  match ts with
  | .word s :: r =>
    -- "Two consecutive words indicate end of path."
    if startsWithWord r then some (.cons (.name s) .nil, ⟨r, by simp⟩)
    else match pathLoopS r with
      | some (p, r') => some (.cons (.name s) p, ⟨r'.1, by have := r'.2; simp only [List.length_cons]; omega⟩)
      | none => none
  | .identstring s :: r =>
    if startsWithWord r then none        -- strict: "expected a dot or bracket notation"
    else match pathLoopS r with
      | some (p, r') => some (.cons (.name s) p, ⟨r'.1, by have := r'.2; simp only [List.length_cons]; omega⟩)
      | none => none
  | .identindex i :: r =>
    if startsWithWord r then none
    else match pathLoopS r with
      | some (p, r') => some (.cons (.idx i) p, ⟨r'.1, by have := r'.2; simp only [List.length_cons]; omega⟩)
      | none => none
  | .lbracket :: r =>
    match parsePathS r with
    | some (q, ⟨.rbracket :: r', h⟩) =>
      if startsWithWord r' then none
      else match pathLoopS r' with
        | some (p, r'') => some (.cons (.sub q) p, ⟨r''.1, by
            have := r''.2; simp only [List.length_cons] at h ⊢; omega⟩)
        | none => none
    | _ => none
  | .dot :: r =>
    -- strict, no shorthand indexes: a dot must be followed by a word
    if startsWithWord r then
      match pathLoopS r with
      | some (p, r') => some (p, ⟨r'.1, by have := r'.2; simp only [List.length_cons]; omega⟩)
      | none => none
    else none
  | rest => some (.nil, ⟨rest, Nat.le_refl _⟩)
termination_by 2 * ts.length
decreasing_by
  all_goals simp_wf
  all_goals (try simp only [List.length_cons] at *)
  all_goals omega

/-- `Path.parse`: the loop, then "missing or unexpected path segment" when nothing was collected -/
def parsePathS (ts : List PTok) : Option (Segs × {r : List PTok // r.length ≤ ts.length}) :=
  match pathLoopS ts with
  | some (.nil, _) => none
  | x => x
termination_by 2 * ts.length + 1
decreasing_by
  all_goals simp_wf
end

def pathLoop (ts : List PTok) : Option (Segs × List PTok) := (pathLoopS ts).map fun x => (x.1, x.2.1)
def parsePath (ts : List PTok) : Option (Segs × List PTok) := (parsePathS ts).map fun x => (x.1, x.2.1)

/-- primitive expressions (`parse_primitive`) -/
inductive Prim where
  | nil | tru | fals | empty | blank
  | int (i : Int)
  | float (text : String)      -- text of `FloatLiteral.__str__` (Python float formatting is not modelled)
  | str (v : String)
  | range (a b : Prim)
  | path (p : Segs)
  | word (s : String)          -- an `Identifier` printed bare (inline `render` snippet name)

def strPrim : Prim → String
  | .nil => ""                 -- `Nil.__str__` returns "" (pinned by the repo's tests; known finding)
  | .tru => "true"
  | .fals => "false"
  | .empty => ""               -- `Empty.__str__` returns "": it is also the run-time string of the value
  | .blank => ""               -- (`'abc' contains empty` uses `str(right)`), so it cannot print the keyword; known finding
  | .int i => toString i
  | .float t => t
  | .str v => quoteS v
  | .range a b => "(" ++ strPrim a ++ ".." ++ strPrim b ++ ")"
  | .path p => strSegs true p
  | .word s => s

/-- a logical expression: the tree over atom numbers plus the table of its primitive operands -/
structure BoolX where
  e : E
  atoms : List Prim

def cmpStr : Cmp → String
  | .eq => "==" | .ne => "!=" | .lt => "<" | .gt => ">" | .le => "<=" | .ge => ">=" | .contains => "contains"

def tokStr (atoms : List Prim) : Tok → String
  | .atom n => match atoms[n]? with | some p => strPrim p | none => "?"
  | .and => "and" | .or => "or" | .not => "not" | .lp => "(" | .rp => ")"
  | .cmp c => cmpStr c
  | .lg => "<>"
  | .other _ => "?"

/-- spacing of the f-strings: one blank between tokens, none after `(` or before `)` -/
def joinToks (atoms : List Prim) : Option Tok → List Tok → String
  | _, [] => ""
  | prev, t :: r =>
    (match prev with
     | none => ""
     | some q => if q == .lp || t == .rp then "" else " ") ++ tokStr atoms t ++ joinToks atoms (some t) r

/-- `BooleanExpression.__str__` as text -/
def strBool (b : BoolX) : String := joinToks b.atoms none (printBool b.e)

structure Arg where
  name : Option String          -- `KeywordArgument` when `some`
  val : Prim

def strArg (a : Arg) : String :=
  match a.name with
  | some n => n ++ ":" ++ strPrim a.val
  | none => strPrim a.val

structure Filter where
  name : String
  args : List Arg

/-- `Filter.__str__` -/
def strFilter (f : Filter) : String :=
  if f.args.isEmpty then f.name else f.name ++ ": " ++ ", ".intercalate (f.args.map strArg)

def strFilters (fs : List Filter) : String := " | ".intercalate (fs.map strFilter)

/-- expressions of output statements, `echo` and `assign` -/
inductive Expr where
  | prim (p : Prim)                                   -- `echo` without expression holds a bare `Nil`
  | filtered (left : Prim) (filters : List Filter)
  | ternary (left : Prim) (lfilters : List Filter) (cond : BoolX) (alt : Option Prim)
      (filters : List Filter) (tail : List Filter)

def strFiltered (left : Prim) (filters : List Filter) : String :=
  strPrim left ++ (if filters.isEmpty then "" else " | " ++ strFilters filters)

def strExpr : Expr → String
  | .prim p => strPrim p
  | .filtered l fs => strFiltered l fs
  | .ternary l lfs c alt fs tail =>
    strFiltered l lfs ++ " if " ++ strBool c
      ++ (match alt with | some a => " else " ++ strPrim a | none => "")
      ++ (if fs.isEmpty then "" else " | " ++ strFilters fs)
      ++ (if tail.isEmpty then "" else " || " ++ strFilters tail)

/-- `LoopExpression` -/
structure LoopX where
  ident : String
  iterable : Prim
  limit : Option Prim
  offset : Option Prim
  cols : Option Prim
  reversed : Bool

def strLoop (l : LoopX) : String :=
  " ".intercalate (
    [l.ident ++ " in", strPrim l.iterable]
    ++ (match l.limit with | some x => ["limit:" ++ strPrim x] | none => [])
    ++ (match l.offset with | some x => ["offset:" ++ strPrim x] | none => [])
    ++ (match l.cols with | some x => ["cols:" ++ strPrim x] | none => [])
    ++ (if l.reversed then ["reversed"] else []))

mutual
inductive Node where
  | content (text : String)                        -- template text, also what a `raw` block becomes
  | output (e : Expr)
  | echo (e : Expr)
  | assign (name : String) (e : Expr)
  | capture (name : String) (body : Nodes)
  | ifN (isUnless : Bool) (cond : BoolX) (body : Nodes) (alts : Nodes) (dflt : Option Nodes)
  | elsif (cond : BoolX) (body : Nodes)            -- `ConditionalBlockNode`
  | caseN (e : Prim) (blocks : Nodes)              -- blocks are `when` nodes or `elseBlock`s
  | when (exprs : List Prim) (body : Nodes)        -- `MultiExpressionBlockNode`
  | elseBlock (body : Nodes)                       -- a bare `BlockNode` inside `case`
  | forN (l : LoopX) (body : Nodes) (dflt : Option Nodes)
  | tablerow (l : LoopX) (body : Nodes)
  | brk
  | cont
  | cycle (group : Option Prim) (args : List Prim)
  | incr (name : String)
  | decr (name : String)
  | ifchanged (body : Nodes)
  | includeN (name : Prim) (var : Option Prim) (alias : Option String) (args : List Arg)
  | renderN (name : Prim) (var : Option Prim) (loop : Bool) (alias : Option String) (args : List Arg)
  | liquid (text : Option String)                  -- printed from the raw token, as the code does
  | comment (text : String)
  | inlineComment (text : String)
  | doc (text : String)
inductive Nodes where
  | nil
  | cons (n : Node) (r : Nodes)
end

/-- the `var`/`alias`/`args` tail shared by `IncludeNode.__str__` and `RenderNode.__str__` -/
def strPartialTail (var : Option Prim) (kw : String) (alias : Option String) (args : List Arg) : String :=
  (match var with | some v => " " ++ kw ++ " " ++ strPrim v | none => "")
  ++ (match alias with | some a => if a.isEmpty then "" else " as " ++ a | none => "")
  ++ (if args.isEmpty then "" else ",")
  ++ (if args.isEmpty then "" else " " ++ ", ".intercalate (args.map strArg))

mutual
def strNode : Node → String
  | .content t => t
  | .output e => "{{ " ++ strExpr e ++ " }}"
  | .echo e => "{% echo " ++ strExpr e ++ " %}"
  | .assign n e => "{% assign " ++ n ++ " = " ++ strExpr e ++ " %}"
  | .capture n b => "{% capture " ++ n ++ " %}" ++ strNodes b ++ "{% endcapture %}"
  | .ifN u c b alts d =>
    (if u then "{% unless " else "{% if ") ++ strBool c ++ " %}" ++ strNodes b ++ strNodes alts
      ++ (match d with | some d => "{% else %}" ++ strNodes d | none => "")
      ++ (if u then "{% endunless %}" else "{% endif %}")
  | .elsif c b => "{% elsif " ++ strBool c ++ " %}" ++ strNodes b
  | .caseN e bs => "{% case " ++ strPrim e ++ " %}\n" ++ strNodes bs ++ "{% endcase %}"
  | .when es b => "{% when " ++ ", ".intercalate (es.map strPrim) ++ " %}" ++ strNodes b
  | .elseBlock b => "{% else %}" ++ strNodes b
  | .forN l b d =>
    "{% for " ++ strLoop l ++ " %}" ++ strNodes b
      ++ (match d with | some d => "{% else %}" ++ strNodes d | none => "") ++ "{% endfor %}"
  | .tablerow l b => "{% tablerow " ++ strLoop l ++ " %}" ++ strNodes b ++ "{% endtablerow %}"
  | .brk => "{% break %}"
  | .cont => "{% continue %}"
  | .cycle g args =>
    "{% cycle " ++ (match g with | some g => strPrim g ++ ": " | none => "")
      ++ ", ".intercalate (args.map strPrim) ++ " %}"
  | .incr n => "{% increment " ++ n ++ " %}"
  | .decr n => "{% decrement " ++ n ++ " %}"
  | .ifchanged b => "{% ifchanged %}" ++ strNodes b ++ "{% endifchanged %}"
  | .includeN n v a args => "{% include " ++ strPrim n ++ strPartialTail v "with" a args ++ " %}"
  | .renderN n v lp a args =>
    "{% render " ++ strPrim n ++ strPartialTail v (if lp then "for" else "with") a args ++ " %}"
  | .liquid t => "{% liquid " ++ (match t with | some t => t | none => "") ++ " %}"
  | .comment t => "{% comment %}" ++ t ++ "{% endcomment %}"
  | .inlineComment t => "{% # " ++ t ++ " %}"
  | .doc t => "{% doc %}" ++ t ++ "{% enddoc %}"
/-- `BlockNode.__str__` / `BoundTemplate.__str__`: `"".join(str(n) for n in nodes)` -/
def strNodes : Nodes → String
  | .nil => ""
  | .cons n r => strNode n ++ strNodes r
end

end LiquidVerif.Printer
