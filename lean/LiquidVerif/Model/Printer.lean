import LiquidVerif.Model.BoolParse
/-!
Model of the `__str__` methods that serialise a template (`liquid/template.py`, `liquid/ast.py`,
`liquid/builtin/output.py`, `liquid/builtin/expressions/*.py`, `liquid/builtin/tags/*.py`), as they
are written on branch `fix-C04` (i.e. after the `fix:` commits recorded in `known_findings.d/C04.json`).
The printer the tree had before those commits is kept as `printBOrig` so that the defects stay stated.
-/
namespace LiquidVerif.Printer
open LiquidVerif.BoolParse

/-! ## 1. `BooleanExpression.__str__` at token level -/

def wrapIf (c : Bool) (ts : List Tok) : List Tok := if c then [.lp] ++ ts ++ [.rp] else ts

/-- `isinstance(expression, (LogicalAnd…, LogicalOr…, LogicalNot…)) or isinstance(expression, _INFIX_EXPRESSIONS)` -/
def isCompound : E → Bool
  | .atom _ => false
  | _ => true

/-- `_str(expression, parent_precedence, left=…)` of the fixed `BooleanExpression.__str__`.
`PRECEDENCE_LOGICAL_AND = 4`, `PRECEDENCE_LOGICAL_OR = 3`, `PRECEDENCE_PREFIX = 7`. -/
def printB (parent : Nat) (left : Bool) : E → List Tok
  | .atom n => [.atom n]
  | .and l r => wrapIf (left || decide (4 < parent)) (printB 4 true l ++ [.and] ++ printB 4 false r)
  | .or l r => wrapIf (left || decide (3 < parent)) (printB 3 true l ++ [.or] ++ printB 3 false r)
  | .not x => wrapIf (left || decide (7 < parent)) ([.not] ++ printB 7 false x)
  | .cmp c l r =>
      -- `_operand(expression.left) op _operand(expression.right)`
      wrapIf (isCompound l) (printB 0 false l) ++ [.cmp c] ++ wrapIf (isCompound r) (printB 0 false r)

/-- `BooleanExpression.__str__`: `_str(self.expression, 0)` -/
def printBool (e : E) : List Tok := printB 0 false e

/-- The printer of the unchanged tree (before `fix:` 15d7f42): precedence-only parenthesisation for
`and`/`or`, `not` never parenthesised, comparison operands printed by their own `__str__`
(`f"{self.left} == {self.right}"`, which never adds parentheses). -/
def strOrig : E → List Tok
  | .atom n => [.atom n]
  | .and l r => strOrig l ++ [.and] ++ strOrig r
  | .or l r => strOrig l ++ [.or] ++ strOrig r
  | .not x => [.not] ++ strOrig x
  | .cmp c l r => strOrig l ++ [.cmp c] ++ strOrig r

def printBOrig (parent : Nat) : E → List Tok
  | .atom n => [.atom n]
  | .and l r => wrapIf (decide (4 < parent)) (printBOrig 4 l ++ [.and] ++ printBOrig 4 r)
  | .or l r => wrapIf (decide (3 < parent)) (printBOrig 3 l ++ [.or] ++ printBOrig 3 r)
  | .not x => wrapIf (decide (7 < parent)) ([.not] ++ printBOrig 7 x)
  | .cmp c l r => strOrig l ++ [.cmp c] ++ strOrig r


/-! ## 2. String literals

`StringLiteral.__str__` (fixed): `quote = '"' if "'" in value else "'"`; `f"{quote}{value}{quote}"`.
The expression lexer's `STRING_PATTERN` is `(?P<quote>["'])(?P<quoted>.*?)(?P=quote)` under `re.DOTALL`:
an opening quote, lazily anything, the same quote again; there are no escape sequences. -/

def quoteOf (v : List Char) : Char := if '\'' ∈ v then '"' else '\''

def quoteStr (v : List Char) : List Char := quoteOf v :: (v ++ [quoteOf v])

/-- lazily take characters up to the first `q` (the `.*?(?P=quote)` part) -/
def untilQuote (q : Char) : List Char → Option (List Char × List Char)
  | [] => none
  | c :: cs =>
    if c = q then some ([], cs)
    else match untilQuote q cs with
      | some (v, r) => some (c :: v, r)
      | none => none

/-- `STRING_PATTERN` matched at the head of the input: `(value, rest)` -/
def scanString : List Char → Option (List Char × List Char)
  | [] => none
  | c :: cs => if c = '"' ∨ c = '\'' then untilQuote c cs else none

/-- The unchanged tree printed string literals with Python's `repr`.  Modelled for the characters
that matter here (printable ASCII, backslash, newline, tab, carriage return): `repr` prefers single
quotes, switches to double quotes when the value has a `'` and no `"`, and escapes the backslash, the
chosen quote and the control characters. -/
def reprQuote (v : List Char) : Char := if '\'' ∈ v ∧ ¬ '"' ∈ v then '"' else '\''

def reprEsc (q : Char) : List Char → List Char
  | [] => []
  | c :: cs =>
    (if c = '\\' then ['\\', '\\']
     else if c = '\n' then ['\\', 'n']
     else if c = '\t' then ['\\', 't']
     else if c = '\r' then ['\\', 'r']
     else if c = q then ['\\', q]
     else [c]) ++ reprEsc q cs

def reprOrig (v : List Char) : List Char := reprQuote v :: (reprEsc (reprQuote v) v ++ [reprQuote v])

end LiquidVerif.Printer
