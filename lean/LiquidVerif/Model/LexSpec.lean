import LiquidVerif.Model.Lex
import LiquidVerif.Model.LexRender
/-!
# The specification side of C10: templates as items, and what each item must contribute

A template in the quantifier of C10 is a list of `Item`s: a single piece (text, output statement, tag — incl.
inline comment and `liquid` —, raw block, doc block, shorthand comment) or a *block comment*
`{% comment %} body {% endcomment %}` whose body is an arbitrary list of pieces (text, markup, nested block
comments, raw blocks containing `{% endcomment %}` …) in which the comment depth never returns to zero
(`bodyOk`).  `flatten` gives the piece list the lexer model works on.

`specNodes` is the property, stated per item:
* a text item becomes one content node holding the text, left-stripped iff the *closing* delimiter of the
  item before carries a hyphen and right-stripped iff the *opening* delimiter of the item after carries a
  hyphen (no node at all when nothing is left);
* a raw block becomes a content node holding its body verbatim;
* block / inline / shorthand comments and doc blocks become comment / doc nodes (which render nothing);
* output statements and other tags become their nodes.
Core Lean only.
-/
namespace LiquidVerif.Lex

/-- the fields of a tag piece other than its name -/
structure TagF where
  l : Bool
  r : Bool
  ws0 : Str
  ws1 : Str
  e : Str
  ws2 : Str
  deriving Repr, DecidableEq

def TagF.piece (name : Str) (t : TagF) : Piece := .tag t.l t.r t.ws0 name t.ws1 t.e t.ws2

inductive Item where
  | piece (p : Piece)
  /-- `{%[-] comment e [-]%} body {%[-] endcomment [-]%}` -/
  | comment (o : TagF) (body : List Piece) (c : TagF)
  deriving Repr

def Item.pieces : Item → List Piece
  | .piece p => [p]
  | .comment o body c => o.piece kwComment :: (body ++ [c.piece kwEndcomment])

def flatten : List Item → List Piece
  | [] => []
  | it :: rest => it.pieces ++ flatten rest

def isTagNamed (n : Str) : Piece → Bool
  | .tag _ _ _ name _ _ _ => name = n
  | _ => false

/-- Comment depth after scanning `body` starting at depth `k`; `none` if the depth returns to zero inside. -/
def bodyDepth : Nat → List Piece → Option Nat
  | k, [] => some k
  | k, p :: ps =>
    if isTagNamed kwEndcomment p then (if k ≤ 1 then none else bodyDepth (k - 1) ps)
    else if isTagNamed kwComment p then bodyDepth (k + 1) ps
    else bodyDepth k ps

/-- the body of a block comment: nested comments are balanced and none of them closes the outer one -/
def bodyOk (body : List Piece) : Bool := bodyDepth 1 body = some 1

/-- `str.startswith("{{")` / `"{%"` — the two prefixes `_tokenize_template` rejects in a content token
(literally these characters, whatever the delimiters are) -/
def braceStart (s : Str) : Bool := startsWith ['{', '{'] s || startsWith ['{', '%'] s

/-- a text is *clean* when no stripped form of it begins like markup (true of every text that contains no
`{{` and no `{%`) -/
def textClean (s : Str) : Bool :=
  !braceStart (applyStrip false false s) && !braceStart (applyStrip false true s) &&
  !braceStart (applyStrip true false s) && !braceStart (applyStrip true true s)

/-- side conditions on an item: a top-level piece does not open a block comment by itself, top-level text is
clean, a block comment's body is balanced -/
def Item.ok : Item → Bool
  | .piece (.text s) => textClean s
  | .piece p => !isTagNamed kwComment p
  | .comment _ body _ => bodyOk body

def Item.isText : Item → Bool
  | .piece (.text _) => true
  | _ => false

/-- hyphen on the item's opening delimiter -/
def Item.openHyphen : Item → Bool
  | .piece p => p.openHyphen
  | .comment o _ _ => o.l

/-- hyphen on the item's closing delimiter (for a block comment: the closing delimiter of `endcomment`) -/
def Item.closeHyphen : Item → Bool
  | .piece p => p.closeHyphen
  | .comment _ _ c => c.r

def nextOpenI : List Item → Bool
  | [] => false
  | it :: _ => it.openHyphen

/-- the left-strip flag in force after `items`: the closing hyphen of the last markup item (`pr` if there is none) -/
def carry (pr : Bool) : List Item → Bool
  | [] => pr
  | it :: rest => carry (if it.isText then pr else it.closeHyphen) rest

/-- the hyphen the content look-ahead sees after `items`-prefix: opening hyphen of the next item, `la` at the end -/
def nextOpenLA (la : Bool) : List Item → Bool
  | [] => la
  | it :: _ => it.openHyphen

def textNodes (s : Str) : List Node := if s = [] then [] else [.text s]

def tagNode (name e : Str) : Node :=
  if name = kwHash then .comment (if e = [] then kwHash else e)
  else .tag name (if e = [] then none else some e)

/-- the node of a markup item -/
def Item.nodes (d : Delims) : Item → List Node
  | .piece (.text _) => []
  | .piece (.output _ _ _ e _) => [.output e]
  | .piece (.tag _ _ _ name _ e _) => [tagNode name e]
  | .piece (.raw _ body _) => [.text body]
  | .piece (.doc _ body _) => [.doc body]
  | .piece (.short l _ body) => [.comment (hy l ++ body)]
  | .comment o body _ => [.comment (o.e ++ assemble d body)]

/-- **The specification.** `pr` = "the closing delimiter of the previous markup item carries a hyphen". -/
def specNodes (d : Delims) : Bool → List Item → List Node
  | _, [] => []
  | pr, it :: rest =>
    match it with
    | .piece (.text s) => textNodes (applyStrip pr (nextOpenI rest) s) ++ specNodes d pr rest
    | _ => it.nodes d ++ specNodes d it.closeHyphen rest

/-- `specNodes` for a list that is followed by something whose opening delimiter carries a hyphen iff `la`
(`specNodesLA d pr false = specNodes d pr`, lemma `specNodesLA_false`) -/
def specNodesLA (d : Delims) : Bool → Bool → List Item → List Node
  | _, _, [] => []
  | pr, la, it :: rest =>
    match it with
    | .piece (.text s) => textNodes (applyStrip pr (nextOpenLA la rest) s) ++ specNodesLA d pr la rest
    | _ => it.nodes d ++ specNodesLA d it.closeHyphen la rest

/-- items that must never produce output: block comments, inline comments, shorthand comments, doc blocks -/
def Item.isSilent : Item → Bool
  | .comment _ _ _ => true
  | .piece (.doc _ _ _) => true
  | .piece (.short _ _ _) => true
  | .piece (.tag _ _ _ name _ _ _) => name = kwHash
  | _ => false

/-- no two text items are adjacent (adjacent text is one text) -/
def Normal : List Item → Bool
  | [] => true
  | [_] => true
  | a :: b :: rest => !(a.isText && b.isText) && Normal (b :: rest)

def allOk (items : List Item) : Bool := items.all Item.ok

/-- the token's value is the slice of `src` that starts at the token's start index -/
def Token.inSrc (src : Str) (t : Token) : Prop := (src.drop t.start).take t.value.length = t.value

/-- the token kinds whose value is cut out of the source unchanged -/
def Token.sliced (t : Token) : Bool := t.kind == .tag || t.kind == .expression || t.kind == .output


end LiquidVerif.Lex
