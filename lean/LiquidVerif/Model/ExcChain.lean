import LiquidVerif.Model.C02Known
/-! # C02 — chains of filters (kept apart from `ExcFlow` so that the step tables do not depend on it) -/
namespace LiquidVerif.C02
open LiquidVerif.Gen.C02 Cls Res

/-! ## Chains of filters: the result of one filter is the left value of the next -/

def strClasses : List Cls := Cls.all.filter Cls.isStr
def numClasses : List Cls := Cls.all.filter Cls.isNum
def listClasses : List Cls := Cls.all.filter Cls.isList

/-- the classes the result of a filter can fall in, by what kind of value the filter returns -/
def resultBase (f : FilterName) : List Cls :=
  match f with
  | .abs_ | .at_most_ | .at_least_ | .ceil_ | .floor_ | .divided_by_ | .minus_ | .plus_ | .round_ | .times_ | .modulo_
  | .sum_ => numClasses
  | .size_ => [int_zero, int_pos]
  | .find_index_ | .index_ => [none_, int_zero, int_pos]
  | .has_ => [true_, false_]
  | .split_ => [list_empty, list_str, list_numstr]
  | .concat_ | .map_ | .reverse_ | .sort_ | .sort_natural_ | .sort_numeric_ | .where_ | .reject_ | .uniq_ | .compact_ => listClasses
  | .slice_ => strClasses ++ listClasses
  | .first_ | .last_ | .find_ | .default_ => Cls.all
  | _ => strClasses          -- every other filter returns a string

/-- does the filter hand (part of) its left value on: sequence filters wrap a scalar as `[l]`, `slice`/`first`/… may
return it -/
def passesLeft (f : FilterName) : Bool :=
  match f with
  | .concat_ | .map_ | .reverse_ | .sort_ | .sort_natural_ | .sort_numeric_ | .where_ | .reject_ | .uniq_ | .compact_
  | .slice_ | .split_ | .first_ | .last_ | .find_ | .default_ => true
  | _ => false

/-- the classes of the result: by kind, plus the left value itself for the filters that pass it on (a list `[l]`
behaves like `l` for every sequence filter that follows, and stringifies at worst like it) -/
def resultCls (f : FilterName) (l : Cls) : List Cls :=
  (if passesLeft f then resultBase f ++ [l] else resultBase f)
  -- `sequence_filter` returns nil when an inner `_getitem` met a nil item
  ++ (if f.decos.contains .sequence_filter then [none_] else [])
  -- `map` fills missing properties with its private `_Null` object, which `json` cannot serialise (like undefined)
  ++ (match f with | .map_ => [undefined] | _ => [])

abbrev Link := FilterName × List Cls

/-- `l | f1: args1 | f2: args2 | …` -/
def runChain : List Link → Cls → Res Unit
  | [], _ => Res.ret ()
  | (f, args) :: rest, l =>
    Res.bind (runFilter f l args) (fun _ => List.flatMap (fun c => runChain rest c) (resultCls f l))

/-- every link of the chain, on every class its left value can have, is outside the known-leak cells -/
def chainOk : List Link → Cls → Bool
  | [], _ => true
  | (f, args) :: rest, l => !cellKnown f l args && (resultCls f l).all (fun c => chainOk rest c)

end LiquidVerif.C02
