import LiquidVerif.Model.C02Known
/-! # C02 — chains of filters (kept apart from `ExcFlow` so that the step tables do not depend on it) -/
namespace LiquidVerif.C02
open LiquidVerif.Gen.C02 Cls Res

/-! ## Chains of filters: the result of one filter is the left value of the next -/

def strClasses : List Cls := Cls.all.filter Cls.isStr
def numClasses : List Cls := Cls.all.filter Cls.isNum
def listClasses : List Cls := Cls.all.filter Cls.isList

/-- the classes the result of a filter can fall in, by what kind of value the filter returns -/
def resultBase (f : FilterName) : List Cls :=
  match f with
  | .abs_ | .at_most_ | .at_least_ | .ceil_ | .floor_ | .divided_by_ | .minus_ | .plus_ | .round_ | .times_ | .modulo_
  | .sum_ => numClasses
  | .size_ => [int_zero, int_pos]
  | .find_index_ | .index_ => [none_, int_zero, int_pos]
  | .has_ => [true_, false_]
  | .split_ => [list_empty, list_str, list_numstr]
  | .concat_ | .map_ | .reverse_ | .sort_ | .sort_natural_ | .sort_numeric_ | .where_ | .reject_ | .uniq_ | .compact_ => listClasses
  | .slice_ => strClasses ++ listClasses
  | .first_ | .last_ | .find_ | .default_ => Cls.all
  | _ => strClasses          -- every other filter returns a string

/-- … and, when the left value is an int of more than 4300 digits, possibly a value that still carries it (a list
wrapping it, the int itself): it stringifies like `int_giant` -/
def resultCls (f : FilterName) (l : Cls) : List Cls :=
  if l == int_giant then resultBase f ++ [int_giant] else resultBase f

abbrev Link := FilterName × List Cls

/-- `l | f1: args1 | f2: args2 | …` -/
def runChain : List Link → Cls → Res Unit
  | [], _ => Res.ret ()
  | (f, args) :: rest, l =>
    Res.bind (runFilter f l args) (fun _ => List.flatMap (fun c => runChain rest c) (resultCls f l))

/-- every link of the chain, on every class its left value can have, is outside the known-leak cells -/
def chainOk : List Link → Cls → Bool
  | [], _ => true
  | (f, args) :: rest, l => !cellKnown f l args && (resultCls f l).all (fun c => chainOk rest c)

end LiquidVerif.C02
